import LenaModel.Model.C01Kinds
import LenaModel.Lemmas.C01
/-! # C01 — "every input flow": the kind of the flow object and the class of an exception do not matter

Theorems about `LenaModel/Model/C01Kinds.lean`, for ALL stored sequences, flow objects and renamings.

* `runObj_eq_run`          — `Sequence.run` handed ANY iterable object (a list, a reader without `__next__`, an
                             iterator) computes the stream-level `runStored` of `Model/C01.lean`, i.e. (by
                             `run_eq_fold`) the left-to-right composition: the quantifier "every input flow" of the
                             property does not depend on how the flow is handed over
* `runObj_input_kind`      — the same without any assumption on what the elements return
* `runObj_result_iterator` — what `Sequence.run` returns always has `__next__`
* `loop_needs_conversion`  — the conversion at the entry is what makes this true (the bare loop differs)
* `source_callObj_kind`, `source_callObj_eq_call` — the same for the flow of the first element of a `Source`
                             ("placing them after the first element of a Source never changes the result",
                             whatever object the first element returns)
* `rerunStored_eq_runWithHist`, `shared_elements`, `runWithHist_append` — the state of an element belongs to the
                             element: new `Sequence` objects (any grouping) around elements that were used before
                             compute the composition of the transformations their own histories give them
* `stored_run_rename`, `runStored_rename` — the run of a constructed sequence commutes with any renaming of the
                             exception classes its elements and its input raise: no class is treated specially
                             (the correspondence check relies on it for classes the model has no name for) -/

namespace Lena.C01
open Lena.Flow

variable {α : Type}

/-! ### the kind of the flow object -/

theorem flowToIter_kind (f : FlowObj α) : (flowToIter f).kind = .iterator := by
  unfold flowToIter
  cases h : f.kind <;> simp [h]

theorem flowToIter_strm (f : FlowObj α) : (flowToIter f).strm = f.strm := by
  unfold flowToIter
  cases h : f.kind <;> simp

theorem flowToIter_eq (k : FlowKind) (s : Strm α) : flowToIter ⟨k, s⟩ = ⟨.iterator, s⟩ := by
  cases k <;> rfl

/-- lift of a stream-level outcome to flow objects that are iterators -/
def asIterator : Except Exc (Strm α) → Except Exc (FlowObj α)
  | .ok s => .ok ⟨.iterator, s⟩
  | .error e => .error e

/-- an entry that is handed an iterator behaves as its stream-level `run`, whether or not it takes `next(flow)` -/
theorem Stored.runObj_iterator (sh : RunShape) (st : Stored α) (s : Strm α) :
    st.runObj sh ⟨.iterator, s⟩ =
      (match st.run s with | .error e => .error e | .ok r => .ok ⟨sh.outKind, r⟩) := by
  simp only [Stored.runObj]
  cases st.run s <;> simp

/-- the bare loop started with an iterator, over elements that return iterators (all of lena's do: `run` and
`compute` are generators), is the stream-level loop -/
theorem runObjLoop_iterator : ∀ (ps : List (RunShape × Stored α)) (s : Strm α),
    (∀ p ∈ ps, p.1.outKind = .iterator) →
    runObjLoop ps ⟨.iterator, s⟩ = asIterator (runStored (ps.map Prod.snd) s)
  | [], s, _ => rfl
  | (sh, st) :: rest, s, h => by
    have hsh : sh.outKind = .iterator := h (sh, st) (by simp)
    have ih := fun s' => runObjLoop_iterator rest s' (fun p hp => h p (by simp [hp]))
    simp only [runObjLoop, List.map_cons, runStored, Stored.runObj_iterator]
    cases hr : st.run s with
    | error e => simp [asIterator]
    | ok r => simp only [hsh]; exact ih r

/-- **Every iterable input flow.**  `Sequence.run(flow)`, for a flow object of ANY kind, over elements that return
iterators, is the stream-level run of the stored entries (`Seq.run`, which `run_eq_fold` shows to be the
left-to-right composition of the elements' transformations) — also when an element takes `next(flow)`. -/
theorem runObj_eq_run (ps : List (RunShape × Stored α)) (f : FlowObj α)
    (h : ∀ p ∈ ps, p.1.outKind = .iterator) :
    runObj ps f = asIterator (runStored (ps.map Prod.snd) f.strm) := by
  obtain ⟨k, s⟩ := f
  simp only [runObj, flowToIter_eq, runObjLoop_iterator ps s h]
  cases runStored (ps.map Prod.snd) s with
  | error e => rfl
  | ok r => simp [asIterator, flowToIter_eq]

/-- the kind of the object handed to `Sequence.run` never matters (no assumption on the elements) -/
theorem runObj_input_kind (ps : List (RunShape × Stored α)) (k₁ k₂ : FlowKind) (s : Strm α) :
    runObj ps ⟨k₁, s⟩ = runObj ps ⟨k₂, s⟩ := by
  simp only [runObj, flowToIter_eq]

/-- what `Sequence.run` returns has `__next__`, whatever the last element returns -/
theorem runObj_result_iterator (ps : List (RunShape × Stored α)) (f r : FlowObj α) (h : runObj ps f = .ok r) :
    r.kind = .iterator := by
  unfold runObj at h
  cases hl : runObjLoop ps (flowToIter f) with
  | error e => simp [hl] at h
  | ok r' =>
    simp only [hl, Except.ok.injEq] at h
    rw [← h]; exact flowToIter_kind r'

/-- The conversion at the entry is needed: the bare loop, handed a list, makes an element that takes `next(flow)`
raise `TypeError`, while `runObj` runs it (non-vacuity of `runObj_eq_run`: both kinds of objects, an element with
`needsNext`). -/
theorem loop_needs_conversion (st : Stored α) (s : Strm α) :
    runObjLoop [({ needsNext := true }, st)] ⟨.iterable, s⟩ = .ok ⟨.iterator, .fail .typeError⟩ ∧
    runObj [({ needsNext := true }, st)] ⟨.iterable, s⟩ = asIterator (st.run s) := by
  constructor
  · simp [runObjLoop, Stored.runObj]
  · rw [runObj_eq_run _ _ (by simp)]
    simp only [List.map_cons, List.map_nil, runStored]
    cases st.run s <;> rfl

/-- a concrete instance: a stored callable on the list `[1, 2]` handed over as a container -/
example : runObj [({ needsNext := true }, Stored.adapted .callRun ({ call := true, callDen := fun x => .ok (x + 1) } : Element Nat))]
      ⟨.iterable, .ofList [1, 2]⟩ = .ok ⟨.iterator, .ofList [2, 3]⟩ := by
  rfl

/-! ### the first element of a `Source` -/

/-- the kind of the object that the first element of a `Source` returns (or is) never matters -/
theorem source_callObj_kind (s : Src α) (ps : List (RunShape × Stored α)) (k₁ k₂ : FlowKind) :
    s.callObj ps k₁ = s.callObj ps k₂ := by
  unfold Src.callObj
  cases s.flow with
  | error e => rfl
  | ok xs =>
    cases s.tail with
    | none => simp [flowToIter_eq]
    | some t => simp only [flowToIter_eq, runObj_input_kind ps k₁ k₂]

/-- ... and `Source.__call__` computes `Src.call` of `Model/C01.lean` (hence, by `source_tail`, the tail sequence
fed with the first element's flow), for either kind -/
theorem source_callObj_eq_call (s : Src α) (ps : List (RunShape × Stored α)) (k : FlowKind)
    (hps : ∀ t, s.tail = some t → t.stored = ps.map Prod.snd) (h : ∀ p ∈ ps, p.1.outKind = .iterator) :
    s.callObj ps k = asIterator s.call := by
  unfold Src.callObj Src.call
  cases hf : s.flow with
  | error e =>
    cases s.tail with
    | none => rfl
    | some t => by_cases ht : t.nargs > 0 <;> simp [ht, asIterator]
  | ok xs =>
    cases hs : s.tail with
    | none => simp [flowToIter_eq, asIterator]
    | some t =>
      by_cases ht : t.nargs > 0
      · simp only [ht, if_true, runObj_eq_run ps _ h, Seq.run, hps t hs]
      · simp [ht, flowToIter_eq, asIterator]

/-! ### element objects shared between sequence objects -/

/-- A sequence object that is run again is the loop over its entries, each with its own history: nothing of the
earlier runs is kept by the `Sequence` object itself. -/
theorem rerunStored_eq_runWithHist : ∀ (ss : List (Stored α)) (past : List (Strm α)) (s : Strm α),
    rerunStored ss past s = runWithHist (histories ss past) s
  | [], _, _ => rfl
  | st :: ss, past, s => by
    simp only [rerunStored, histories, runWithHist]
    cases st.rerun past s with
    | error e => rfl
    | ok s' => exact rerunStored_eq_runWithHist ss (pastOuts st [] past) s'

/-- **Elements used before.**  If `Sequence(*args)` was run on the flows `past`, ANY sequence object constructed
around the same argument objects afterwards (`mkSequence args` again: a new object) computes, on the next flow, what
the first object would: the left-to-right composition of the elements' transformations in the state their own
histories put them in. -/
theorem shared_elements (args : List (Element α)) (s₁ s₂ : Seq α) (h₁ : mkSequence args = .ok s₁)
    (h₂ : mkSequence args = .ok s₂) (past : List (Strm α)) (flow : Strm α) :
    s₂.run = s₁.run ∧ runWithHist (histories s₁.stored past) flow = s₁.rerun past flow ∧
    runWithHist (histories s₂.stored past) flow = s₁.rerun past flow := by
  have : s₂ = s₁ := by rw [h₁] at h₂; exact (Except.ok.inj h₂).symm
  subst this
  exact ⟨rfl, (rerunStored_eq_runWithHist _ _ _).symm, (rerunStored_eq_runWithHist _ _ _).symm⟩

/-- regrouping entries that bring their own histories (new nested `Sequence` objects around used elements) never
changes the result -/
theorem runWithHist_append : ∀ (a b : List (Stored α × List (Strm α))) (s : Strm α),
    runWithHist (a ++ b) s = (runWithHist a s >>= runWithHist b)
  | [], _, _ => rfl
  | (st, h) :: a, b, s => by
    simp only [List.cons_append, runWithHist]
    cases st.rerun h s with
    | error e => rfl
    | ok s' => exact runWithHist_append a b s'

/-- non-vacuity: a fill/compute element that holds `[1, 2]` from an earlier run, in a new sequence, computes with them -/
example :
    let e : Element Nat := { fill := .method, compute := .method, computeDen := fun h => .ok (.ofList [h.sum]) }
    runWithHist [(.adapted .fcRun e, [Strm.ofList [1, 2]])] (.ofList [10]) = .ok (.ofList [13]) := by
  rfl

/-! ### exception classes are names -/

theorem Strm.rename_cons (ρ : Exc → Exc) (x : α) (s : Strm α) : (s.cons x).rename ρ = (s.rename ρ).cons x := rfl

theorem Strm.rename_fail (ρ : Exc → Exc) (e : Exc) : (Strm.fail e : Strm α).rename ρ = .fail (ρ e) := rfl

/-- `Run._call_run` commutes with a renaming of the exceptions of the callable and of the input -/
theorem mapGo_rename (ρ : Exc → Exc) (f f' : α → Except Exc α) (hf : ∀ x, f' x = renameOut ρ id (f x))
    (t : Option Exc) : ∀ xs : List α, mapGo f' (t.map ρ) xs = (mapGo f t xs).rename ρ
  | [] => rfl
  | x :: xs => by
    simp only [mapGo, hf x]
    cases f x with
    | error e => rfl
    | ok y => simp only [renameOut, id, mapGo_rename ρ f f' hf t xs, Strm.rename_cons]

theorem mapS_rename (ρ : Exc → Exc) (f f' : α → Except Exc α) (hf : ∀ x, f' x = renameOut ρ id (f x))
    (s : Strm α) : mapS f' (s.rename ρ) = (mapS f s).rename ρ :=
  mapGo_rename ρ f f' hf s.term s.vals

/-- `Run._fc_run` commutes with a renaming of the exceptions of `fill`, `compute` and the input -/
theorem fcLoop_rename (ρ : Exc → Exc) (e e' : Element α) (h : e.Renames ρ e')
    (hf : e.fill.callable = true) (hc : e.compute.callable = true) (t : Option Exc) :
    ∀ (xs hist : List α), fcLoop e' (t.map ρ) hist xs = renameOut ρ (Strm.rename ρ) (fcLoop e t hist xs)
  | [], hist => by
    have hc' : e'.compute.callable = true := by rw [h.compute]; exact hc
    simp only [fcLoop, invokeCompute_of_callable e hc, invokeCompute_of_callable e' hc']
    cases t with
    | some err => rfl
    | none => exact h.computeDen hist
  | x :: xs, hist => by
    have hf' : e'.fill.callable = true := by rw [h.fill]; exact hf
    simp only [fcLoop, invokeFill_of_callable e hf, invokeFill_of_callable e' hf', h.fillDen hist x]
    cases e.fillDen hist x with
    | error err => rfl
    | ok u => cases u; simp only [renameOut, id]; exact fcLoop_rename ρ e e' h hf hc t xs (hist ++ [x])

/-- **No exception class is special (one entry).**  A stored entry whose method exists (`soundB`: what
`constructed_sound` gives for every entry of a constructed sequence) run on the renamed input, with the element's
own exceptions renamed the same way, gives the renamed result: values, the place of the exception, and whether the
call itself raised are the same. -/
theorem stored_run_rename (ρ : Exc → Exc) (st st' : Stored α) (h : Stored.Renames ρ st st')
    (hs : st.soundB = true) (s : Strm α) :
    st'.run (s.rename ρ) = renameOut ρ (Strm.rename ρ) (st.run s) := by
  cases h with
  | asIs e e' h =>
    have hr : e.run.callable = true := hs
    have hr' : e'.run.callable = true := by rw [h.run]; exact hr
    simp only [Stored.run, invokeRun_of_callable e hr, invokeRun_of_callable e' hr', h.runDen s]
  | adapted m e e' h =>
    cases m with
    | runMethod =>
      have hr : e.run.callable = true := hs
      have hr' : e'.run.callable = true := by rw [h.run]; exact hr
      simp only [Stored.run, invokeRun_of_callable e hr, invokeRun_of_callable e' hr', h.runDen s]
    | callRun =>
      have hc : e.call = true := hs
      have hc' : e'.call = true := by rw [h.call]; exact hc
      simp only [Stored.run, invokeCall_of_call e hc, invokeCall_of_call e' hc', renameOut]
      rw [mapS_rename ρ e.callDen e'.callDen h.callDen s]
    | fcRun =>
      have hfc : e.fill.callable = true ∧ e.compute.callable = true := by
        simpa [Stored.soundB] using hs
      exact fcLoop_rename ρ e e' h hfc.1 hfc.2 s.term s.vals []

/-- **No exception class is special (the sequence).**  For ALL constructed sequences (entries sound), ALL
renamings `ρ` of exception classes and ALL flows: running the sequence whose elements raise the renamed classes
(second components) on the renamed flow gives the renamed outcome of the original run (first components). -/
theorem runStored_rename (ρ : Exc → Exc) : ∀ (ps : List (Stored α × Stored α)),
    (∀ p ∈ ps, Stored.Renames ρ p.1 p.2) → (∀ p ∈ ps, p.1.soundB = true) → ∀ s : Strm α,
    runStored (ps.map Prod.snd) (s.rename ρ) = renameOut ρ (Strm.rename ρ) (runStored (ps.map Prod.fst) s)
  | [], _, _, s => rfl
  | (st, st') :: ps, h, hs, s => by
    simp only [List.map_cons, runStored,
      stored_run_rename ρ st st' (h (st, st') (by simp)) (hs (st, st') (by simp)) s]
    cases st.run s with
    | error e => rfl
    | ok r =>
      exact runStored_rename ρ ps (fun p hp => h p (by simp [hp])) (fun p hp => hs p (by simp [hp])) r

/-- non-vacuity: a callable that raises `ValueError` on 13 and its copy that raises `LenaStopFill` instead, on the
flow `[1, 13, 2]` that itself ends in `ValueError`: renaming `ValueError ↦ LenaStopFill` -/
example :
    let ρ : Exc → Exc := fun e => if e = .valueError then .lenaStopFill else e
    let e : Element Nat := { call := true, callDen := fun x => if x = 13 then .error .valueError else .ok (x + 1) }
    let e' : Element Nat := { call := true, callDen := fun x => if x = 13 then .error .lenaStopFill else .ok (x + 1) }
    runStored [.adapted .callRun e'] ((⟨[1, 13, 2], some .valueError⟩ : Strm Nat).rename ρ) = .ok ⟨[2], some .lenaStopFill⟩ ∧
    runStored [.adapted .callRun e] (⟨[1, 13, 2], some .valueError⟩ : Strm Nat) = .ok ⟨[2], some .valueError⟩ := by
  constructor <;> rfl

end Lena.C01
