import LenaModel.Model.C16Q
import LenaModel.Props.C16
/-! # C16 — a `FillRequestSeq` object driven through its own `fill()` / `request()`

The fill/request sentence of the property ("every value is accounted for exactly once, the concatenated
`request()` results equal those of `run` on the whole flow, … at most one block of buffered values or
results") for `FillRequestSeq(*before, FillRequest(el, …), *after, bufsize=…, reset=…, …)` under any
history of `fill`/`request` calls — for **every** value of the sequence's own options (`outer`), `reset`
included: they are not read on this path (`Model/C16Q.seqOps`), so the blocks are those of the contained
adapter, which is what `Split` relies on (split.py:45). -/

namespace Lena.C16

variable {σ α β : Type}

/-- `runOps` (the adapter's histories) is the generic history on the adapter seen as an element -/
theorem runOps_eq_runOpsEl (e : El σ α β) (c : Cfg) : ∀ (ops : List (Op α)) (s : St σ α β),
    runOps e c.bufsize c.reset c.bufferInput c.yor ops s = runOpsEl (frEl e c) ops s
  | [], s => rfl
  | .fill x :: r, s => by
    simp only [runOps, runOpsEl]
    exact runOps_eq_runOpsEl e c r _
  | .request :: r, s => by
    simp only [runOps, runOpsEl]
    rw [runOps_eq_runOpsEl e c r]
    rfl

theorem runOpsEl_fills {τ α' β' : Type} (E : El τ α' β') : ∀ (l : List α') (r : List (Op α')) (s : τ),
    runOpsEl E (l.map Op.fill ++ r) s = runOpsEl E r (l.foldl E.fill s)
  | [], r, s => rfl
  | x :: l, r, s => by
    simp only [List.map_cons, List.cons_append, runOpsEl, List.foldl_cons]
    exact runOpsEl_fills E l r _

/-- **The sequence's own options are not part of its fill/request behaviour** (`bufsize`, `reset`, the
buffer flags and `yield_on_remainder` given to `FillRequestSeq`): the same history gives the same
results and leaves the same state for any two of them. -/
theorem seq_ops_outer_irrelevant {τ α' β' : Type} (pre : α' → List α) (post : List β → List β')
    (inner : El τ α β) (o1 o2 : Cfg) : seqOps pre post inner o1 = seqOps pre post inner o2 := rfl

/-- **What the contained element sees.**  A history on the sequence is the history `preOps pre ops` on
the contained element — every filled value replaced by the fills of what the preceding elements make
of it, the requests where they were — and each `request()` of the sequence yields what the following
elements make of that request's results.  No reset, no other call. -/
theorem seq_ops_eq_inner {τ α' β' : Type} (pre : α' → List α) (post : List β → List β')
    (inner : El τ α β) (outer : Cfg) : ∀ (ops : List (Op α')) (s : τ),
    seqOps pre post inner outer ops s =
      ((runOpsEl inner (preOps pre ops) s).1.map post, (runOpsEl inner (preOps pre ops) s).2)
  | [], s => rfl
  | .fill x :: r, s => by
    have ih := seq_ops_eq_inner pre post inner outer r ((pre x).foldl inner.fill s)
    simp only [seqOps] at ih ⊢
    simp only [runOpsEl, preOps, runOpsEl_fills]
    exact ih
  | .request :: r, s => by
    have ih := seq_ops_eq_inner pre post inner outer r (inner.req s).2
    simp only [seqOps] at ih ⊢
    simp only [runOpsEl, preOps, List.map_cons]
    rw [show ((seqEl pre post inner).req s).2 = (inner.req s).2 from rfl, ih]
    rfl

theorem fills_preOps {α' : Type} (pre : α' → List α) : ∀ ops : List (Op α'),
    fills (preOps pre ops) = (fills ops).flatMap pre
  | [] => rfl
  | .fill x :: r => by
    have hf : ∀ (l : List α) (t : List (Op α)), fills (l.map Op.fill ++ t) = l ++ fills t := by
      intro l t
      induction l with
      | nil => rfl
      | cons y l ih => simp only [List.map_cons, List.cons_append, fills, ih]
    simp only [preOps, fills, hf, List.flatMap_cons, fills_preOps pre r]
  | .request :: r => by
    simp only [preOps, fills, fills_preOps pre r]

theorem preOps_append {α' : Type} (pre : α' → List α) : ∀ (a b : List (Op α')),
    preOps pre (a ++ b) = preOps pre a ++ preOps pre b
  | [], b => rfl
  | .fill x :: r, b => by simp only [List.cons_append, preOps, preOps_append pre r b, List.append_assoc]
  | .request :: r, b => by simp only [List.cons_append, preOps, preOps_append pre r b]

/-- **Schedule independence for the sequence, whatever its own options.**
`FillRequestSeq(*before, FillRequest(el, bufsize=n, …), *after, **outer)` filled with any values,
`request()` called at arbitrary points and once at the end: the concatenated `request()` results are
what the following elements make of the results of the adapter's `run` on the whole (pre-processed)
flow — `yield_on_remainder` of the adapter off; `post` works result by result (`hpost`: a `Sequence`
of elements without memory across results); `hrun` as in `schedule_independent`. -/
theorem seq_schedule_independent {α' β' : Type} (pre : α' → List α) (post : List β → List β')
    (hpost : ∀ l : List (List β), post l.flatten = (l.map post).flatten)
    (e : El σ α β) (c outer : Cfg) (hN : 0 < c.bufsize) (hy : c.yor = false)
    (hrun : c.runKind = .runRun → RunConsistent e) (el : σ) (ops : List (Op α')) :
    (seqOps pre post (frEl e c) outer (ops ++ [.request]) (St.init el)).1.flatten =
      post (runFR e c el ((fills ops).flatMap pre)).1 := by
  rw [seq_ops_eq_inner]
  simp only []
  rw [← hpost, ← runOps_eq_runOpsEl, preOps_append]
  rw [show preOps pre [Op.request] = ([Op.request] : List (Op α)) from rfl]
  rw [schedule_independent e c hN hy hrun el (preOps pre ops), fills_preOps]

/-- non-vacuity, and the numbers of seeded change C16-G: blocks of 3, reset on (adapter and sequence),
requests after every value -/
example : (seqOps (fun x => [x]) id (frEl lstEl ⟨3, true, true, false, .runFillCompute, true, true, true, false⟩)
      ⟨3, true, true, false, .runFillCompute, true, true, true, false⟩
      ([.fill 1, .request, .fill 2, .request, .fill 3, .request, .fill 4, .request, .fill 5, .request, .fill 6] ++ [.request])
      (St.init [])).1.flatten = [[1, 2, 3], [4, 5, 6]] := by decide
example : ∀ l : List (List (List Nat)), (id : List (List Nat) → List (List Nat)) l.flatten = (l.map id).flatten := by
  intro l; simp

/-- **Accounting for the sequence.**  After any history on the sequence (any options, any flags of the
adapter) what the preceding elements made of the filled values is cut, in order, into emitted blocks
`bs`, the values pending in the wrapped element and the values in the adapter's `_buffer_in`; the
requests yielded `post` of lists `rs` which, with `_buffer_out`, are exactly what the element yields
for these blocks in turn. -/
theorem seq_accounted_once {α' β' : Type} (pre : α' → List α) (post : List β → List β')
    (e : El σ α β) (c outer : Cfg) (hN : 0 < c.bufsize) (el0 : σ) (ops : List (Op α')) :
    let S := (seqOps pre post (frEl e c) outer ops (St.init el0)).2
    ∃ (bs : List (List α)) (pend : List α) (rs : List (List β)),
      (fills ops).flatMap pre = bs.flatten ++ pend ++ S.bufIn ∧
      (∀ b ∈ bs, b ≠ [] ∧ b.length ≤ c.bufsize ∧ (c.yor = false → b.length = c.bufsize)) ∧
      pend.length = S.nCount ∧
      (seqOps pre post (frEl e c) outer ops (St.init el0)).1 = rs.map post ∧
      rs.flatten ++ S.bufOut = (emitAll e c.reset el0 bs).1 ∧
      S.el = pend.foldl e.fill (emitAll e c.reset el0 bs).2 := by
  obtain ⟨bs, pend, h1, h2, h3, h4, h5⟩ :=
    accounted_once e c.bufsize c.reset c.bufferInput c.yor hN el0 (preOps pre ops)
  rw [seq_ops_eq_inner]
  simp only []
  rw [← runOps_eq_runOpsEl]
  rw [fills_preOps] at h1
  exact ⟨bs, pend, _, h1, h2, h3, rfl, h4, h5⟩

/-- **After `request()` of the sequence returns** both buffers of the contained adapter are empty and
fewer than `n` values are pending (none with `yield_on_remainder`) — whatever the sequence's options. -/
theorem seq_buffers_bounded {α' β' : Type} (pre : α' → List α) (post : List β → List β')
    (e : El σ α β) (c outer : Cfg) (hN : 0 < c.bufsize) (el0 : σ) (ops : List (Op α')) :
    let S := (seqOps pre post (frEl e c) outer (ops ++ [.request]) (St.init el0)).2
    S.nCount < c.bufsize ∧ S.bufIn = [] ∧ S.bufOut = [] ∧ (c.yor = true → S.nCount = 0) := by
  have h := buffers_bounded_partial e c.bufsize c.reset c.bufferInput c.yor hN el0 (preOps pre ops)
  rw [seq_ops_eq_inner]
  simp only []
  rw [← runOps_eq_runOpsEl, preOps_append]
  exact h

/-- **"add reset here" would break the clause.**  A sequence whose `request()` also resets the
contained element when the sequence has `reset=True` (`seqElResetting`, seeded change C16-G — not the
code of /repo) loses the values of a partly filled block: blocks of 3, requests after the first and the
third value give `[[2, 3]]` where `run` on the whole flow gives `[[1, 2, 3]]`. -/
theorem reset_after_request_loses :
    ∃ (c outer : Cfg) (ops : List (Op Nat)), 0 < c.bufsize ∧ c.yor = false ∧ outer.reset = true ∧
      (runOpsEl (seqElResetting (fun x => [x]) id (frEl lstEl c) outer) (ops ++ [.request]) (St.init [])).1.flatten
        ≠ (runFR lstEl c [] (fills ops)).1 := by
  refine ⟨⟨3, true, true, false, .runFillCompute, true, true, true, false⟩,
    ⟨3, true, true, false, .runFillCompute, true, true, true, false⟩,
    [.fill 1, .request, .fill 2, .fill 3], by decide, rfl, rfl, ?_⟩
  decide +kernel

end Lena.C16
