import LenaModel.Model.C03Zip
import LenaModel.Props.C03
import LenaModel.Props.C07
/-! # C03 — property theorems, part 3: `Zip` on values with context

"a Zip of such branches yields the tuples of their i-th results" for results that carry a
context: the data of the i-th value is the tuple of the i-th data, and the context of every
i-th result can be recovered from the yielded context (`Zip` is lossless).  The context algebra
is C07's (`Lena.C07.zip_context`). -/

namespace Lena.C03
open Lena Lena.Val Lena.C07

variable {δ κ : Type} [DecidableEq κ]

theorem takeOk_getElem? {β : Type} (l : List (Option β)) (i : Nat) (v : β)
    (h : (takeOk l).1[i]? = some v) : l[i]? = some (some v) := by
  induction l generalizing i with
  | nil => simp [takeOk] at h
  | cons x r ih =>
    cases x with
    | none => simp [takeOk] at h
    | some w =>
      cases i with
      | zero => simpa [takeOk] using h
      | succ i => simp only [takeOk, List.getElem?_cons_succ] at h ⊢; exact ih i h

theorem takeOk_length {β : Type} (l : List (Option β)) :
    (takeOk l).1.length ≤ l.length ∧ ((takeOk l).2 = false → (takeOk l).1.length = l.length) := by
  induction l with
  | nil => simp [takeOk]
  | cons x r ih =>
    cases x with
    | none => simp [takeOk]
    | some w => simp only [takeOk, List.length_cons]; exact ⟨by omega, fun h => by rw [ih.2 h]⟩

/-- the `i`-th value yielded by `Zip` is built from the `i`-th results of all sequences (which
all exist: it stops at the shortest), and from nothing else -/
theorem zip_ctx_ith (truthy : κ → Bool) (n zipKey : Nat) (arity : Option Nat)
    (results : List (List (ZItem δ κ))) (hne : results ≠ []) (i : Nat) (v : ZVal δ κ)
    (h : (zipYieldCtx truthy n zipKey arity results).1[i]? = some v) :
    ∃ col, colAt i results = some col ∧ zipCombine truthy n zipKey arity col = some v := by
  unfold zipYieldCtx at h
  have h1 := takeOk_getElem? _ i v h
  rw [List.getElem?_map] at h1
  cases hc : (zipYield results)[i]? with
  | none => simp [hc] at h1
  | some col =>
    rw [hc] at h1
    simp only [Option.map_some, Option.some.injEq] at h1
    exact ⟨col, by rw [← zip_yield_ith results hne i]; exact hc, h1⟩

/-- without a `TypeError` there are exactly as many values as the shortest result list has -/
theorem zip_ctx_length (truthy : κ → Bool) (n zipKey : Nat) (arity : Option Nat)
    (results : List (List (ZItem δ κ))) (h : (zipYieldCtx truthy n zipKey arity results).2 = false) :
    (zipYieldCtx truthy n zipKey arity results).1.length = (zipYield results).length := by
  unfold zipYieldCtx at h ⊢
  rw [(takeOk_length _).2 h, List.length_map]

/-- `Zip` IS LOSSLESS: the data of a yielded value is the tuple of the data of the combined
results, and the context of the `j`-th of them is the common context updated with the `j`-th
entry of `context.zip` — whatever the contexts were (well-formed over the key alphabet) -/
theorem zip_value_lossless (truthy : κ → Bool) (n zipKey : Nat) (arity : Option Nat)
    (col : List (ZItem δ κ)) (hw : ∀ it ∈ col, WFD n it.ctx) (v : ZVal δ κ)
    (h : zipCombine truthy n zipKey arity col = some v) :
    v.data = col.map (·.data) ∧ ∀ j (hj : j < col.length), v.recover j = col[j].ctx := by
  unfold zipCombine at h
  split at h
  · cases h
  · cases hz : zipCreateContext truthy n zipKey (col.map (·.ctx)) with
    | ok z =>
      rw [hz] at h
      simp only [Option.some.injEq] at h
      subst h
      refine ⟨rfl, ?_⟩
      intro j hj
      have hw' : ∀ c ∈ col.map (·.ctx), WFD n c := by
        intro c hc
        simp only [List.mem_map] at hc
        obtain ⟨it, hit, rfl⟩ := hc
        exact hw it hit
      obtain ⟨_, z2, z3, z4⟩ := (zip_context truthy n zipKey (col.map (·.ctx)) hw').2 z hz
      have hmem : col[j].ctx ∈ col.map (·.ctx) := List.mem_map.2 ⟨col[j], List.getElem_mem hj, rfl⟩
      unfold ZVal.recover
      cases hzip : z.zip with
      | none => simp only; exact (z4 hzip _ hmem).symm
      | some ds =>
        simp only
        have hds := z2 ds hzip
        have : ds.getD j [] = difference truthy 1 col[j].ctx z.common := by
          rw [hds]
          simp [List.getD, hj]
        rw [this]
        exact z3 _ hmem
    | lenaTypeError => rw [hz] at h; cases h
    | lenaValueError => rw [hz] at h; cases h
    | typeError => rw [hz] at h; cases h

/-- `fields`: a list of names must have one name per sequence; then the `namedtuple` fits every
complete round, so `_create_data` cannot fail -/
theorem zipFields_list_arity (nseq k : Nat) (a : Nat) (h : zipFieldsInit nseq (.list k) = .ok (some a)) :
    a = nseq := by
  simp only [zipFieldsInit] at h
  split at h
  · cases h
  · split at h
    · cases h
    · simp only [Except.ok.injEq, Option.some.injEq] at h
      rename_i h1 h2
      omega

-- non-vacuity of `zip_value_lossless`: two results over the keys (a, b, zip) with contexts {a:5} and {a:5, b:7}
def demoCol : List (ZItem Nat Int) :=
  [⟨1, [some (.leaf 5), none, none]⟩, ⟨10, [some (.leaf 5), some (.leaf 7), none]⟩]
example : ∀ it ∈ demoCol, WFD 3 it.ctx := by
  intro it h
  simp only [demoCol, List.mem_cons, List.mem_nil_iff, or_false] at h
  rcases h with rfl | rfl <;> exact ⟨rfl, by simp [WFL, WF]⟩
example : (zipCombine (fun i => i != 0) 3 2 none demoCol).map (fun v => (v.data, v.bare, v.recover 1)) =
    some ([1, 10], false, [some (.leaf 5), some (.leaf 7), none]) := by decide +kernel

example : zipFieldsInit 2 (.list 2) = .ok (some 2) := rfl  -- hypothesis of `zipFields_list_arity`
example : zipFieldsInit 2 (.str 3) = .ok (some 3) := rfl
example : zipFieldsInit 2 (.list 3) = .error .lenaTypeError := rfl

end Lena.C03
