import LenaModel.Model.C13
/-! # C13 — property theorems (work in progress) -/
namespace Lena.C13
end Lena.C13
