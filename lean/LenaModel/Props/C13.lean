import LenaModel.Lemmas.C13Pass
import LenaModel.Lemmas.C13WF
import LenaModel.Lemmas.C13Frame
import LenaModel.Lemmas.C13Reuse
/-! # C13 — static context seen by an element depends only on what encloses and precedes it

Property (properties.jsonl): *The static context an element receives at initialisation is the fold, in
document order, of the SetContext updates of the earlier elements of its enclosing sequences (formatting
strings resolved against that same prefix); a Split hands each branch an independent copy and exports the
intersection of its branches' contexts, and no later or sibling element can change what an earlier element
saw or the name it derived from it.  A formatting key that cannot be resolved surfaces as LenaKeyError naming
the key when the sequence's context is requested, and static context never leaks into the run-time context
except through UpdateContextFromStatic.*

The model (`Model/C13.lean`) transcribes the real multi-pass protocol: `build` constructs the objects
bottom-up, every sequence running `_set_context({})` over its children in its constructor (`loop`, with the
skip-while-empty optimisation, stale `_static_context`s and the two ways a `LenaKeyError` ends the loop).
The specification is the single top-down fold `fold` / `ctxAt` (executable, in the last section of the model
file, and compared by the harness with an independent Python prefix fold on every generated case).  All
theorems are for every program `t` (any depth, any number of elements and branches) over every key alphabet
size `n`.

Main technical result (`Lemmas/C13Pass.lean`): `build_eq_final : build n t = final n t [{}]` where
`final t F` puts every object into the state that the *last* context reaching it (computed by the
specification fold) leaves it in.  Its proof needs that everything the fold computes is monotone in the
information order `⊑` on contexts while it succeeds (`fold_mono`, `Lemmas/C13Dict.lean`) — that is what makes
skipping elements while the context is empty, and keeping an old `_static_context` when a pass fails, sound. -/

namespace Lena.C13
open Lena Lena.Val

/-! ## every object is in the state of its own history, and the history is a function of the cone -/

theorem finalL_getElem (n : Nat) : ∀ (ts : List Tree) (F : List Ctx) (i : Nat),
    (finalL n ts F)[i]? = (ts[i]?).map fun c => final n c (Val.empty n :: pastL n (ts.take i) F)
  | [], _, _ => by simp [finalL]
  | t :: ts, F, 0 => by simp [finalL, pastL]
  | t :: ts, F, i + 1 => by simp [finalL, pastL, finalL_getElem n ts (pastT n t F) i]

theorem finalB_getElem (n : Nat) : ∀ (bs : List Tree) (F : List Ctx) (i : Nat),
    (finalB n bs F)[i]? = (bs[i]?).map fun b => final n b (Val.empty n :: F)
  | [], _, _ => by simp [finalB]
  | b :: bs, F, 0 => by simp [finalB]
  | b :: bs, F, i + 1 => by simp [finalB, finalB_getElem n bs F i]

/-- locality of the closed form: the object at `p` is in the closed-form state of the sub-program at `p`,
for a history that is computed from the cone of `p` alone -/
theorem final_at (n : Nat) : ∀ (p : List Nat) (t s : Tree) (k : List ConeStep) (F : List Ctx),
    t.at? p = some s → cone t p = some k → (final n t F).at? p = some (final n s (histOfCone n k F))
  | [], t, s, k, F, hs, hk => by
    simp only [Tree.at?, Option.some.injEq] at hs
    simp only [cone, Option.some.injEq] at hk
    subst hs; subst hk
    simp [St.at?, histOfCone]
  | i :: p, .leaf e, s, k, F, hs, _ => by simp [Tree.at?, Tree.children] at hs
  | i :: p, .seq kind cs, s, k, F, hs, hk => by
    simp only [Tree.at?, Tree.children] at hs
    simp only [cone] at hk
    cases hc : cs[i]? with
    | none => simp [hc] at hs
    | some c =>
      simp only [hc, Option.bind_some] at hs hk
      cases hk' : cone c p with
      | none => simp [hk'] at hk
      | some k' =>
        simp only [hk', Option.map_some, Option.some.injEq] at hk
        subst hk
        simp only [St.at?, final, St.children, finalL_getElem, hc, Option.map_some, Option.bind_some, histOfCone]
        exact final_at n p c s k' _ hs hk'
  | i :: p, .split bs, s, k, F, hs, hk => by
    simp only [Tree.at?, Tree.children] at hs
    simp only [cone] at hk
    cases hc : bs[i]? with
    | none => simp [hc] at hs
    | some c =>
      simp only [hc, Option.bind_some] at hs hk
      cases hk' : cone c p with
      | none => simp [hk'] at hk
      | some k' =>
        simp only [hk', Option.map_some, Option.some.injEq] at hk
        subst hk
        simp only [St.at?, final, St.children, finalB_getElem, hc, Option.map_some, Option.bind_some, histOfCone]
        exact final_at n p c s k' _ hs hk'

/-- every node has a cone -/
theorem cone_isSome : ∀ (p : List Nat) (t s : Tree), t.at? p = some s → ∃ k, cone t p = some k
  | [], _, _, _ => ⟨[], by simp [cone]⟩
  | i :: p, .leaf e, s, hs => by simp [Tree.at?, Tree.children] at hs
  | i :: p, .seq kind cs, s, hs => by
    simp only [Tree.at?, Tree.children] at hs
    cases hc : cs[i]? with
    | none => simp [hc] at hs
    | some c =>
      simp only [hc, Option.bind_some] at hs
      obtain ⟨k, hk⟩ := cone_isSome p c s hs
      exact ⟨ConeStep.seq (cs.take i) :: k, by simp [cone, hc, hk]⟩
  | i :: p, .split bs, s, hs => by
    simp only [Tree.at?, Tree.children] at hs
    cases hc : bs[i]? with
    | none => simp [hc] at hs
    | some c =>
      simp only [hc, Option.bind_some] at hs
      obtain ⟨k, hk⟩ := cone_isSome p c s hs
      exact ⟨ConeStep.split :: k, by simp [cone, hc, hk]⟩

/-! ## the last context of the history is the prefix fold -/

theorem pastT_last (n : Nat) (t : Tree) (F : List Ctx) (c' : Ctx) (hF : F ≠ [])
    (h : fold n t (lastD n F) = .ok c') : pastT n t F ≠ [] ∧ lastD n (pastT n t F) = c' := by
  obtain ⟨F', a, rfl⟩ : ∃ F' a, F = F' ++ [a] :=
    ⟨F.dropLast, F.getLast hF, (List.dropLast_concat_getLast hF).symm⟩
  rw [lastD_append_singleton] at h
  rw [pastT_snoc_ok n t F' a c' h]
  exact ⟨by simp, lastD_append_singleton n _ c'⟩

theorem pastL_last (n : Nat) : ∀ (ts : List Tree) (F : List Ctx) (c' : Ctx), F ≠ [] →
    foldL n ts (lastD n F) = .ok c' → pastL n ts F ≠ [] ∧ lastD n (pastL n ts F) = c'
  | [], F, c', hF, h => by
    simp only [foldL, Except.ok.injEq] at h
    exact ⟨hF, h⟩
  | t :: ts, F, c', hF, h => by
    simp only [foldL] at h
    cases ht : fold n t (lastD n F) with
    | error e => simp [ht] at h
    | ok c1 =>
      simp only [ht] at h
      obtain ⟨h1, h2⟩ := pastT_last n t F c1 hF ht
      simp only [pastL]
      exact pastL_last n ts _ c' h1 (by rw [h2]; exact h)

/-- the history of the node at `p` ends with the context that the top-down fold delivers to it -/
theorem hist_last (n : Nat) : ∀ (p : List Nat) (t : Tree) (k : List ConeStep) (F : List Ctx) (x : Ctx), F ≠ [] →
    cone t p = some k → ctxAt n t p (lastD n F) = some x → lastD n (histOfCone n k F) = x
  | [], t, k, F, x, _, hk, hx => by
    simp only [cone, Option.some.injEq] at hk
    simp only [ctxAt, Option.some.injEq] at hx
    subst hk
    simpa [histOfCone] using hx
  | i :: p, .leaf e, k, F, x, _, hk, _ => by simp [cone] at hk
  | i :: p, .seq kind cs, k, F, x, hF, hk, hx => by
    simp only [cone] at hk
    simp only [ctxAt] at hx
    cases hc : cs[i]? with
    | none => simp [hc] at hk
    | some c =>
      simp only [hc, Option.bind_some] at hk hx
      cases hk' : cone c p with
      | none => simp [hk'] at hk
      | some k' =>
        simp only [hk', Option.map_some, Option.some.injEq] at hk
        subst hk
        cases hf : foldL n (cs.take i) (lastD n F) with
        | error e => simp [hf] at hx
        | ok c' =>
          simp only [hf] at hx
          obtain ⟨_, h2⟩ := pastL_last n (cs.take i) F c' hF hf
          simp only [histOfCone]
          exact hist_last n p c k' _ x (by simp) hk' (by rw [lastD_cons_empty, h2]; exact hx)
  | i :: p, .split bs, k, F, x, _, hk, hx => by
    simp only [cone] at hk
    simp only [ctxAt] at hx
    cases hc : bs[i]? with
    | none => simp [hc] at hk
    | some c =>
      simp only [hc, Option.bind_some] at hk hx
      cases hk' : cone c p with
      | none => simp [hk'] at hk
      | some k' =>
        simp only [hk', Option.map_some, Option.some.injEq] at hk
        subst hk
        simp only [histOfCone]
        exact hist_last n p c k' _ x (by simp) hk' (by rw [lastD_cons_empty]; exact hx)

/-! ## the property -/

/-- **seen = prefix fold, for every node** (first sentence of the property).  If the one top-down fold
delivers the context `x` to the node at `p` (i.e. the formatting keys of what encloses and precedes it can
be resolved), then after the construction of the whole program by the real multi-pass protocol the objects
of the sub-program at `p` are in a closed-form state whose last delivered context is `x`. -/
theorem seen_is_prefix_fold_node (n : Nat) (t s : Tree) (p : List Nat) (x : Ctx)
    (hs : t.at? p = some s) (hx : ctxAt n t p (Val.empty n) = some x) :
    ∃ G, (build n t).at? p = some (final n s G) ∧ lastD n G = x := by
  obtain ⟨k, hk⟩ := cone_isSome p t s hs
  refine ⟨histOfCone n k [Val.empty n], ?_, ?_⟩
  · rw [build_eq_final]; exact final_at n p t s k _ hs hk
  · exact hist_last n p t k [Val.empty n] x (by simp) hk (by simpa [lastD] using hx)

/-- **seen = prefix fold, for a leaf element** (`StoreContext`, `UpdateContextFromStatic`, `MakeFilename`,
`Write`, `Cache`, `SetContext` at every position, in every tree): the element is exactly in the state
`leafFinal e x` that `_set_context(x)` leaves a fresh element in — it stores `x` (store, ucfs, mkf), the name
formatted from `x` (write, cache), the update of `x` or the `LenaKeyError` of formatting against `x` (set). -/
theorem seen_is_prefix_fold (n : Nat) (t : Tree) (p : List Nat) (e : Elem) (x : Ctx)
    (hs : t.at? p = some (.leaf e)) (hx : ctxAt n t p (Val.empty n) = some x) :
    (build n t).at? p = some (leafFinal n e x) := by
  obtain ⟨G, h1, h2⟩ := seen_is_prefix_fold_node n t (.leaf e) p x hs hx
  rw [h1]; simp [final, h2]

/-- `leafFinal e x` is what the code's `_set_context(x)` does to a freshly constructed element
(for a non-empty `x`; an empty context is never delivered to an element by a sequence) -/
theorem leafFinal_is_setCtx (n : Nat) (e : Elem) (x : Ctx) (hl : x.length = n) (hne : nonEmpty x = true) :
    leafFinal n e x = (setCtx n (initElem n e) x).1 := by
  have h := (setCtx_final n (.leaf e) [] x ⟨by simp, hl⟩ hne).1
  simp only [final, List.nil_append, lastD, List.getLastD_nil, List.getLastD_cons] at h
  rw [initElem_eq, h]

/-- **causality** (second sentence: "no later or sibling element can change what an earlier element saw or
the name it derived from it").  Two programs, two positions with the same cone (the same earlier children in
every enclosing sequence; anything at all after them, any sibling branches in enclosing `Split`s, any kinds
of sequences) and the same sub-program at the position: after construction the objects of that sub-program
are in the *same state* — contexts stored, names derived, `_get_context` results, resolved or not. -/
theorem causality (n : Nat) (t t' s : Tree) (p p' : List Nat) (k : List ConeStep)
    (hk : cone t p = some k) (hk' : cone t' p' = some k)
    (hs : t.at? p = some s) (hs' : t'.at? p' = some s) :
    (build n t).at? p = (build n t').at? p' := by
  rw [build_eq_final, build_eq_final, final_at n p t s k _ hs hk, final_at n p' t' s k _ hs' hk']

/-- causality, instance: everything after an element of a sequence can be replaced by anything -/
theorem causality_later (n : Nat) (kind kind' : Kind) (pre post post' : List Tree) (x : Tree) (p : List Nat) :
    (build n (.seq kind (pre ++ x :: post))).at? (pre.length :: p) =
    (build n (.seq kind' (pre ++ x :: post'))).at? (pre.length :: p) := by
  cases hs : x.at? p with
  | none =>
    have h1 : ∀ (q : List Tree) (kd : Kind), (build n (.seq kd (pre ++ x :: q))).at? (pre.length :: p) = none := by
      intro q kd
      rw [build_eq_final]
      simp only [St.at?, final, St.children, finalL_getElem]
      simp only [List.getElem?_append_right (Nat.le_refl _), Nat.sub_self, List.getElem?_cons_zero,
        Option.map_some, Option.bind_some]
      exact at_none n p x _ hs
    rw [h1, h1]
  | some s =>
    obtain ⟨k, hk⟩ := cone_isSome p x s hs
    have hat : ∀ (q : List Tree) (kd : Kind), (Tree.seq kd (pre ++ x :: q)).at? (pre.length :: p) = some s := by
      intro q kd; simp [Tree.at?, Tree.children, hs]
    have hcone : ∀ (q : List Tree) (kd : Kind),
        cone (.seq kd (pre ++ x :: q)) (pre.length :: p) = some (ConeStep.seq pre :: k) := by
      intro q kd; simp [cone, hk]
    exact causality n _ _ s _ _ _ (hcone post kind) (hcone post' kind') (hat post kind) (hat post' kind')
where
  at_none (n : Nat) : ∀ (p : List Nat) (x : Tree) (F : List Ctx), x.at? p = none → (final n x F).at? p = none
    | [], _, _, h => by simp [Tree.at?] at h
    | i :: p, .leaf e, F, _ => by cases e <;> simp [St.at?, final, leafFinal, St.children]
    | i :: p, .seq kd cs, F, h => by
      simp only [Tree.at?, Tree.children] at h
      simp only [St.at?, final, St.children, finalL_getElem]
      cases hc : cs[i]? with
      | none => simp
      | some c =>
        simp only [hc, Option.bind_some] at h
        simp only [Option.map_some, Option.bind_some]
        exact at_none n p c _ h
    | i :: p, .split bs, F, h => by
      simp only [Tree.at?, Tree.children] at h
      simp only [St.at?, final, St.children, finalB_getElem]
      cases hc : bs[i]? with
      | none => simp
      | some c =>
        simp only [hc, Option.bind_some] at h
        simp only [Option.map_some, Option.bind_some]
        exact at_none n p c _ h

/-- causality, instance: the sibling branches of an enclosing `Split` can be replaced by anything -/
theorem causality_sibling (n : Nat) (pre post pre' post' : List Tree) (b s : Tree) (p : List Nat)
    (hs : b.at? p = some s) :
    (build n (.split (pre ++ b :: post))).at? (pre.length :: p) =
    (build n (.split (pre' ++ b :: post'))).at? (pre'.length :: p) := by
  obtain ⟨k, hk⟩ := cone_isSome p b s hs
  have hat : ∀ (q r : List Tree), (Tree.split (q ++ b :: r)).at? (q.length :: p) = some s := by
    intro q r; simp [Tree.at?, Tree.children, hs]
  have hcone : ∀ (q r : List Tree), cone (.split (q ++ b :: r)) (q.length :: p) = some (ConeStep.split :: k) := by
    intro q r; simp [cone, hk]
  exact causality n _ _ s _ _ _ (hcone pre post) (hcone pre' post') (hat pre post) (hat pre' post')

/-- **what `_get_context()` returns is the fold** — for the whole program … -/
theorem get_context_is_fold (n : Nat) (t : Tree) (hg : t.hasGet = true) :
    getCtx n (build n t) = fold n t (Val.empty n) := by
  rw [build_eq_final, getCtx_final n t _ hg]; simp [lastD]

/-- … and for every node with `_get_context` (nested sequence, `Split`, `SetContext`) that the top-down fold
reaches with context `x`: its `_get_context()` is the fold of the node started from `x` -/
theorem get_context_at (n : Nat) (t s : Tree) (p : List Nat) (x : Ctx) (hs : t.at? p = some s)
    (hx : ctxAt n t p (Val.empty n) = some x) (hg : s.hasGet = true) :
    ∃ st, (build n t).at? p = some st ∧ getCtx n st = fold n s x := by
  obtain ⟨G, h1, h2⟩ := seen_is_prefix_fold_node n t s p x hs hx
  exact ⟨_, h1, by rw [getCtx_final n s G hg, h2]⟩

/-- reading `ctxAt`: the context delivered to child `i` of a sequence is the fold of the earlier children … -/
theorem ctxAt_child (n : Nat) (kind : Kind) (cs : List Tree) (t : Tree) (i : Nat) (c : Ctx) (ht : cs[i]? = some t) :
    ctxAt n (.seq kind cs) [i] c = (foldL n (cs.take i) c).toOption := by
  simp only [ctxAt, ht, Option.bind_some]
  cases foldL n (cs.take i) c <;> rfl

/-- … and the fold of a run of leaf elements is the left fold of their `SetContext` updates
(`format_update_with` on the running context; every other element leaves it alone) -/
theorem foldL_leaves (n : Nat) : ∀ (es : List Elem) (c : Ctx),
    foldL n (es.map Tree.leaf) c = es.foldlM (fun c e => foldElem n e c) c
  | [], c => by simp [foldL]; rfl
  | e :: es, c => by
    simp only [List.map_cons, foldL, fold, List.foldlM_cons]
    cases h : foldElem n e c with
    | error k => rfl
    | ok c' => simpa [bind, Except.bind] using foldL_leaves n es c'

/-- **a `Split` hands each branch a copy of its context** (specification side: the context delivered inside
branch `i` is computed from the context of the `Split`, whatever the other branches are) … -/
theorem ctxAt_split (n : Nat) (bs : List Tree) (b : Tree) (i : Nat) (q : List Nat) (c : Ctx) (hb : bs[i]? = some b) :
    ctxAt n (.split bs) (i :: q) c = ctxAt n b q c := by
  simp [ctxAt, hb]

/-- … **and exports the intersection of its branches' contexts**: a `Split` reached with context `x` returns
from `_get_context()` the `intersection` of the contexts its branches export when each is started from `x`
(or the first `LenaKeyError` among them) -/
theorem split_exports_intersection (n : Nat) (t : Tree) (bs : List Tree) (p : List Nat) (x : Ctx)
    (hs : t.at? p = some (.split bs)) (hx : ctxAt n t p (Val.empty n) = some x) :
    ∃ st, (build n t).at? p = some st ∧
      getCtx n st = match foldB n bs x with
        | .ok xs => .ok (interN n xs)
        | .error e => .error e := by
  obtain ⟨st, h1, h2⟩ := get_context_at n t (.split bs) p x hs hx rfl
  refine ⟨st, h1, ?_⟩
  rw [h2]; simp only [fold]
  cases foldB n bs x <;> rfl

/-- `interN` is the intersection in the information order: below the context of every branch, and above
everything that is below all of them -/
theorem interN_is_meet (n : Nat) (xs : List Ctx) (hne : xs ≠ []) :
    (∀ x ∈ xs, leL (interN n xs) x) ∧ ∀ y, (∀ x ∈ xs, leL y x) → leL y (interN n xs) :=
  ⟨fun x hx => interN_le n xs x hx, fun y hy => interN_glb n xs y hne hy⟩

/-- a `Split` branch without static context (a bare fill/compute or fill/request element, which `Split` keeps as
it is) does not take part in the intersection ("not intersecting the others with {}").  NB: this is transparency
*relative to the other branches* only — if no branch at all has a context the intersection is over nothing and the
`Split` exports `{}` (`interN n [] = {}`, as `lena.context.intersection()` does), i.e. it erases the static context;
see the recorded judgement on degenerate Splits (ASSUMPTIONS of harness/props/c13.py). -/
theorem split_transparent_branch (n : Nat) (b : Tree) (bs : List Tree) (c : Ctx) (hb : b.hasGet = false) :
    fold n (.split (b :: bs)) c = fold n (.split bs) c := by
  simp [fold, foldB, hb]

/-- **re-propagation is idempotent**: delivering to any sub-program the context it was delivered last leaves
every object as it is (an enclosing sequence, or the temporary sequences that `Cache.alter_sequence` builds,
may run a pass again) -/
theorem redelivery_idempotent (n : Nat) (t : Tree) (F : List Ctx) (c : Ctx) (hH : Hist n F c)
    (hne : nonEmpty c = true) :
    (setCtx n (setCtx n (final n t F) c).1 c).1 = (setCtx n (final n t F) c).1 := by
  have h1 := (setCtx_final n t F c hH hne).1
  have hH' : Hist n (F ++ [c]) c := by
    refine ⟨?_, hH.2⟩
    intro x hx
    simp only [List.mem_append, List.mem_singleton] at hx
    rcases hx with hx | hx
    · exact hH.1 x hx
    · subst hx; exact ⟨leL_refl x, hH.2⟩
  have h2 := (setCtx_final n t (F ++ [c]) c hH' hne).1
  rw [h1, h2]
  have := final_dup n t F [] c
  simpa using this

/-- **an unresolved formatting key surfaces**: if the fold of the program meets a formatting field whose key
`k` cannot be resolved in its prefix, `_get_context()` of the sequence raises `LenaKeyError` carrying `k` -/
theorem unresolved_key_surfaces (n : Nat) (t : Tree) (k : Nat) (hg : t.hasGet = true)
    (h : fold n t (Val.empty n) = .error k) : getCtx n (build n t) = .error k := by
  rw [get_context_is_fold n t hg, h]

/-- the key that a failing lookup names is a component of the field's path that is missing where the
lookup arrives (`get_recursively`) -/
theorem getRec_error_mem : ∀ (p : List Nat) (c : Ctx) (k : Nat), getRec c p = .error k → k ∈ p
  | [], c, k, h => by simp [getRec] at h
  | [k0], c, k, h => by
    simp only [getRec] at h
    cases hs : getSlot c k0 with
    | none => simp [hs] at h; simp [h]
    | some v => simp [hs] at h
  | k0 :: k1 :: ks, c, k, h => by
    simp only [getRec] at h
    cases hs : getSlot c k0 with
    | none => simp [hs] at h; simp [h]
    | some v =>
      cases v with
      | leaf l => simp [hs] at h; simp [h]
      | dict d =>
        simp only [hs] at h
        have := getRec_error_mem (k1 :: ks) d k h
        simp only [List.mem_cons] at this ⊢
        exact Or.inr this

/-! ## run time: static context does not leak -/

theorem finalB_isEmpty (n : Nat) (bs : List Tree) (F : List Ctx) : (finalB n bs F).isEmpty = bs.isEmpty := by
  cases bs <;> simp [finalB]

mutual
/-- **no leak** (last sentence of the property, first half): in a program without `UpdateContextFromStatic`
and `MakeFilename` the run-time flow is the one of the program with all static context ignored — whatever
the `SetContext`s set, resolved or not, in every state the protocol can produce -/
theorem run_noConsumer (n : Nat) (ok : OutKeys) (src : List Item) : ∀ (t : Tree) (F : List Ctx) (f : List Item),
    t.noConsumer = true → run n ok src (final n t F) f = some (runPlain n src t f)
  | .leaf (.set ..), F, f, _ => by simp [final, leafFinal, run, runPlain]
  | .leaf .store, F, f, _ => by simp [final, leafFinal, run, runPlain]
  | .leaf .ucfs, F, f, h => by simp [Tree.noConsumer] at h
  | .leaf (.mkf _), F, f, h => by simp [Tree.noConsumer] at h
  | .leaf (.write _), F, f, _ => by simp [final, leafFinal, run, runPlain]
  | .leaf (.cache _), F, f, _ => by simp [final, leafFinal, run, runPlain]
  | .leaf .data, F, f, _ => by simp [final, leafFinal, run, runPlain]
  | .leaf (.mut ..), F, f, _ => by simp [final, leafFinal, run, runPlain]
  | .leaf .src, F, f, _ => by simp [final, leafFinal, run, runPlain]
  | .seq kind cs, F, f, h => by
    simp only [Tree.noConsumer] at h
    simp only [final, run, runPlain]
    exact runL_noConsumer n ok src cs F f h
  | .split bs, F, f, h => by
    simp only [Tree.noConsumer] at h
    simp only [final, run, runPlain, finalB_isEmpty]
    by_cases he : bs.isEmpty = true
    · simp [he]
    · simp only [he]
      exact runB_noConsumer n ok src bs F f h
theorem runL_noConsumer (n : Nat) (ok : OutKeys) (src : List Item) : ∀ (ts : List Tree) (F : List Ctx) (f : List Item),
    noConsumerL ts = true → runL n ok src (finalL n ts F) f = some (runPlainL n src ts f)
  | [], F, f, _ => by simp [finalL, runL, runPlainL]
  | t :: ts, F, f, h => by
    simp only [noConsumerL, Bool.and_eq_true] at h
    simp only [finalL, runL, runPlainL, run_noConsumer n ok src t _ f h.1]
    exact runL_noConsumer n ok src ts _ _ h.2
theorem runB_noConsumer (n : Nat) (ok : OutKeys) (src : List Item) : ∀ (bs : List Tree) (F : List Ctx) (f : List Item),
    noConsumerL bs = true → runB n ok src (finalB n bs F) f = some (runPlainB n src bs f)
  | [], F, f, _ => by simp [finalB, runB, runPlainB]
  | b :: bs, F, f, h => by
    simp only [noConsumerL, Bool.and_eq_true] at h
    simp only [finalB, runB, runPlainB, run_noConsumer n ok src b _ f h.1, runB_noConsumer n ok src bs F f h.2]
end

/-- **no leak**, for the constructed program -/
theorem no_leak_without_consumer (n : Nat) (ok : OutKeys) (src : List Item) (t : Tree) (f : List Item)
    (h : t.noConsumer = true) : run n ok src (build n t) f = some (runPlain n src t f) := by
  rw [build_eq_final]; exact run_noConsumer n ok src t _ f h

theorem foldB_ok_branch (n : Nat) : ∀ (bs : List Tree) (c : Ctx) (xs : List Ctx), foldB n bs c = .ok xs →
    ∀ b ∈ bs, ∃ x, fold n b c = .ok x
  | [], _, _, _ => by simp
  | b :: bs, c, xs, h => by
    intro b' hb'
    simp only [foldB] at h
    by_cases hg : b.hasGet = true
    · simp only [hg, if_true] at h
      cases hb : fold n b c with
      | error e => simp [hb] at h
      | ok x =>
        simp only [hb] at h
        cases hr : foldB n bs c with
        | error e => simp [hr] at h
        | ok xs' =>
          simp only [List.mem_cons] at hb'
          rcases hb' with hb' | hb'
          · subst hb'; exact ⟨x, hb⟩
          · exact foldB_ok_branch n bs c xs' hr b' hb'
    · have hg' : b.hasGet = false := by simpa using hg
      simp only [hg] at h
      simp only [List.mem_cons] at hb'
      rcases hb' with hb' | hb'
      · subst hb'; exact ⟨c, fold_noGet n b' c hg'⟩
      · exact foldB_ok_branch n bs c xs h b' hb'

mutual
theorem run_final (n : Nat) (ok : OutKeys) (src : List Item) : ∀ (t : Tree) (F : List Ctx) (f : List Item) (x : Ctx),
    F ≠ [] → fold n t (lastD n F) = .ok x → run n ok src (final n t F) f = runRef n ok src t (lastD n F) f
  | .leaf (.set ..), F, f, _, _, _ => by simp [final, leafFinal, run, runRef]
  | .leaf .store, F, f, _, _, _ => by simp [final, leafFinal, run, runRef]
  | .leaf .ucfs, F, f, _, _, _ => by simp [final, leafFinal, run, runRef]
  | .leaf (.mkf _), F, f, _, _, _ => by simp [final, leafFinal, run, runRef, seenOpt]
  | .leaf (.write _), F, f, _, _, _ => by simp [final, leafFinal, run, runRef]
  | .leaf (.cache _), F, f, _, _, _ => by simp [final, leafFinal, run, runRef]
  | .leaf .data, F, f, _, _, _ => by simp [final, leafFinal, run, runRef]
  | .leaf (.mut ..), F, f, _, _, _ => by simp [final, leafFinal, run, runRef]
  | .leaf .src, F, f, _, _, _ => by simp [final, leafFinal, run, runRef]
  | .seq kind cs, F, f, x, hF, h => by
    simp only [fold] at h
    simp only [final, run, runRef]
    exact runL_final n ok src cs F f x hF h
  | .split bs, F, f, x, hF, h => by
    simp only [fold] at h
    simp only [final, run, runRef, finalB_isEmpty]
    by_cases he : bs.isEmpty = true
    · simp [he]
    · simp only [he]
      cases hb : foldB n bs (lastD n F) with
      | error e => simp [hb] at h
      | ok xs => exact runB_final n ok src bs F f hF (foldB_ok_branch n bs _ xs hb)
theorem runL_final (n : Nat) (ok : OutKeys) (src : List Item) : ∀ (ts : List Tree) (F : List Ctx) (f : List Item) (x : Ctx),
    F ≠ [] → foldL n ts (lastD n F) = .ok x → runL n ok src (finalL n ts F) f = runRefL n ok src ts (lastD n F) f
  | [], F, f, _, _, _ => by simp [finalL, runL, runRefL]
  | t :: ts, F, f, x, hF, h => by
    simp only [foldL] at h
    cases ht : fold n t (lastD n F) with
    | error e => simp [ht] at h
    | ok c' =>
      simp only [ht] at h
      obtain ⟨h1, h2⟩ := pastT_last n t F c' hF ht
      have hrun := run_final n ok src t (Val.empty n :: F) f c' (by simp) (by rw [lastD_cons_empty]; exact ht)
      rw [lastD_cons_empty] at hrun
      simp only [finalL, runL, runRefL, hrun, ht]
      cases runRef n ok src t (lastD n F) f with
      | none => rfl
      | some f' =>
        have := runL_final n ok src ts (pastT n t F) f' x h1 (by rw [h2]; exact h)
        rw [h2] at this
        exact this
theorem runB_final (n : Nat) (ok : OutKeys) (src : List Item) : ∀ (bs : List Tree) (F : List Ctx) (f : List Item),
    F ≠ [] → (∀ b ∈ bs, ∃ x, fold n b (lastD n F) = .ok x) →
    runB n ok src (finalB n bs F) f = runRefB n ok src bs (lastD n F) f
  | [], F, f, _, _ => by simp [finalB, runB, runRefB]
  | b :: bs, F, f, hF, h => by
    obtain ⟨x, hx⟩ := h b (by simp)
    have hrun := run_final n ok src b (Val.empty n :: F) f x (by simp) (by rw [lastD_cons_empty]; exact hx)
    rw [lastD_cons_empty] at hrun
    simp only [finalB, runB, runRefB, hrun,
      runB_final n ok src bs F f hF (fun b' hb' => h b' (by simp [hb']))]
    all_goals (cases runRef n ok src b (lastD n F) f <;> cases runRefB n ok src bs (lastD n F) f <;> rfl)
end

/-- **no leak** (last sentence, second half): when the formatting keys of the program can be resolved, the
flow that the constructed program produces is the reference flow, in which static context enters the
run-time contexts only at `UpdateContextFromStatic` — as `update_recursively(context, seen)` with `seen` the
prefix fold — and as the name `MakeFilename` derives from the prefix fold -/
theorem no_leak (n : Nat) (ok : OutKeys) (src : List Item) (t : Tree) (f : List Item) (x : Ctx)
    (h : fold n t (Val.empty n) = .ok x) :
    run n ok src (build n t) f = runRef n ok src t (Val.empty n) f := by
  rw [build_eq_final]
  have := run_final n ok src t [Val.empty n] f x (by simp) (by simpa [lastD] using h)
  simpa [lastD] using this

/-! ## run time: values do not influence each other through static context

In the value model `run` is a function of the state of the objects and cannot change it: the transcribed
`run`/`__call__` methods assign no attribute (`UpdateContextFromStatic.run` and `MakeFilename.__call__` work
on deep copies of what they stored).  "The static state after a run is the state before it" is therefore not
a theorem about the model but its modelling assumption (locality of mutation); the harness checks it on the
real code by reading every object again after the run.  What the model can state is its consequence for the
flow: a value is processed the same way whatever values came before it. -/

theorem mapM_append_opt {α β : Type} (g : α → Option β) : ∀ (f1 f2 : List α),
    (f1 ++ f2).mapM g = match f1.mapM g, f2.mapM g with
      | some a, some b => some (a ++ b)
      | _, _ => none
  | [], f2 => by cases h : f2.mapM g <;> simp [h]
  | x :: f1, f2 => by
    simp only [List.cons_append, List.mapM_cons, mapM_append_opt g f1 f2]
    cases g x <;> cases f1.mapM g <;> cases f2.mapM g <;> simp

mutual
/-- **values are independent**: in every state `st` of a sequence of per-value elements (any nesting), the
result for a flow `f1 ++ f2` is the result for `f1` followed by the result for `f2` — what the static
context does to a value does not depend on the values processed before it, for every state the protocol
can produce and every run-time mutator in the program -/
theorem run_values_independent (n : Nat) (ok : OutKeys) (src : List Item) : ∀ (st : St) (f1 f2 : List Item),
    st.linear = true → run n ok src st (f1 ++ f2) = appendOpt (run n ok src st f1) (run n ok src st f2)
  | .set .., f1, f2, _ => by simp [run, appendOpt]
  | .store _, f1, f2, _ => by simp [run, appendOpt]
  | .ucfs c, f1, f2, _ => by
    simp only [run, mapM_append_opt]
    cases List.mapM (ucfsItem c) f1 <;> cases List.mapM (ucfsItem c) f2 <;> simp [appendOpt]
  | .mkf t c, f1, f2, _ => by
    simp only [run, mapM_append_opt]
    cases List.mapM (mkfItem n ok t c) f1 <;> cases List.mapM (mkfItem n ok t c) f2 <;> simp [appendOpt]
  | .write .., f1, f2, _ => by simp [run, appendOpt]
  | .cache .., f1, f2, _ => by simp [run, appendOpt]
  | .data, f1, f2, _ => by simp [run, appendOpt]
  | .mut .., f1, f2, _ => by simp [run, appendOpt]
  | .src, _, _, h => by simp [St.linear] at h
  | .seq kind cs sc, f1, f2, h => by
    simp only [St.linear] at h
    simp only [run]
    exact runL_values_independent n ok src cs f1 f2 h
  | .split bs, f1, f2, h => by
    simp only [St.linear] at h
    simp [run, h, appendOpt]
theorem runL_values_independent (n : Nat) (ok : OutKeys) (src : List Item) : ∀ (ss : List St) (f1 f2 : List Item),
    linearL ss = true → runL n ok src ss (f1 ++ f2) = appendOpt (runL n ok src ss f1) (runL n ok src ss f2)
  | [], f1, f2, _ => by simp [runL, appendOpt]
  | s :: ss, f1, f2, h => by
    simp only [linearL, Bool.and_eq_true] at h
    simp only [runL, run_values_independent n ok src s f1 f2 h.1]
    cases h1 : run n ok src s f1 with
    | none => simp [appendOpt]
    | some a =>
      cases h2 : run n ok src s f2 with
      | none =>
        simp only [appendOpt]
        cases runL n ok src ss a <;> rfl
      | some b =>
        simp only [appendOpt]
        exact runL_values_independent n ok src ss a b h.2
end

/-! ## what `MakeFilename` may write, and what `run` may read -/

/-- **frame of `MakeFilename.__call__`** (the only element besides `UpdateContextFromStatic` whose `run` looks at
static context): whatever static context it holds and whatever its arguments are, in the run-time context of a
value it changes nothing but `context["output"]`, and below `output` nothing but the keys prefix, suffix,
filename, dirname, fileext — static context cannot reach any other run-time key through it -/
theorem mkfCall_frame (n : Nat) (ok : OutKeys) (m : Mkf) (static : Option Ctx) (ctx r : Ctx)
    (h : mkfCall n ok m static ctx = some r) :
    (∀ i, i ≠ ok.output → getSlot r i = getSlot ctx i) ∧
    (∀ j, ¬ ok.isOutputKey j → getSlot (outputOf ok r) j = getSlot (outputOf ok ctx) j) :=
  ⟨mkfSteps_frame n ok m.overwrite static m.methods ctx r h,
   mkfSteps_frame_output n ok m.overwrite static m.methods ctx r h⟩

mutual
/-- **`run` reads nothing of the static state but what `UpdateContextFromStatic` and `MakeFilename` hold**: the
flow is the same after every other stored context, exported context, error and derived name is erased
(by inspection of the transcribed `run`; a reading aid for `no_leak`) -/
theorem run_reads_only_consumers (n : Nat) (ok : OutKeys) (src : List Item) : ∀ (st : St) (f : List Item),
    run n ok src st f = run n ok src st.strip f
  | .set .., f => by simp [run, St.strip]
  | .store _, f => by simp [run, St.strip]
  | .ucfs _, f => by simp [run, St.strip]
  | .mkf .., f => by simp [run, St.strip]
  | .write .., f => by simp [run, St.strip]
  | .cache .., f => by simp [run, St.strip]
  | .data, f => by simp [run, St.strip]
  | .mut .., f => by simp [run, St.strip]
  | .src, f => by simp [run, St.strip]
  | .seq kind cs sc, f => by simp only [run, St.strip]; exact runL_reads_only_consumers n ok src cs f
  | .split bs, f => by
    simp only [run, St.strip]
    cases bs with
    | nil => simp [stripL]
    | cons b bs => simp only [stripL, List.isEmpty_cons]; exact runB_reads_only_consumers n ok src (b :: bs) f
theorem runL_reads_only_consumers (n : Nat) (ok : OutKeys) (src : List Item) : ∀ (ss : List St) (f : List Item),
    runL n ok src ss f = runL n ok src (stripL ss) f
  | [], f => by simp [runL, stripL]
  | s :: ss, f => by
    simp only [runL, stripL, ← run_reads_only_consumers n ok src s f]
    cases run n ok src s f with
    | none => rfl
    | some f' => exact runL_reads_only_consumers n ok src ss f'
theorem runB_reads_only_consumers (n : Nat) (ok : OutKeys) (src : List Item) : ∀ (bs : List St) (f : List Item),
    runB n ok src bs f = runB n ok src (stripL bs) f
  | [], f => by simp [runB, stripL]
  | b :: bs, f => by
    simp only [runB, stripL, ← run_reads_only_consumers n ok src b f, ← runB_reads_only_consumers n ok src bs f]
end

/-! ## the key that is named -/

/-- **which key a failing lookup names** (`get_recursively`), against an independent description: the path splits
as `pre ++ k :: post`, the keys `pre` lead through nested dictionaries to a dictionary `d`, and in `d` the key `k`
is absent — or it is bound to a scalar while more keys follow -/
theorem getRec_error_spec : ∀ (p : List Nat) (c : Ctx) (k : Nat), getRec c p = .error k →
    ∃ pre post d, p = pre ++ k :: post ∧ descend c pre = some d ∧
      (getSlot d k = none ∨ (post ≠ [] ∧ ∃ l, getSlot d k = some (.leaf l)))
  | [], c, k, h => by simp [getRec] at h
  | [k0], c, k, h => by
    simp only [getRec] at h
    cases hs : getSlot c k0 with
    | none =>
      simp only [hs, Except.error.injEq] at h; subst h
      exact ⟨[], [], c, rfl, rfl, Or.inl hs⟩
    | some v => simp [hs] at h
  | k0 :: k1 :: ks, c, k, h => by
    simp only [getRec] at h
    cases hs : getSlot c k0 with
    | none =>
      simp only [hs, Except.error.injEq] at h; subst h
      exact ⟨[], k1 :: ks, c, rfl, rfl, Or.inl hs⟩
    | some v =>
      cases v with
      | leaf l =>
        simp only [hs, Except.error.injEq] at h; subst h
        exact ⟨[], k1 :: ks, c, rfl, rfl, Or.inr ⟨by simp, l, hs⟩⟩
      | dict d =>
        simp only [hs] at h
        obtain ⟨pre, post, d', hp, hd, hk⟩ := getRec_error_spec (k1 :: ks) d k h
        exact ⟨k0 :: pre, post, d', by simp [hp], by simp [descend, hs, hd], hk⟩

/-- a formatting string fails on the first of its fields that cannot be looked up, and names that field's key -/
theorem fmt_error_origin (t : Tpl) (x : Ctx) (k : Nat) (h : fmt t x = .error k) :
    ∃ pre fld post, t.parts = pre ++ fld :: post ∧ getRec x fld.1 = .error k ∧
      ∀ f ∈ pre, ∃ v, getRec x f.1 = .ok v := by
  have aux : ∀ (ps : List (List Nat × String)), lookups x ps = .error k →
      ∃ pre fld post, ps = pre ++ fld :: post ∧ getRec x fld.1 = .error k ∧ ∀ f ∈ pre, ∃ v, getRec x f.1 = .ok v := by
    intro ps
    induction ps with
    | nil => intro h; simp [lookups] at h
    | cons a ps ih =>
      intro h
      obtain ⟨p, lit⟩ := a
      simp only [lookups] at h
      cases hg : getRec x p with
      | error e =>
        simp only [hg, Except.error.injEq] at h; subst h
        exact ⟨[], (p, lit), ps, rfl, hg, by simp⟩
      | ok v =>
        simp only [hg] at h
        cases hl : lookups x ps with
        | ok vs => simp [hl] at h
        | error e =>
          simp only [hl, Except.error.injEq] at h; subst h
          obtain ⟨pre, fld, post, hp, hf, hpre⟩ := ih hl
          refine ⟨(p, lit) :: pre, fld, post, by simp [hp], hf, ?_⟩
          intro f hfm
          simp only [List.mem_cons] at hfm
          rcases hfm with hfm | hfm
          · subst hfm; exact ⟨v, hg⟩
          · exact hpre f hfm
  unfold fmt at h
  cases hl : lookups x t.parts with
  | error e =>
    simp only [hl, Except.error.injEq] at h; subst h
    exact aux t.parts hl
  | ok vs =>
    simp only [hl] at h
    split at h <;> cases h

mutual
/-- **the `LenaKeyError` of a program comes from a `SetContext` whose formatting string cannot be resolved
against the fold of what encloses and precedes it**: there is a position `p` with a `SetContext(key, tpl)`, the
top-down fold delivers a context `x` to it (so everything before it resolves), and formatting `tpl` against `x`
fails naming exactly that key -/
theorem fold_error_origin (n : Nat) : ∀ (t : Tree) (c : Ctx) (k : Nat), fold n t c = .error k →
    ∃ p key ks tpl x, t.at? p = some (.leaf (.set key ks (.tpl tpl))) ∧ ctxAt n t p c = some x ∧ fmt tpl x = .error k
  | .leaf (.set key ks (.tpl tpl)), c, k, h => by
    simp only [fold, foldElem, fmtUpdate] at h
    cases hf : fmt tpl c with
    | ok l => simp [hf] at h
    | error e =>
      simp only [hf, Except.error.injEq] at h; subst h
      exact ⟨[], key, ks, tpl, c, rfl, rfl, hf⟩
  | .leaf (.set key ks (.const l)), c, k, h => by simp [fold, foldElem, fmtUpdate] at h
  | .leaf (.set key ks (.dictv d)), c, k, h => by simp [fold, foldElem, fmtUpdate] at h
  | .leaf .store, c, k, h => by simp [fold, foldElem] at h
  | .leaf .ucfs, c, k, h => by simp [fold, foldElem] at h
  | .leaf (.mkf _), c, k, h => by simp [fold, foldElem] at h
  | .leaf (.write _), c, k, h => by simp [fold, foldElem] at h
  | .leaf (.cache _), c, k, h => by simp [fold, foldElem] at h
  | .leaf .data, c, k, h => by simp [fold, foldElem] at h
  | .leaf (.mut ..), c, k, h => by simp [fold, foldElem] at h
  | .leaf .src, c, k, h => by simp [fold, foldElem] at h
  | .seq kind cs, c, k, h => by
    simp only [fold] at h
    obtain ⟨i, t', c', ht', hpre, p, key, ks, tpl, x, h1, h2, h3⟩ := foldL_error_origin n cs c k h
    refine ⟨i :: p, key, ks, tpl, x, ?_, ?_, h3⟩
    · simp [Tree.at?, Tree.children, ht', h1]
    · simp [ctxAt, ht', hpre, h2]
  | .split bs, c, k, h => by
    simp only [fold] at h
    cases hb : foldB n bs c with
    | ok xs => simp [hb] at h
    | error e =>
      simp only [hb, Except.error.injEq] at h; subst h
      obtain ⟨i, b, hb', p, key, ks, tpl, x, h1, h2, h3⟩ := foldB_error_origin n bs c e hb
      refine ⟨i :: p, key, ks, tpl, x, ?_, ?_, h3⟩
      · simp [Tree.at?, Tree.children, hb', h1]
      · simp [ctxAt, hb', h2]
theorem foldL_error_origin (n : Nat) : ∀ (ts : List Tree) (c : Ctx) (k : Nat), foldL n ts c = .error k →
    ∃ (i : Nat) (t' : Tree) (c' : Ctx), ts[i]? = some t' ∧ foldL n (ts.take i) c = .ok c' ∧
      ∃ p key ks tpl x, t'.at? p = some (.leaf (.set key ks (.tpl tpl))) ∧ ctxAt n t' p c' = some x ∧
        fmt tpl x = .error k
  | [], c, k, h => by simp [foldL] at h
  | t :: ts, c, k, h => by
    simp only [foldL] at h
    cases ht : fold n t c with
    | error e =>
      simp only [ht, Except.error.injEq] at h; subst h
      exact ⟨0, t, c, rfl, by simp [foldL], fold_error_origin n t c e ht⟩
    | ok c1 =>
      simp only [ht] at h
      obtain ⟨i, t', c', ht', hpre, rest⟩ := foldL_error_origin n ts c1 k h
      exact ⟨i + 1, t', c', by simpa using ht', by simp [foldL, ht, hpre], rest⟩
theorem foldB_error_origin (n : Nat) : ∀ (bs : List Tree) (c : Ctx) (k : Nat), foldB n bs c = .error k →
    ∃ (i : Nat) (b : Tree), bs[i]? = some b ∧
      ∃ p key ks tpl x, b.at? p = some (.leaf (.set key ks (.tpl tpl))) ∧ ctxAt n b p c = some x ∧
        fmt tpl x = .error k
  | [], c, k, h => by simp [foldB] at h
  | b :: bs, c, k, h => by
    simp only [foldB] at h
    by_cases hg : b.hasGet = true
    · simp only [hg, if_true] at h
      cases hb : fold n b c with
      | error e =>
        simp only [hb, Except.error.injEq] at h; subst h
        exact ⟨0, b, rfl, fold_error_origin n b c e hb⟩
      | ok x =>
        simp only [hb] at h
        cases hr : foldB n bs c with
        | ok xs => simp [hr] at h
        | error e =>
          simp only [hr, Except.error.injEq] at h; subst h
          obtain ⟨i, b', hb', rest⟩ := foldB_error_origin n bs c e hr
          exact ⟨i + 1, b', by simpa using hb', rest⟩
    · simp only [hg] at h
      obtain ⟨i, b', hb', rest⟩ := foldB_error_origin n bs c k h
      exact ⟨i + 1, b', by simpa using hb', rest⟩
end

/-- **an unresolved key surfaces, naming the key** (full form): if `_get_context()` of the constructed program
raises `LenaKeyError(k)`, then some `SetContext` in it has a formatting field whose path, followed through the
fold of what encloses and precedes that `SetContext`, breaks at key `k` -/
theorem surfaced_key_is_missing (n : Nat) (t : Tree) (k : Nat) (hg : t.hasGet = true)
    (h : getCtx n (build n t) = .error k) :
    ∃ p key ks tpl x pre fld post, t.at? p = some (.leaf (.set key ks (.tpl tpl))) ∧
      ctxAt n t p (Val.empty n) = some x ∧ tpl.parts = pre ++ fld :: post ∧ getRec x fld.1 = .error k ∧
      ∃ kpre kpost d, fld.1 = kpre ++ k :: kpost ∧ descend x kpre = some d ∧
        (getSlot d k = none ∨ (kpost ≠ [] ∧ ∃ l, getSlot d k = some (.leaf l))) := by
  rw [get_context_is_fold n t hg] at h
  obtain ⟨p, key, ks, tpl, x, h1, h2, h3⟩ := fold_error_origin n t _ k h
  obtain ⟨pre, fld, post, hp, hf, _⟩ := fmt_error_origin tpl x k h3
  obtain ⟨kpre, kpost, d, hk1, hk2, hk3⟩ := getRec_error_spec fld.1 x k hf
  exact ⟨p, key, ks, tpl, x, pre, fld, post, h1, h2, hp, hf, kpre, kpost, d, hk1, hk2, hk3⟩

/-! ## independent copies (token level) -/

/-- a token handed inside a sub-program is the one the sub-program was handed, or was made inside it -/
theorem tokAt_origin : ∀ (p : List Nat) (t : Tree) (abs : List Nat) (inc tok : Tok),
    tokAt t abs inc p = some tok → tok = inc ∨ (abs <+: tok.1 ∧ abs.length < tok.1.length)
  | [], t, abs, inc, tok, h => by simp only [tokAt, Option.some.injEq] at h; exact Or.inl h.symm
  | i :: p, .leaf e, abs, inc, tok, h => by simp [tokAt] at h
  | i :: p, .seq kind cs, abs, inc, tok, h => by
    simp only [tokAt] at h
    cases hc : cs[i]? with
    | none => simp [hc] at h
    | some c =>
      simp only [hc, Option.bind_some] at h
      rcases tokAt_origin p c (abs ++ [i]) _ tok h with h1 | ⟨h1, h2⟩
      · cases hl : lastGet (cs.take i) with
        | none => simp only [hl] at h1; exact Or.inl h1
        | some j =>
          simp only [hl] at h1
          right; subst h1
          exact ⟨by simp, by simp⟩
      · right
        exact ⟨List.IsPrefix.trans (List.prefix_append abs [i]) h1, by simp at h2; omega⟩
  | i :: p, .split bs, abs, inc, tok, h => by
    simp only [tokAt] at h
    cases hc : bs[i]? with
    | none => simp [hc] at h
    | some b =>
      simp only [hc, Option.bind_some] at h
      right
      rcases tokAt_origin p b (abs ++ [i]) _ tok h with h1 | ⟨h1, h2⟩
      · subst h1; exact ⟨by simp, by simp⟩
      · exact ⟨List.IsPrefix.trans (List.prefix_append abs [i]) h1, by simp at h2; omega⟩

/-- **a Split hands each branch an independent copy** (token level): no element below one branch of a `Split` is
handed the same dictionary object as an element below another branch — whatever the branches contain -/
theorem split_branches_independent (bs : List Tree) (abs : List Nat) (inc : Tok) (i j : Nat) (p q : List Nat)
    (ti tj : Tok) (hij : i ≠ j) (hi : tokAt (.split bs) abs inc (i :: p) = some ti)
    (hj : tokAt (.split bs) abs inc (j :: q) = some tj) : ti ≠ tj := by
  simp only [tokAt] at hi hj
  cases hbi : bs[i]? with
  | none => simp [hbi] at hi
  | some bi =>
    cases hbj : bs[j]? with
    | none => simp [hbj] at hj
    | some bj =>
      simp only [hbi, hbj, Option.bind_some] at hi hj
      have pi : (abs ++ [i]) <+: ti.1 := by
        rcases tokAt_origin p bi _ _ ti hi with h | ⟨h, _⟩
        · subst h; exact List.prefix_refl _
        · exact h
      have pj : (abs ++ [j]) <+: tj.1 := by
        rcases tokAt_origin q bj _ _ tj hj with h | ⟨h, _⟩
        · subst h; exact List.prefix_refl _
        · exact h
      intro heq
      subst heq
      obtain ⟨r1, hr1⟩ := pi
      obtain ⟨r2, hr2⟩ := pj
      have : abs ++ [i] ++ r1 = abs ++ [j] ++ r2 := hr1.trans hr2.symm
      simp only [List.append_assoc, List.append_cancel_left_eq, List.cons_append, List.nil_append,
        List.cons.injEq] at this
      exact hij this.1

/-- **why skipping is sound** (the optimisation `if hasattr(el, "_set_context") and context:` of
`LenaSequence._set_context`): if the context after some elements is empty when they are started from a
larger context, it was empty already when they were started from a smaller one — so an element that an
outer pass skips was never given anything but `{}` by the inner passes -/
theorem skip_sound (n : Nat) (t : Tree) (c d x y : Ctx) (hle : leL c d) (hx : fold n t c = .ok x)
    (hy : fold n t d = .ok y) (he : nonEmpty y = false) : nonEmpty x = false := by
  obtain ⟨y', hy', hxy⟩ := fold_mono n t c d x hle hx
  rw [hy] at hy'; cases hy'
  exact nonEmpty_false_of_le hxy he

/-- **why a stale `_static_context` cannot hide an error** in `Sequence`/`Split` trees: a pass that starts from
a larger context succeeds wherever the earlier one did -/
theorem no_stale_error (n : Nat) (t : Tree) (c d x : Ctx) (hle : leL c d) (hx : fold n t c = .ok x) :
    ∃ y, fold n t d = .ok y :=
  let ⟨y, hy, _⟩ := fold_mono n t c d x hle hx; ⟨y, hy⟩

/-- since commit 579340b a `Source` treats static context exactly as a `Sequence` does (its tail sets none):
the kind of a sequence does not matter for the state of the objects in it -/
theorem kind_irrelevant (n : Nat) (kind kind' : Kind) (cs : List Tree) :
    (build n (.seq kind cs)).children = (build n (.seq kind' cs)).children ∧
    getCtx n (build n (.seq kind cs)) = getCtx n (build n (.seq kind' cs)) := by
  simp only [build_eq_final, final, St.children, getCtx, and_self]

/-- **the model's `==` is Python's `==`**: every context that the fold delivers to a node has `n` slots in
every dictionary at every depth (`Val.WF`), so that the structural equality used by the transcribed
`intersection` coincides with `dict.__eq__` on the dictionaries it stands for (`hw`: the dictionary constants
of the program are dictionaries over the alphabet — the driver builds them so and evaluates `valsWF` on every
case; a program without dictionary constants satisfies it trivially) -/
theorem delivered_wf (n : Nat) : ∀ (p : List Nat) (t : Tree) (c x : Ctx), t.valsWF n = true → WFD n c →
    ctxAt n t p c = some x → WFD n x
  | [], t, c, x, _, h, hx => by simp only [ctxAt, Option.some.injEq] at hx; subst hx; exact h
  | i :: p, .leaf e, c, x, _, _, hx => by simp [ctxAt] at hx
  | i :: p, .seq kind cs, c, x, hw, h, hx => by
    have hw' : valsWFL n cs = true := by simpa [Tree.valsWF] using hw
    simp only [ctxAt] at hx
    cases hc : cs[i]? with
    | none => simp [hc] at hx
    | some c0 =>
      simp only [hc, Option.bind_some] at hx
      cases hf : foldL n (cs.take i) c with
      | error e => simp [hf] at hx
      | ok c' =>
        simp only [hf] at hx
        exact delivered_wf n p c0 c' x (valsWFL_get n cs i c0 hw' hc)
          (foldL_wfd n _ c c' (valsWFL_take n cs i hw') h hf) hx
  | i :: p, .split bs, c, x, hw, h, hx => by
    have hw' : valsWFL n bs = true := by simpa [Tree.valsWF] using hw
    simp only [ctxAt] at hx
    cases hc : bs[i]? with
    | none => simp [hc] at hx
    | some c0 =>
      simp only [hc, Option.bind_some] at hx
      exact delivered_wf n p c0 c x (valsWFL_get n bs i c0 hw' hc) h hx

/-- … and so has every context a node exports -/
theorem exported_wf (n : Nat) (t : Tree) (c x : Ctx) (hw : t.valsWF n = true) (hc : WFD n c)
    (h : fold n t c = .ok x) : WFD n x :=
  fold_wfd n t c x hw hc h

/-! ## a subcontext given at once (`SetContext("data", {"detector": "far"})`) is MERGED, never substituted

Sentence 1 of the property: the static context is the fold of the `SetContext` UPDATES — an update is
`update_recursively`, also when the value is a dictionary.  All theorems above quantify over every `SVal`, the
dictionary constants included; the ones below say what the update with a dictionary constant is. -/

/-- `str_to_dict` nests: a dictionary with one entry below a key is the dotted key -/
theorem singleV_nest (n : Nat) : ∀ (ks : List Nat) (k k' : Nat) (ks' : List Nat) (v : V),
    singleV n k ks (.dict (singleV n k' ks' v)) = singleV n k (ks ++ k' :: ks') v
  | [], k, k', ks', v => by simp [singleV]
  | k1 :: ks, k, k', ks', v => by simp [singleV, singleV_nest n ks k1 k' ks' v]

/-- **`SetContext("k.ks", {"k'.ks'": l})` is `SetContext("k.ks.k'.ks'", l)`**, for every context it is applied to:
a dot-less (or shorter) key with a one-entry dictionary addresses the same subtree as the dotted key -/
theorem set_dict_is_dotted_key (n k : Nat) (ks : List Nat) (k' : Nat) (ks' : List Nat) (l : Leaf) (c : Ctx) :
    fmtUpdate n k ks (.dictv (single n k' ks' l)) c = fmtUpdate n k (ks ++ k' :: ks') (.const l) c := by
  simp only [fmtUpdate, single_eq_singleV, singleV_nest]

/-- … and the same for a dictionary nested in the dictionary -/
theorem set_dict_nest (n k : Nat) (ks : List Nat) (k' : Nat) (ks' : List Nat) (y c : Ctx) :
    fmtUpdate n k ks (.dictv (singleV n k' ks' (.dict y))) c = fmtUpdate n k (ks ++ k' :: ks') (.dictv y) c := by
  simp only [fmtUpdate, singleV_nest]

theorem getSlot_singleV_ne (n k : Nat) (ks : List Nat) (v : V) (i : Nat) (h : i ≠ k) :
    getSlot (singleV n k ks v) i = none := by
  cases ks <;> simp only [singleV] <;> rw [getSlot_map_range] <;> simp [h]

/-- **a dictionary value is merged into the subcontext that exists at its key**: if the context holds the
dictionary `x` at the path `k.ks`, then after `SetContext("k.ks", y)` it holds `update_recursively(x, y)` there -/
theorem set_dict_merges (n : Nat) : ∀ (ks : List Nat) (k : Nat) (y c x : Ctx), k < n → (∀ j ∈ ks, j < n) →
    descend c (k :: ks) = some x → descend (updL c (singleV n k ks (.dict y))) (k :: ks) = some (updL x y)
  | [], k, y, c, x, hk, _, hx => by
    simp only [descend] at hx ⊢
    rw [getSlot_updL]
    cases hs : getSlot c k with
    | none => simp [hs] at hx
    | some v =>
      cases v with
      | leaf a => simp [hs] at hx
      | dict d =>
        simp only [hs, Option.some.injEq] at hx; subst hx
        simp only [singleV]; rw [getSlot_map_range]
        simp [hk, updO, updV]
  | k1 :: r, k, y, c, x, hk, hks, hx => by
    simp only [descend] at hx
    cases hs : getSlot c k with
    | none => simp [hs] at hx
    | some v =>
      cases v with
      | leaf a => simp [hs] at hx
      | dict d =>
        simp only [hs] at hx
        have ih := set_dict_merges n r k1 y d x (hks k1 (by simp)) (fun j hj => hks j (by simp [hj])) hx
        have hg : getSlot (updL c (singleV n k (k1 :: r) (.dict y))) k =
            some (.dict (updL d (singleV n k1 r (.dict y)))) := by
          rw [getSlot_updL, hs]
          simp only [singleV]; rw [getSlot_map_range]
          simp [hk, updO, updV]
        rw [descend, hg]
        exact ih

/-- **what an earlier `SetContext` put below the key survives a later dictionary value that does not mention it**
(the sentence "the static context is the fold of the SetContext updates" for `SetContext("data.cycle", 1) …
SetContext("data", {"detector": "far"})`): the element after `SetContext("k.ks", y)` sees at `k.ks` the recursive
update of what was there, every entry `j` that `y` does not have is the one that was there, and every other
top-level key is untouched -/
theorem set_dict_keeps_earlier (n : Nat) (ks : List Nat) (k : Nat) (y c x : Ctx) (hk : k < n) (hks : ∀ j ∈ ks, j < n)
    (hx : descend c (k :: ks) = some x) :
    ∃ c', fold n (.leaf (.set k ks (.dictv y))) c = .ok c' ∧ descend c' (k :: ks) = some (updL x y) ∧
      (∀ j, getSlot y j = none → getSlot (updL x y) j = getSlot x j) ∧
      (∀ i, i ≠ k → getSlot c' i = getSlot c i) :=
  ⟨_, rfl, set_dict_merges n ks k y c x hk hks hx, fun j hj => getSlot_updL_of_none y x j hj,
    fun i hi => getSlot_updL_of_none _ c i (getSlot_singleV_ne n k ks _ i hi)⟩

/-! ## non-vacuity: concrete instances of the hypotheses (alphabet `a = 0`, `b = 1`) -/
section examples

/-- `Sequence(SetContext("a", 1), UpdateContextFromStatic(), Split([Sequence(SetContext("a", 2), StoreContext()),
Sequence(StoreContext())]), SetContext("b", 3))` -/
private def ex1 : Tree :=
  .seq .sequence [.leaf (.set 0 [] (.const (.int 1))), .leaf .ucfs,
    .split [.seq .sequence [.leaf (.set 0 [] (.const (.int 2))), .leaf .store], .seq .sequence [.leaf .store]],
    .leaf (.set 1 [] (.const (.int 3)))]

/-- the same prefix, another continuation and another sibling branch -/
private def ex1' : Tree :=
  .seq .source [.leaf (.set 0 [] (.const (.int 1))), .leaf .ucfs,
    .split [.seq .sequence [.leaf (.set 0 [] (.const (.int 2))), .leaf .store],
            .seq .sequence [.leaf (.set 1 [] (.const (.int 7)))], .seq .sequence []]]

/-- `Sequence(SetContext("a", 1), Sequence(SetContext("b", "{{b}}")))`: `b` cannot be resolved -/
private def ex2 : Tree :=
  .seq .sequence [.leaf (.set 0 [] (.const (.int 1))),
    .seq .sequence [.leaf (.set 1 [] (.tpl { head := "", parts := [([1], "")] }))]]

-- hypotheses of `seen_is_prefix_fold`: the ucfs at [1] and the store at [2, 0, 1]
example : ex1.at? [1] = some (.leaf .ucfs) := rfl
example : ctxAt 2 ex1 [1] (Val.empty 2) = some [some (.leaf (.int 1)), none] := rfl
example : ex1.at? [2, 0, 1] = some (.leaf .store) := rfl
example : ctxAt 2 ex1 [2, 0, 1] (Val.empty 2) = some [some (.leaf (.int 2)), none] := rfl
-- … and its conclusion on this instance, computed by the transcribed protocol itself
example : (build 2 ex1).at? [1] = some (.ucfs [some (.leaf (.int 1)), none]) := rfl
example : (build 2 ex1).at? [2, 0, 1] = some (.store [some (.leaf (.int 2)), none]) := rfl
-- the later `SetContext("b", 3)` is in the exported context but not in what the ucfs saw
example : getCtx 2 (build 2 ex1) = .ok [none, some (.leaf (.int 3))] := rfl
-- hypotheses of `causality`: same cone in `ex1` and `ex1'`
example : cone ex1 [2, 0, 1] = cone ex1' [2, 0, 1] := rfl
example : ∃ k, cone ex1 [2, 0, 1] = some k := ⟨_, rfl⟩
example : ex1.at? [2, 0, 1] = ex1'.at? [2, 0, 1] := rfl
-- hypotheses of `split_exports_intersection` / `get_context_at`
example : ∃ bs, ex1.at? [2] = some (.split bs) := ⟨_, rfl⟩
example : ctxAt 2 ex1 [2] (Val.empty 2) = some [some (.leaf (.int 1)), none] := rfl
-- `{a: 2} ∩ {a: 1} = {}`
example : fold 2 (.split [.seq .sequence [.leaf (.set 0 [] (.const (.int 2))), .leaf .store], .seq .sequence [.leaf .store]])
    [some (.leaf (.int 1)), none] = .ok [none, none] := rfl
-- hypothesis of `unresolved_key_surfaces` (the key named is `b = 1`), and the conclusion on the instance
example : fold 2 ex2 (Val.empty 2) = .error 1 := rfl
example : getCtx 2 (build 2 ex2) = .error 1 := rfl
-- hypotheses of `no_leak` and `no_leak_without_consumer`
example : ∃ x, fold 2 ex1 (Val.empty 2) = .ok x := ⟨_, rfl⟩
example : (Tree.seq .sequence [.leaf (.set 0 [] (.const (.int 1))), .leaf .store, .leaf .data]).noConsumer = true := rfl
example : run 2 ⟨0, 1, 0, 1, 0, 1⟩ [] (build 2 (.seq .sequence [.leaf (.set 1 [] (.const (.int 1))), .leaf .ucfs]))
    [(5, some [none, none])] = some [(5, some [none, some (Val.leaf (Leaf.int 1))])] := rfl
-- hypothesis of `run_values_independent`: a state with a consumer and a run-time mutator is linear
example : (build 2 (.seq .sequence [.leaf (.set 1 [] (.const (.int 1))), .leaf .ucfs, .leaf (.mut 0 [] (.int 5))])).linear = true := rfl
-- hypothesis of `split_transparent_branch`: a bare element branch; of `redelivery_idempotent`: a history below `c`
example : (Tree.leaf .data).hasGet = false := rfl
example : Hist 2 [Val.empty 2] [some (.leaf (.int 1)), none] :=
  ⟨by intro h hh; simp only [List.mem_singleton] at hh; subst hh; exact ⟨empty_leL 2 _, rfl⟩, rfl⟩
-- hypothesis of `mkfCall_frame`: a call that succeeds (static context {b: 1}, run-time context {a: …} keeps `a`)
example : ∃ r, mkfCall 2 ⟨0, 1, 0, 1, 0, 1⟩ { methods := [(.filename, { head := "f", parts := [] })], overwrite := false }
    (some [none, some (.leaf (.int 1))]) [none, none] = some r := ⟨_, rfl⟩
-- hypotheses of `getRec_error_spec` / `fold_error_origin` / `surfaced_key_is_missing`: `ex2` (key b = 1 is missing)
example : getRec [some (.leaf (.int 1)), none] [1] = .error 1 := rfl
example : getCtx 2 (build 2 ex2) = .error 1 ∧ ex2.hasGet = true := ⟨rfl, rfl⟩
-- hypotheses of `split_branches_independent`: the two stores of `ex1` are handed different objects
example : tokAt (.split [.seq .sequence [.leaf .store], .seq .sequence [.leaf .store]]) [2] ([0], 0) [0, 0] = some ([2, 0], 1) ∧
    tokAt (.split [.seq .sequence [.leaf .store], .seq .sequence [.leaf .store]]) [2] ([0], 0) [1, 0] = some ([2, 1], 1) :=
  ⟨rfl, rfl⟩
-- hypotheses of `skip_sound`: `{} ⊑ {a: 1}`, and the Split that empties both
example : leL (Val.empty 2) [some (.leaf (.int 1)), none] := by simp [leL, leO, Val.empty, List.replicate]
-- hypothesis of `delivered_wf` / `exported_wf`
example : WFD 2 (Val.empty 2 : Ctx) := wfd_empty 2
example : ex1.valsWF 2 = true := rfl

/-- `Sequence(SetContext("data.cycle", 1), StoreContext(), SetContext("data", {"detector": "far"}), StoreContext(),
Write("o_{{data.cycle}}_{{data.detector}}"))`, keys `cycle = 0`, `data = 1`, `detector = 2` -/
private def ex4 : Tree :=
  .seq .sequence [.leaf (.set 1 [0] (.const (.int 1))), .leaf .store,
    .leaf (.set 1 [] (.dictv [none, none, some (.leaf (.str "far"))])), .leaf .store,
    .leaf (.write { head := "o_", parts := [([1, 0], "_"), ([1, 2], "")] })]
-- hypotheses of `set_dict_merges` / `set_dict_keeps_earlier`: the context before the dictionary value has a
-- subcontext at `data`, and the value does not mention `cycle`
example : descend [none, some (.dict [some (.leaf (.int 1)), none, none]), none] [1] =
    some [some (.leaf (.int 1)), none, none] := rfl
example : getSlot ([none, none, some (.leaf (.str "far"))] : Ctx) 0 = none := rfl
example : ex4.valsWF 3 = true := rfl
-- … and the conclusion on the instance, computed by the transcribed protocol: the second store sees the merged
-- subcontext {data: {cycle: 1, detector: "far"}}, the first one what preceded it, the Write derives its name from both
example : (build 3 ex4).at? [1] = some (.store [none, some (.dict [some (.leaf (.int 1)), none, none]), none]) := rfl
example : (build 3 ex4).at? [3] =
    some (.store [none, some (.dict [some (.leaf (.int 1)), none, some (.leaf (.str "far"))]), none]) := rfl
example : (build 3 ex4).at? [4] =
    some (.write { head := "o_", parts := [([1, 0], "_"), ([1, 2], "")] } (some (.str "o_1_far"))) := rfl
-- `set_dict_is_dotted_key` on the instance: {"detector": "far"} below `data` is the key `data.detector`
example : fmtUpdate 3 1 [] (.dictv (single 3 2 [] (.str "far"))) (Val.empty 3) =
    fmtUpdate 3 1 [2] (.const (.str "far")) (Val.empty 3) := set_dict_is_dotted_key 3 1 [] 2 [] _ _
-- an EMPTY dictionary value creates the key where there is none, replaces a scalar and leaves a subcontext alone
example : fmtUpdate 2 0 [] (.dictv [none, none]) (Val.empty 2) = .ok [some (.dict [none, none]), none] := rfl
example : fmtUpdate 2 0 [] (.dictv [none, none]) [some (.leaf (.int 1)), none] = .ok [some (.dict [none, none]), none] := rfl
example : fmtUpdate 2 0 [] (.dictv [none, none]) [some (.dict [none, some (.leaf (.int 1))]), none] =
    .ok [some (.dict [none, some (.leaf (.int 1))]), none] := rfl

/-- `Sequence(SetContext("b", "{{a}}_f"), StoreContext(), Write("o_{{b}}"))`, keys `a = 0`, `b = 1` -/
private def ex3 : Tree :=
  .seq .sequence [.leaf (.set 1 [] (.tpl { head := "", parts := [([0], "_f")] })), .leaf .store,
    .leaf (.write { head := "o_", parts := [([1], "")] })]
-- hypothesis of `delivery_memoryless` / `reuse_memoryless` (`Lemmas/C13Reuse.lean`): the delivery of `{a: 6}` reaches
-- every element of `ex3` (and `{}`, or a context without `a`, does not)
example : covers 2 ex3 [some (.leaf (.int 6)), none] = true := rfl
example : covers 2 ex3 (Val.empty 2) = false := rfl
example : covers 2 ex3 [none, some (.leaf (.int 6))] = false := rfl
-- … and the conclusion on the instance: after `{a: 5}` and then `{a: 6}` the store holds `{a: 6, b: "6_f"}`, the
-- Write derived `o_6_f`; the protocol itself computes the state of a program delivered `{a: 6}` alone
example : (setCtx 2 (deliverAll 2 (build 2 ex3) [[some (.leaf (.int 5)), none]]) [some (.leaf (.int 6)), none]).1 =
    final 2 ex3 [[some (.leaf (.int 6)), none]] := rfl
example : (final 2 ex3 [[some (.leaf (.int 6)), none]]).at? [1] =
    some (.store [some (.leaf (.int 6)), some (.leaf (.str "6_f"))]) := rfl
example : (final 2 ex3 [[some (.leaf (.int 6)), none]]).at? [2] =
    some (.write { head := "o_", parts := [([1], "")] } (some (.str "o_6_f"))) := rfl
-- without `covers` the conclusion fails: `{}` after `{a: 5}` is skipped by every element, which keep `{a: 5, …}`
example : (setCtx 2 (deliverAll 2 (build 2 ex3) [[some (.leaf (.int 5)), none]]) (Val.empty 2)).1.at? [1] =
    some (.store [some (.leaf (.int 5)), some (.leaf (.str "5_f"))]) := rfl

end examples

end Lena.C13
