import LenaModel.Props.C18
import LenaModel.Lemmas.C18Split
/-! # C18 — a Cache in a Sequence branch of Split

`Source(src, *outer, Split([Sequence(*branch)], bufsize))()` (`Model/C18Split.lean`).  `Split.run` runs the branch
once per buffer.  When one buffer holds the whole flow — `bufsize=None`, which is what `Split.__init__` chooses for a
branch with a Cache once notes/C18_defect_2.patch is applied (`effBufsize true`) — the run is the outer pipeline run
to its end followed by one ordinary run of the branch on the list of its values (`split_whole_eq_two_runs`), so all
theorems of `Props/C18.lean` apply to the branch (`split_whole_stores`, `split_whole_yields_flow`).  With the
pinned rule and a finite buffer the first buffer is stored as if it were the flow (`split_pinned_truncates`). -/

namespace Lena.C18

/-- a run writes only to the files of the caches of its pipeline -/
theorem run_touches_only_own_caches (mode : Mode) (fs : FS) (s : SrcSpec) (els : List ElSpec) (k : Nat)
    (hm : ModeOk mode els) (hd : Distinct els) (c : Nat) (hc : c ∉ cacheIds els) :
    (runPipe mode fs s els k).fs c = fs c := by
  apply (drive_spec k fs _ (chainOk_build mode fs s els hm hd)).2.2.1
  rw [build_eq' mode fs s els hm]
  intro hmem
  rcases dumpIds_buildEls fs c els 0 _ hmem with ⟨h0, _⟩ | ⟨pre, rc, post, e, _, _⟩
  · simp [dumpIds] at h0
  · exact hc (by rw [e]; simp [cacheIds_append, cacheIds])

/-- the buffer-size rule of the patched `Split.__init__`: a branch with a Cache gets the whole flow -/
theorem effBufsize_patched (bufsize : Option Nat) (branch : List ElSpec) (h : cacheIds branch ≠ []) :
    effBufsize true bufsize branch = none := by
  cases hb : cacheIds branch with
  | nil => exact absurd hb h
  | cons c cs => simp [effBufsize, hb]

theorem effBufsize_pinned (bufsize : Option Nat) (branch : List ElSpec) : effBufsize false bufsize branch = bufsize := by
  simp [effBufsize]

/-- the branch chain numbered from `j0` behaves like the branch run as an ordinary pipeline -/
theorem drive_branch_eq (fs : FS) (j0 : Nat) (branch : List ElSpec) (s : SrcSpec) (k : Nat) :
    (drive k fs (buildEls fs j0 branch ⟨[], freshSrc s⟩)).outs = (runPipe .sequence fs s branch k).outs ∧
    (drive k fs (buildEls fs j0 branch ⟨[], freshSrc s⟩)).end_ = (runPipe .sequence fs s branch k).end_ ∧
    (drive k fs (buildEls fs j0 branch ⟨[], freshSrc s⟩)).fs = (runPipe .sequence fs s branch k).fs := by
  have hb := buildEls_rel fs j0 branch 0 ⟨[], freshSrc s⟩
  simp only [Nat.zero_add, relC, List.map_nil] at hb
  rw [hb]
  obtain ⟨h1, _, h3, h4, _⟩ := drive_rel (· + j0) k fs (buildEls fs 0 branch ⟨[], freshSrc s⟩)
  exact ⟨h1, h3, h4⟩

/-- **Split with the whole flow in one buffer = two ordinary runs.**  If the effective buffer size is `None`, a
run (`demand ≥ 1`) first pulls the outer pipeline to its end.  If that raises, the run ends with that exception,
nothing is yielded and no cache file changes.  Otherwise the consumer sees exactly what an ordinary run of the
branch sees whose source is the list of the outer values, on the file system the outer run left. -/
theorem split_whole_eq_two_runs (patched : Bool) (fs : FS) (r : SplitRunSpec) (hd : Distinct r.outer)
    (hwhole : effBufsize patched r.bufsize r.branch = none) (hk : 0 < r.demand) :
    (∀ e, (pipeFlow fs r.src r.outer).exc = some e →
      (runSplit patched fs r).outs = [] ∧ (runSplit patched fs r).end_ = .raised e ∧
      ∀ c, ((runSplit patched fs r).fs c).final = (fs c).final) ∧
    ((pipeFlow fs r.src r.outer).exc = none →
      (runSplit patched fs r).outs =
        (runPipe .sequence (runPipe .source fs r.src r.outer (bigDemandOf fs r.src r.outer)).fs
          ⟨(pipeFlow fs r.src r.outer).vals, none⟩ r.branch r.demand).outs ∧
      (runSplit patched fs r).end_ =
        (runPipe .sequence (runPipe .source fs r.src r.outer (bigDemandOf fs r.src r.outer)).fs
          ⟨(pipeFlow fs r.src r.outer).vals, none⟩ r.branch r.demand).end_ ∧
      (runSplit patched fs r).fs =
        (runPipe .sequence (runPipe .source fs r.src r.outer (bigDemandOf fs r.src r.outer)).fs
          ⟨(pipeFlow fs r.src r.outer).vals, none⟩ r.branch r.demand).fs) := by
  have hm : ModeOk .source r.outer := Or.inl (by decide)
  have ok := chainOk_build .source fs r.src r.outer hm hd
  have hrem := rem_build .source fs r.src r.outer hm
  have hbig := bigDemandOf_gt fs r.src r.outer
  obtain ⟨k, hk'⟩ : ∃ k, r.demand = k + 1 := ⟨r.demand - 1, by omega⟩
  have hrun : runSplit patched fs r =
      splitLoop (bigDemandOf fs r.src r.outer) r.outer.length r.branch (bigDemandOf fs r.src r.outer - 1 + 2)
        (k + 1) true fs (build .source fs r.src r.outer) := by
    unfold runSplit
    simp only [hk', hwhole, Option.getD_none]
    congr 1
    omega
  obtain ⟨w1, w2⟩ := splitLoop_whole (bigDemandOf fs r.src r.outer) r.outer.length r.branch
    (bigDemandOf fs r.src r.outer - 1) (k + 1) fs _ ok (by rw [hrem]; exact hbig) (by omega)
  rw [hrem] at w1 w2
  rw [hrun]
  refine ⟨w1, ?_⟩
  intro he
  obtain ⟨o1, o2, o3⟩ := w2 he
  obtain ⟨d1, d2, d3⟩ := drive_branch_eq (drive (bigDemandOf fs r.src r.outer) fs (build .source fs r.src r.outer)).fs
    r.outer.length r.branch ⟨(pipeFlow fs r.src r.outer).vals, none⟩ (k + 1)
  rw [hk']
  exact ⟨o1.trans d1, o2.trans d2, o3.trans d3⟩

/-- **a Cache in a Split branch stores the whole flow** (whole-flow buffer).  Let cache `c` sit in the branch, not
be replayed, with no replayed cache after it, and let the run reach its normal end.  Then the cache file holds the
complete flow that entered the cache: the values of the whole outer flow passed through the branch elements before
the cache — not a buffer of it. -/
theorem split_whole_stores (patched : Bool) (fs : FS) (r : SplitRunSpec) (pre post : List ElSpec) (c : Nat) (rc : Bool)
    (hd : Distinct (r.outer ++ r.branch)) (hbr : r.branch = pre ++ .cache c rc :: post)
    (hwhole : effBufsize patched r.bufsize r.branch = none)
    (hx : cacheExists fs c rc = false) (hpost : NoFilled fs post)
    (hend : (runSplit patched fs r).end_ = .exhausted) :
    (pipeFlow fs r.src r.outer).exc = none ∧
    (runSplit patched fs r).fs c = ⟨some (elsFlow fs pre ⟨(pipeFlow fs r.src r.outer).vals, none⟩).vals, none⟩ := by
  have hdo : Distinct r.outer := by
    have := hd; simp only [Distinct, cacheIds_append, List.nodup_append] at this; exact this.1
  have hdb : Distinct r.branch := by
    have := hd; simp only [Distinct, cacheIds_append, List.nodup_append] at this; exact this.2.1
  have hdisj : ∀ d, d ∈ cacheIds r.branch → d ∉ cacheIds r.outer := by
    have := hd; simp only [Distinct, cacheIds_append, List.nodup_append] at this
    intro d hdb hdo; exact this.2.2 d hdo d hdb rfl
  have hk : 0 < r.demand := by
    cases hdem : r.demand with
    | zero => simp [runSplit, hdem] at hend
    | succ k => omega
  obtain ⟨w1, w2⟩ := split_whole_eq_two_runs patched fs r hdo hwhole hk
  cases he : (pipeFlow fs r.src r.outer).exc with
  | some e => rw [(w1 e he).2.1] at hend; simp at hend
  | none =>
    refine ⟨rfl, ?_⟩
    obtain ⟨_, o2, o3⟩ := w2 he
    rw [o3]
    rw [o2] at hend
    -- the file system the outer run left agrees with `fs` on the caches of the branch
    have hfs : ∀ d, d ∈ cacheIds r.branch →
        (runPipe .source fs r.src r.outer (bigDemandOf fs r.src r.outer)).fs d = fs d := by
      intro d hdm
      exact run_touches_only_own_caches .source fs r.src r.outer _ (Or.inl (by decide)) hdo d (hdisj d hdm)
    have hmem : ∀ d, d ∈ cacheIds pre ∨ d = c ∨ d ∈ cacheIds post → d ∈ cacheIds r.branch := by
      intro d h; rw [hbr]; simp only [cacheIds_append, cacheIds, List.mem_append, List.mem_cons]; exact h
    rw [hbr] at hend hdb ⊢
    have hx' : cacheExists (runPipe .source fs r.src r.outer (bigDemandOf fs r.src r.outer)).fs c rc = false := by
      simp only [cacheExists, hfs c (hmem c (Or.inr (Or.inl rfl)))] at hx ⊢; exact hx
    have hpost' : NoFilled (runPipe .source fs r.src r.outer (bigDemandOf fs r.src r.outer)).fs post := by
      intro d rd hdm
      have hin : d ∈ cacheIds post := mem_cacheIds_of_mem hdm
      have := hpost d rd hdm
      simp only [cacheExists, hfs d (hmem d (Or.inr (Or.inr hin)))] at this ⊢; exact this
    obtain ⟨s1, _, _⟩ := first_run_stores .sequence _ ⟨(pipeFlow fs r.src r.outer).vals, none⟩ pre post c rc r.demand
      (Or.inl (by decide)) hdb hx' hpost' hend
    rw [s1]
    have : pipeFlow (runPipe .source fs r.src r.outer (bigDemandOf fs r.src r.outer)).fs
        ⟨(pipeFlow fs r.src r.outer).vals, none⟩ pre = elsFlow fs pre ⟨(pipeFlow fs r.src r.outer).vals, none⟩ := by
      show elsFlow _ pre (srcFlow ⟨(pipeFlow fs r.src r.outer).vals, none⟩) = _
      have hsrc : srcFlow ⟨(pipeFlow fs r.src r.outer).vals, none⟩ = ⟨(pipeFlow fs r.src r.outer).vals, none⟩ := rfl
      rw [hsrc]
      exact elsFlow_congr pre _ (fun d hdm => by rw [hfs d (hmem d (Or.inl hdm))])
    rw [this]

/-- **the defect of the pinned rule** (notes/C18_defect_2.md): `Split([Sequence(Cache)], bufsize=2)` over the flow
0 1 2 3 4 yields 0 1 0 1 0 1, ends normally, and stores 0 1 as if it were the flow -/
theorem split_pinned_truncates :
    let r : SplitRunSpec := ⟨⟨[0, 1, 2, 3, 4], none⟩, [], [.cache 0 false], some 2, 99, false⟩
    (runSplit false FS.empty r).outs.map (·.1) = [0, 1, 0, 1, 0, 1] ∧
    (runSplit false FS.empty r).end_ = .exhausted ∧
    (runSplit false FS.empty r).fs 0 = ⟨some [0, 1], none⟩ := by decide

/-- the same run with the patched rule -/
example :
    let r : SplitRunSpec := ⟨⟨[0, 1, 2, 3, 4], none⟩, [.map 1 none], [.cache 0 false, .map 2 none], some 2, 99, false⟩
    (runSplit true FS.empty r).outs.map (·.1) = [12, 112, 212, 312, 412] ∧
    (runSplit true FS.empty r).fs 0 = ⟨some [1, 11, 21, 31, 41], none⟩ := by decide

/-- **a filled bare Cache in Split is replayed exactly** (hoisted into a Source by `lena.core.alter_sequence` in
`Split.__init__`): unless reading the first buffer of Split's input raises, the consumer receives the first
`demand` stored values — whatever the source, the outer elements, the buffer size and `Split`'s rule for it. -/
theorem split_bare_replay (patched : Bool) (fs : FS) (r : SplitRunSpec) (c : Nat) (xs : List Val) (k : Nat)
    (hd : Distinct (r.outer ++ [.cache c false])) (hfile : (fs c).final = some xs) (hk : r.demand = k + 1)
    (hnr : ∀ e, (drive (r.bufsize.getD (bigDemandOf fs r.src r.outer)) fs (build .source fs r.src r.outer)).end_ ≠ .raised e) :
    (runSplitBare patched fs r c false).outs.map (·.1) = xs.take (k + 1) := by
  have hx : cacheExists fs c false = true := by simp [cacheExists, hfile]
  have hdo : Distinct r.outer := by
    have := hd; simp only [Distinct, cacheIds_append, List.nodup_append] at this; exact this.1
  have hc : c ∉ cacheIds r.outer := by
    have := hd; simp only [Distinct, cacheIds_append, cacheIds, List.nodup_append] at this
    intro h; exact this.2.2 c h c (by simp) rfl
  have hm : ModeOk .source r.outer := Or.inl (by decide)
  have ok := chainOk_build .source fs r.src r.outer hm hdo
  generalize hb : r.bufsize.getD (bigDemandOf fs r.src r.outer) = b at hnr
  have sp := drive_spec b fs _ ok
  -- reading a buffer of the outer chain does not touch the file of `c`
  have hofs : (drive b fs (build .source fs r.src r.outer)).fs c = fs c := by
    apply sp.2.2.1
    rw [build_eq' .source fs r.src r.outer hm]
    intro hmem
    rcases dumpIds_buildEls fs c r.outer 0 _ hmem with ⟨h0, _⟩ | ⟨pre, rc, post, e, _, _⟩
    · simp [dumpIds] at h0
    · exact hc (by rw [e]; simp [cacheIds_append, cacheIds])
  have okl : ChainOk (drive b fs (build .source fs r.src r.outer)).fs ⟨[], .load c .fresh []⟩ :=
    ⟨trivial, by simp [BotOk]⟩
  have spl := drive_spec (k + 1) (drive b fs (build .source fs r.src r.outer)).fs ⟨[], .load c .fresh []⟩ okl
  have hrem : rem (drive b fs (build .source fs r.src r.outer)).fs ⟨[], .load c .fresh []⟩ = ⟨xs, none⟩ := by
    simp [rem, remB, storedFlow, hofs, hfile]
  unfold DriveSpec at spl
  rw [hrem] at spl
  have l1 := spl.1
  unfold runSplitBare
  simp only [hx, if_true, hk, hb]
  cases hoe : (drive b fs (build .source fs r.src r.outer)).end_ with
  | raised e => exact absurd hoe (hnr e)
  | stopped =>
    skip
    cases (drive (k + 1) (drive b fs (build .source fs r.src r.outer)).fs ⟨[], .load c .fresh []⟩).end_ with
    | exhausted => simp only; split <;> exact l1
    | stopped => exact l1
    | raised e => exact l1
  | exhausted =>
    skip
    cases (drive (k + 1) (drive b fs (build .source fs r.src r.outer)).fs ⟨[], .load c .fresh []⟩).end_ with
    | exhausted => simp only; split <;> exact l1
    | stopped => exact l1
    | raised e => exact l1

example :
    let fs := FS.empty.set 0 ⟨some [7, 8, 9], none⟩
    (runSplitBare true fs ⟨⟨[1, 2, 3, 4, 5], none⟩, [.map 1 none], [], some 2, 99, false⟩ 0 false).outs.map (·.1) = [7, 8, 9] ∧
    (runSplitBare true fs ⟨⟨[1, 2, 3, 4, 5], none⟩, [.map 1 none], [], some 2, 99, false⟩ 0 false).end_ = .exhausted := by
  decide

/-! ## `_contains_cache` finds a Cache at any depth -/

/-- the tree holds a Cache somewhere: at the root, or in a child (of a Sequence/RunIf/tuple or of a Split) that
holds one -/
inductive HasCache : CTree → Prop where
  | here : HasCache .cache
  | inSeq {els : List CTree} {t : CTree} : t ∈ els → HasCache t → HasCache (.seq els)
  | inSplit {seqs : List CTree} {t : CTree} : t ∈ seqs → HasCache t → HasCache (.split seqs)

mutual
theorem containsCache_sound : ∀ (t : CTree), containsCache t = true → HasCache t
  | .cache, _ => .here
  | .leaf, h => by simp [containsCache] at h
  | .seq els, h => by
    obtain ⟨t, ht, hc⟩ := anyCache_sound els (by simpa [containsCache] using h)
    exact .inSeq ht hc
  | .split seqs, h => by
    obtain ⟨t, ht, hc⟩ := anyCache_sound seqs (by simpa [containsCache] using h)
    exact .inSplit ht hc
theorem anyCache_sound : ∀ (ts : List CTree), anyCache ts = true → ∃ t, t ∈ ts ∧ HasCache t
  | [], h => by simp [anyCache] at h
  | t :: r, h => by
    simp only [anyCache, Bool.or_eq_true] at h
    rcases h with h | h
    · exact ⟨t, by simp, containsCache_sound t h⟩
    · obtain ⟨t', ht', hc⟩ := anyCache_sound r h
      exact ⟨t', by simp [ht'], hc⟩
end

theorem anyCache_of_mem : ∀ (ts : List CTree) (t : CTree), t ∈ ts → containsCache t = true → anyCache ts = true
  | [], _, h, _ => by simp at h
  | x :: r, t, h, hc => by
    simp only [List.mem_cons] at h
    simp only [anyCache, Bool.or_eq_true]
    rcases h with rfl | h
    · exact Or.inl hc
    · exact Or.inr (anyCache_of_mem r t h hc)

/-- **`_contains_cache` finds a Cache at any depth**, through any alternation of Sequences (RunIf, tuple members)
and Splits — and reports one only if there is one -/
theorem containsCache_complete (t : CTree) : containsCache t = true ↔ HasCache t := by
  constructor
  · exact containsCache_sound t
  · intro h
    induction h with
    | here => rfl
    | inSeq hm _ ih => simpa [containsCache] using anyCache_of_mem _ _ hm ih
    | inSplit hm _ ih => simpa [containsCache] using anyCache_of_mem _ _ hm ih

/-- so a member that holds a Cache anywhere makes `Split.__init__` read the whole flow at once -/
theorem effBufsizeTree_none (bufsize : Option Nat) (members : List CTree) (t : CTree) (hm : t ∈ members)
    (hc : HasCache t) : effBufsizeTree bufsize members = none := by
  unfold effBufsizeTree
  rw [anyCache_of_mem members t hm ((containsCache_complete t).mpr hc)]
  cases bufsize <;> simp

example : containsCache (.seq [.leaf, .split [.seq [.leaf], .seq [.split [.seq [.leaf, .cache]]]]]) = true := by decide
example : containsCache (.seq [.leaf, .split [.seq [.leaf], .seq [.split [.seq [.leaf, .leaf]]]]]) = false := by decide
example : HasCache (.seq [.leaf, .split [.seq [.cache]]]) :=
  .inSeq (t := .split [.seq [.cache]]) (by simp) (.inSplit (t := .seq [.cache]) (by simp) (.inSeq (t := .cache) (by simp) .here))

/-- the tree of a flat branch -/
def elTree : ElSpec → CTree
  | .map _ _ => .leaf
  | .cache _ _ => .cache

theorem anyCache_map_elTree : ∀ (els : List ElSpec), anyCache (els.map elTree) = !(cacheIds els).isEmpty
  | [] => rfl
  | .map _ _ :: els => by simp [anyCache, elTree, containsCache, cacheIds, anyCache_map_elTree els]
  | .cache _ _ :: els => by simp [anyCache, elTree, containsCache, cacheIds]

/-- the rule used by `runSplit` for a flat branch is the tree rule — also when the branch is wrapped into further
containers (`wrapTree`), at any depth -/
theorem effBufsize_eq_tree (bufsize : Option Nat) (branch : List ElSpec) :
    effBufsize true bufsize branch = effBufsizeTree bufsize [.seq (branch.map elTree)] := by
  unfold effBufsize effBufsizeTree
  simp only [anyCache, containsCache, anyCache_map_elTree, Bool.or_false, Bool.true_and]
  cases bufsize <;> simp

/-- a tree wrapped into a chain of containers (`true` = a Split with this one member, `false` = a Sequence) -/
def wrapTree : List Bool → CTree → CTree
  | [], t => t
  | true :: w, t => .split [wrapTree w t]
  | false :: w, t => .seq [wrapTree w t]

theorem containsCache_wrapTree : ∀ (w : List Bool) (t : CTree), containsCache (wrapTree w t) = containsCache t
  | [], _ => rfl
  | true :: w, t => by simp [wrapTree, containsCache, anyCache, containsCache_wrapTree w t]
  | false :: w, t => by simp [wrapTree, containsCache, anyCache, containsCache_wrapTree w t]

/-- **depth does not matter**: wrapping the branch into any chain of Sequences and Splits leaves the buffer size
`Split.__init__` chooses unchanged -/
theorem effBufsizeTree_wrap (bufsize : Option Nat) (w : List Bool) (t : CTree) :
    effBufsizeTree bufsize [wrapTree w t] = effBufsizeTree bufsize [t] := by
  simp [effBufsizeTree, anyCache, containsCache_wrapTree]

end Lena.C18
