import LenaModel.Model.C17
import LenaModel.Model.C17Sess
import LenaModel.Lemmas.C17
import LenaModel.Lemmas.C17Sess
/-! # C17 — property theorems (flow iterators equal their Python reference) -/

namespace Lena.C17

variable {α : Type}

/-! ### Reverse, Chain, CountFrom -/

theorem popAll_spec : ∀ (n : Nat) (xs : List α), xs.length < n → popAll n xs = xs.reverse
  | 0, xs, h => by omega
  | n + 1, xs, h => by
    rcases List.eq_nil_or_concat xs with rfl | ⟨l, a, rfl⟩
    · simp [popAll]
    · have hl : l.length < n := by simp at h; omega
      simp [popAll, popAll_spec n l hl]

/-- `Reverse().run(xs)` yields `reversed(list(xs))` -/
theorem reverse_spec (xs : List α) : reverseRun xs = xs.reverse :=
  popAll_spec _ xs (by omega)

/-- `Chain(*its)()` yields `itertools.chain(*its)`: the concatenation -/
theorem chain_spec (xss : List (List α)) : chainCall xss = xss.flatten := by
  induction xss with
  | nil => rfl
  | cons x xs ih => simp [chainCall, ih]

/-- the `i`-th value of `CountFrom(start, step)` is `start + i*step` -/
theorem countfrom_spec (start step : Int) (n : Nat) :
    countFrom start step n = (List.range n).map (fun (i : Nat) => start + (i : Int) * step) := by
  induction n generalizing start with
  | zero => rfl
  | succ n ih =>
    rw [countFrom, ih, List.range_succ_eq_map]
    simp only [List.map_cons, List.map_map]
    congr 1
    · simp
    · apply List.map_congr_left
      intro i _
      simp only [Function.comp]
      rw [Int.natCast_succ, Int.add_mul]
      omega

/-! ### Slice construction -/

/-- every step that is not a positive integer (or None) is rejected at construction -/
theorem slice_rejects_bad_step (start stop : Option Int) (s : Int) (hs : s ≤ 0) :
    mkSlice start stop (some s) = .valueError := by
  unfold mkSlice
  by_cases h0 : s = 0
  · subst h0
    split <;> simp
  · have hn : noneOrNonneg (some s) = false := by simp [noneOrNonneg]; omega
    simp [hn, hs]

example : mkSlice (some 1) (some (-2)) (some 0) = .valueError := by decide

/-- the step is `None` or an integer `≥ 1` -/
def GoodStep (step : Option Int) : Prop := ∀ s, step = some s → 1 ≤ s

theorem goodStep_getD {step : Option Int} (h : GoodStep step) : 1 ≤ step.getD 1 := by
  cases step with
  | none => simp
  | some s => simpa using h s rfl

/-- what `Slice.__init__` builds for a good step: `islice` when no index is negative, the
negative-index generator otherwise -/
theorem mkSlice_good (start stop step : Option Int) (hs : GoodStep step) :
    mkSlice start stop step =
      if noneOrNonneg start && noneOrNonneg stop
      then .islice (start.getD 0).toNat (stop.map Int.toNat) ((step.getD 1).toNat)
      else .negative start stop (step.getD 1).toNat := by
  have h1 := goodStep_getD hs
  have hnn : noneOrNonneg step = true := by
    cases step with
    | none => rfl
    | some s => have := hs s rfl; simp [noneOrNonneg]; omega
  have h0 : step ≠ some 0 := by
    intro h; have := hs 0 h; omega
  have h2 : ¬ (step.getD 1 ≤ 0) := by omega
  unfold mkSlice
  simp only [hnn, Bool.and_true, h0, if_false, h2]

/-- a step that is `None` or `≥ 1` is accepted, whatever `start` and `stop` are -/
theorem slice_accepts_good_step (start stop step : Option Int) (hs : GoodStep step) :
    mkSlice start stop step ≠ .valueError := by
  rw [mkSlice_good start stop step hs]
  split <;> simp

example : GoodStep (some 3) := by intro s h; cases h; decide
example : mkSlice (some (-3)) none (some 2) = .negative (some (-3)) none 2 := by decide

/-! ### `pySlice` in transparent index form -/

/-- Element `k` of `xs[start:stop:step]` is `xs[a + k*step]` as long as `a + k*step < b`, where `a`, `b`
are the clamped bounds; there are no further elements. -/
theorem pySlice_getElem? (xs : List α) (start stop : Option Int) (step : Nat) (hs : 1 ≤ step) (k : Nat) :
    (pySlice xs start stop step)[k]? =
      if adj xs.length start 0 + k * step < adj xs.length stop xs.length
      then xs[adj xs.length start 0 + k * step]? else none := by
  unfold pySlice
  simp only []
  rw [everyNth_getElem? step hs, List.getElem?_take, List.getElem?_drop]
  by_cases h : adj xs.length start 0 + k * step < adj xs.length stop xs.length
  · rw [if_pos h, if_pos (by omega)]
  · rw [if_neg h, if_neg (by omega)]

example : pySlice [10, 11, 12, 13, 14, 15, 16] (some (-6)) (some 6) 2 = [11, 13, 15] := by decide

/-! ### `itertools.islice` is slicing -/

/-- `islice(xs, a, b, s)` for non-negative `a`, `b` (or `b = None`) and `s ≥ 1` is `xs[a:b:s]` -/
theorem islice_eq_pySlice (xs : List α) (a : Nat) (b : Option Nat) (s : Nat) (hs : 1 ≤ s) :
    islice xs a b s = pySlice xs (some (a : Int)) (b.map Int.ofNat) s := by
  unfold islice
  rw [isliceGo_spec b s hs xs a 0 (Nat.zero_le _)]
  unfold pySlice
  simp only [Nat.sub_zero]
  cases b with
  | none =>
    have : adj xs.length (none : Option Int) xs.length = xs.length := rfl
    simp only [takeOpt, Option.map_none, adj_ofNat, this, window_clamp_none]
  | some b =>
    simp only [takeOpt, Option.map_some, Int.ofNat_eq_natCast, adj_ofNat, window_clamp]

example : islice [0, 1, 2, 3, 4, 5, 6, 7] 1 (some 6) 2 = [1, 3, 5] := by decide

/-! ### the negative-index generator is slicing -/

/-- at least one of `start`, `stop` is a negative integer: what `Slice.__init__` routes to
`_run_negative_islice` -/
def HasNeg (start stop : Option Int) : Prop :=
  (∃ i, start = some i ∧ i < 0) ∨ (∃ i, stop = some i ∧ i < 0)

theorem pySlice_one (xs : List α) (start stop : Option Int) :
    pySlice xs start stop 1
      = (xs.drop (adj xs.length start 0)).take (adj xs.length stop xs.length - adj xs.length start 0) := by
  unfold pySlice
  simp only [everyNth_one]

private theorem neg_witness (i : Int) (h : i < 0) : ∃ k : Nat, 0 < k ∧ i = -(k : Int) :=
  ⟨(-i).toNat, by omega, by omega⟩

private theorem nonneg_witness (i : Int) (h : ¬ i < 0) : ∃ k : Nat, i = (k : Int) :=
  ⟨i.toNat, by omega⟩

/-- branch `start is None` (stop = −k): all values except the last `k` -/
theorem runNegative_none_neg (k : Nat) (hk : 0 < k) (xs : List α) :
    runNegative none (some (-(k : Int))) xs = .ok (pySlice xs none (some (-(k : Int))) 1) := by
  rw [pySlice_one, adj_neg _ _ _ hk]
  have h0 : adj xs.length (none : Option Int) 0 = 0 := rfl
  have hk' : (- -(k : Int)).toNat = k := by omega
  simp only [runNegative, hk', h0, List.drop_zero, Nat.sub_zero]
  rw [fillDeque_spec k k [] xs (by simp)]
  simp only [List.append_nil]
  by_cases hx : xs.length ≤ k
  · rw [List.drop_eq_nil_of_le hx, lagLoop_nil]
    have : xs.length - k = 0 := by omega
    simp [this]
  · have hne : (xs.take k).reverse ≠ [] := by
      intro h
      have := congrArg List.length h
      simp only [List.length_reverse, List.length_take, List.length_nil] at this
      omega
    rw [lagLoop_spec k _ _ hne (by simp; omega)]
    simp

/-- branch `start ≥ 0`, stop = −k -/
theorem runNegative_pos_neg (a k : Nat) (hk : 0 < k) (xs : List α) :
    runNegative (some (a : Int)) (some (-(k : Int))) xs
      = .ok (pySlice xs (some (a : Int)) (some (-(k : Int))) 1) := by
  rw [pySlice_one, adj_neg _ _ _ hk, adj_ofNat]
  have hk' : (- -(k : Int)).toNat = k := by omega
  have ha : ((a : Int) ≥ 0) := by omega
  have ha' : (a : Int).toNat = a := by omega
  simp only [runNegative, ha, if_true, ha', hk']
  rw [fillDeque_spec k k [] _ (by simp)]
  simp only [List.append_nil, List.length_reverse, List.length_take, List.length_drop]
  by_cases hx : xs.length - a < k
  · have h1 : min k (xs.length - a) < k := by omega
    have h2 : xs.length - k - min a xs.length = 0 := by omega
    rw [if_pos h1, h2]
    simp
  · have h1 : ¬ (min k (xs.length - a) < k) := by omega
    have hne : ((xs.drop a).take k).reverse ≠ [] := by
      intro h
      have := congrArg List.length h
      simp only [List.length_reverse, List.length_take, List.length_drop, List.length_nil] at this
      omega
    rw [if_neg h1, lagLoop_spec k _ _ hne (by simp; omega), List.reverse_reverse, List.take_append_drop]
    have h3 : min a xs.length = a := by omega
    have h4 : xs.length - k - a = xs.length - a - k := by omega
    have h5 : xs.length - (a + k) = xs.length - a - k := by omega
    simp only [h3, h4, h5, List.length_drop, List.drop_drop]

/-- branch `start = −m`, `stop is None`: the last `m` values -/
theorem runNegative_neg_none (m : Nat) (hm : 0 < m) (xs : List α) :
    runNegative (some (-(m : Int))) none xs = .ok (pySlice xs (some (-(m : Int))) none 1) := by
  rw [pySlice_one, adj_neg _ _ _ hm]
  have hn : adj xs.length (none : Option Int) xs.length = xs.length := rfl
  have h1 : ¬ (-(m : Int) ≥ 0) := by omega
  have hm' : (- -(m : Int)).toNat = m := by omega
  simp only [runNegative, h1, if_false, hm', drainLeft, dqOfFlow_spec, hn]
  rw [List.take_of_length_le (by simp)]

/-- branches `start = −m`, `stop = −k` (both sub-cases `stop ≤ start` and `start < stop < 0`) -/
theorem runNegative_neg_neg (m k : Nat) (hm : 0 < m) (hk : 0 < k) (xs : List α) :
    runNegative (some (-(m : Int))) (some (-(k : Int))) xs
      = .ok (pySlice xs (some (-(m : Int))) (some (-(k : Int))) 1) := by
  rw [pySlice_one, adj_neg _ _ _ hm, adj_neg _ _ _ hk]
  have h1 : ¬ (-(m : Int) ≥ 0) := by omega
  have hm' : (- -(m : Int)).toNat = m := by omega
  simp only [runNegative, h1, if_false, hm']
  by_cases hle : -(k : Int) ≤ -(m : Int)
  · have : xs.length - k - (xs.length - m) = 0 := by omega
    simp [hle, this]
  · have hlt : -(k : Int) < 0 := by omega
    simp only [hle, if_false, hlt, if_true, dqOfFlow_spec, List.length_drop]
    have hc : (((xs.length - (xs.length - m) : Nat) : Int) + -(k : Int)).toNat
        = xs.length - k - (xs.length - m) := by omega
    rw [hc, popLeftN_spec _ _ (by simp)]

/-- branch `start = −m`, `stop = b ≥ 0` -/
theorem runNegative_neg_pos (m b : Nat) (hm : 0 < m) (xs : List α) :
    runNegative (some (-(m : Int))) (some (b : Int)) xs
      = .ok (pySlice xs (some (-(m : Int))) (some (b : Int)) 1) := by
  rw [pySlice_one, adj_neg _ _ _ hm, adj_ofNat]
  have h1 : ¬ (-(m : Int) ≥ 0) := by omega
  have hm' : (- -(m : Int)).toNat = m := by omega
  have h2 : ¬ ((b : Int) ≤ -(m : Int)) := by omega
  have h3 : ¬ ((b : Int) < 0) := by omega
  have h4 : ((b : Int) - -(m : Int)).toNat = b + m := by omega
  simp only [runNegative, h1, if_false, hm', h2, h3, h4]
  rw [posStopLoop_spec m (b + m) xs 0 [] (Nat.zero_le _), Nat.zero_add]
  by_cases hlong : b + m < xs.length
  · have : min b xs.length - (xs.length - m) = 0 := by omega
    simp [hlong, this]
  · rw [if_neg hlong]
    have hd : xs.foldl (dqAppend m) [] = dqOfFlow m xs := rfl
    simp only [hd, dqOfFlow_spec, popLeftUpTo_spec, List.length_drop]
    have hc : ((b : Int) - ((xs.length : Int) - ((xs.length - (xs.length - m) : Nat) : Int))).toNat
        = b - (xs.length - m) := by omega
    rw [hc]
    by_cases hb : b ≤ xs.length
    · rw [Nat.min_eq_left hb]
    · rw [Nat.min_eq_right (by omega), List.take_of_length_le (by simp; omega),
        List.take_of_length_le (by simp)]

/-- **`Slice._run_negative_islice` is list slicing**, all seven branches: whenever at least one of
`start`, `stop` is negative (the only way `Slice.__init__` selects this generator), it yields exactly
`xs[start:stop]` and never lets an `IndexError` from a deque escape. -/
theorem runNegative_eq_pySlice (start stop : Option Int) (h : HasNeg start stop) (xs : List α) :
    runNegative start stop xs = .ok (pySlice xs start stop 1) := by
  cases start with
  | none =>
    rcases h with ⟨i, hi, _⟩ | ⟨i, rfl, hi⟩
    · cases hi
    · obtain ⟨k, hk, rfl⟩ := neg_witness i hi
      exact runNegative_none_neg k hk xs
  | some a =>
    by_cases ha : a < 0
    · obtain ⟨m, hm, rfl⟩ := neg_witness a ha
      cases stop with
      | none => exact runNegative_neg_none m hm xs
      | some j =>
        by_cases hj : j < 0
        · obtain ⟨k, hk, rfl⟩ := neg_witness j hj
          exact runNegative_neg_neg m k hm hk xs
        · obtain ⟨b, rfl⟩ := nonneg_witness j hj
          exact runNegative_neg_pos m b hm xs
    · obtain ⟨a', rfl⟩ := nonneg_witness a ha
      rcases h with ⟨i, hi, hneg⟩ | ⟨i, rfl, hi⟩
      · cases hi; omega
      · obtain ⟨k, hk, rfl⟩ := neg_witness i hi
        exact runNegative_pos_neg a' k hk xs

example : HasNeg (some (-5)) (some 6) := Or.inl ⟨-5, rfl, by decide⟩
example : runNegative (some (-5)) (some 6) [0, 1, 2, 3, 4, 5, 6, 7] = .ok [3, 4, 5] := by decide

theorem hasNeg_iff (start stop : Option Int) :
    HasNeg start stop ↔ ¬ ((noneOrNonneg start && noneOrNonneg stop) = true) := by
  unfold HasNeg
  cases start <;> cases stop <;> simp [noneOrNonneg] <;> omega

/-- `.negative` is only ever built with a negative index -/
theorem mkSlice_negative_hasNeg (start stop step a b : Option Int) (s : Nat)
    (h : mkSlice start stop step = .negative a b s) : a = start ∧ b = stop ∧ HasNeg start stop := by
  unfold mkSlice at h
  by_cases hc : (noneOrNonneg start && noneOrNonneg stop) = true
  · by_cases hst : noneOrNonneg step = true
    · simp only [hc, hst, Bool.and_true, if_true] at h
      by_cases h0 : step = some 0
      · simp only [h0, if_true] at h
        cases h
      · simp only [h0, if_false] at h
        cases h
    · have hs : ∃ t, step = some t ∧ t < 0 := by
        cases step with
        | none => simp [noneOrNonneg] at hst
        | some t => exact ⟨t, rfl, by simpa [noneOrNonneg] using hst⟩
      obtain ⟨t, rfl, ht⟩ := hs
      have : mkSlice start stop (some t) = .valueError := slice_rejects_bad_step start stop t (by omega)
      unfold mkSlice at this
      rw [this] at h
      cases h
  · have hc' : ¬ ((noneOrNonneg start && noneOrNonneg stop && noneOrNonneg step) = true) := by
      intro h'; apply hc; simp only [Bool.and_eq_true] at h' ⊢; exact h'.1
    rw [if_neg hc'] at h
    by_cases hst : step.getD 1 ≤ 0
    · simp only [hst, if_true] at h
      cases h
    · simp only [hst, if_false] at h
      cases h
      exact ⟨rfl, rfl, (hasNeg_iff start stop).2 hc⟩

theorem pySlice_step (xs : List α) (start stop : Option Int) (s : Nat) :
    pySlice xs start stop s = everyNth s (pySlice xs start stop 1) := by
  rw [pySlice_one]; rfl

private theorem adj_start_nonneg (n : Nat) (start : Option Int) (h : noneOrNonneg start = true) :
    adj n (some ((start.getD 0).toNat : Int)) 0 = adj n start 0 := by
  cases start with
  | none => simp [adj]
  | some a =>
    have : 0 ≤ a := by simpa [noneOrNonneg] using h
    have e : ((a.toNat : Nat) : Int) = a := by omega
    simp only [Option.getD_some, e]

private theorem adj_stop_nonneg (n : Nat) (stop : Option Int) (h : noneOrNonneg stop = true) :
    adj n ((stop.map Int.toNat).map Int.ofNat) n = adj n stop n := by
  cases stop with
  | none => rfl
  | some a =>
    have : 0 ≤ a := by simpa [noneOrNonneg] using h
    have e : Int.ofNat a.toNat = a := by simp only [Int.ofNat_eq_natCast]; omega
    simp only [Option.map_some, e]

/-- **`Slice(start, stop, step).run(xs)` yields exactly `xs[start:stop:step]`**, for every
combination of `None`, non-negative and negative `start`/`stop`, every step that is `None` or `≥ 1`,
and every finite flow; in particular no exception. -/
theorem slice_run_eq_pyslice (start stop step : Option Int) (hs : GoodStep step) (xs : List α) :
    sliceRun (mkSlice start stop step) xs
      = some (.ok (pySlice xs start stop ((step.getD 1).toNat))) := by
  have h1 := goodStep_getD hs
  have h1n : 1 ≤ (step.getD 1).toNat := by omega
  rw [mkSlice_good start stop step hs]
  by_cases hc : (noneOrNonneg start && noneOrNonneg stop) = true
  · rw [if_pos hc]
    simp only [Bool.and_eq_true] at hc
    simp only [sliceRun]
    rw [islice_eq_pySlice xs _ _ _ h1n]
    unfold pySlice
    simp only [adj_start_nonneg _ _ hc.1, adj_stop_nonneg _ _ hc.2]
  · rw [if_neg hc]
    have hneg := (hasNeg_iff start stop).2 hc
    simp only [sliceRun, runNegative_eq_pySlice start stop hneg xs]
    rw [pySlice_step xs start stop (step.getD 1).toNat]
    split
    · next h => rw [h, everyNth_one]
    · rfl

example : sliceRun (mkSlice (some (-6)) (some 6) (some 2)) [10, 11, 12, 13, 14, 15, 16]
    = some (.ok [11, 13, 15]) := by decide

/-! ### `Slice.fill_into` -/

/-- **`fill_into` fills exactly `xs[start:stop:step]`** (non-negative arguments, `step ≥ 1`), when
the flow `xs` is fed value by value until it ends or `LenaStopFill` is raised. -/
theorem fill_into_eq (start : Nat) (stop : Option Nat) (step : Nat) (hs : 1 ≤ step) (xs : List α) :
    (fillAll stop step (fillInit start) 0 xs).1
      = pySlice xs (some (start : Int)) (stop.map Int.ofNat) step := by
  rw [fillAll_values stop step hs xs start 0 _ (fillGood_init stop step start),
    ← islice_eq_pySlice xs start stop step hs]
  rfl

/-- **`LenaStopFill` only when nothing later could be selected**: if it is raised while value number
`i` is being filled, then `stop` is a number `st` and every selected index `start + k*step` that is
`≥ i` is already `≥ st`, i.e. not selected. -/
theorem stopfill_only_when_done (start : Nat) (stop : Option Nat) (step : Nat) (hs : 1 ≤ step)
    (xs : List α) (i : Nat) (h : (fillAll stop step (fillInit start) 0 xs).2 = some i) :
    ∃ st, stop = some st ∧ ∀ k, i ≤ start + k * step → st ≤ start + k * step := by
  obtain ⟨st, k0, h1, h2, _, h4⟩ :=
    fillAll_stop stop step hs xs start 0 _ (fillGood_init stop step start) i h
  refine ⟨st, h1, ?_⟩
  intro k hk
  by_cases hkk : k0 ≤ k
  · have := Nat.mul_le_mul_right step hkk
    omega
  · rcases h4 with rfl | h4
    · omega
    · have : k ≤ k0 - 1 := by omega
      have := Nat.mul_le_mul_right step this
      omega

example : fillAll (some 6) 2 (fillInit 1) 0 [0, 1, 2, 3, 4, 5, 6, 7, 8] = ([1, 3, 5], some 6) := by decide
example : fillAll (none : Option Nat) 3 (fillInit 0) 0 [0, 1, 2, 3, 4] = ([0, 3], none) := by decide

/-! ### `RunningChunkBy` -/

/-- **non-recursive characterisation of the sliding windows**: the `len − cs + 1` lists
`xs[i : i+cs]`, and nothing when the flow is shorter than `cs` -/
theorem windows_spec (cs : Nat) : ∀ (xs : List α),
    windows cs xs = if xs.length < cs then []
      else (List.range (xs.length - cs + 1)).map (fun i => (xs.drop i).take cs)
  | [] => by
    by_cases h : cs = 0
    · subst h; simp [windows]
    · have h1 : (cs == 0) = false := by simp [h]
      have h2 : 0 < cs := by omega
      simp [windows, h1, h2]
  | x :: xs => by
    rw [windows]
    by_cases h : (x :: xs).length < cs
    · simp only [h, if_true]
    · simp only [h, if_false]
      rw [windows_spec cs xs]
      simp only [List.length_cons] at h ⊢
      by_cases h' : xs.length < cs
      · have : xs.length + 1 - cs + 1 = 1 := by omega
        simp [h', this]
      · have : xs.length + 1 - cs + 1 = (xs.length - cs + 1) + 1 := by omega
        rw [if_neg h', this, List.range_succ_eq_map (n := xs.length - cs + 1)]
        simp only [List.map_cons, List.map_map, List.drop_zero]
        congr 1

theorem windows_short (cs : Nat) (xs : List α) (h : xs.length < cs) : windows cs xs = [] := by
  rw [windows_spec, if_pos h]

/-- the loop of `RunningChunkBy.run` once the deque is full -/
theorem chunkLoop_spec (cs : Nat) (hcs : 1 ≤ cs) : ∀ (rest chunk : List α), chunk.length = cs →
    chunkLoop cs chunk rest = windows cs (chunk ++ rest)
  | [], chunk, hl => by
    cases chunk with
    | nil => simp at hl; omega
    | cons c t =>
      simp only [List.length_cons] at hl
      have ht : windows cs t = [] := windows_short cs t (by omega)
      have hlen : ¬ ((c :: t).length < cs) := by simp; omega
      rw [List.append_nil, windows, if_neg hlen, ht, List.take_of_length_le (by simp; omega)]
      simp [chunkLoop, hl]
  | v :: r, chunk, hl => by
    cases chunk with
    | nil => simp at hl; omega
    | cons c t =>
      simp only [List.length_cons] at hl
      have hd : dqAppend cs (c :: t) v = t ++ [v] := by
        have : t.length + 1 + 1 - cs = 1 := by omega
        simp [dqAppend, this]
      have hlen : ¬ ((c :: (t ++ v :: r)).length < cs) := by simp; omega
      have htake : (c :: (t ++ v :: r)).take cs = c :: t := by
        rw [← List.cons_append, List.take_append_of_le_length (by simp; omega),
          List.take_of_length_le (by simp; omega)]
      rw [chunkLoop, hd, chunkLoop_spec cs hcs r (t ++ [v]) (by simp; omega)]
      rw [List.cons_append, windows, if_neg hlen, htake]
      simp

/-- **`RunningChunkBy(cs).run(xs)` yields the sliding windows of size `cs`** (`cs ≥ 1`): `len − cs + 1`
of them, none when the flow is shorter than `cs`. -/
theorem chunks_are_windows (cs : Nat) (hcs : 1 ≤ cs) (xs : List α) :
    runningChunkBy cs xs = windows cs xs := by
  unfold runningChunkBy
  have hdq : dqOfFlow cs (xs.take cs) = xs.take cs := by
    rw [dqOfFlow_spec]
    have : (xs.take cs).length - cs = 0 := by simp; omega
    rw [this, List.drop_zero]
  rw [hdq]
  by_cases h : xs.length < cs
  · rw [List.drop_eq_nil_of_le (by omega), List.take_of_length_le (by omega), windows_short cs xs h]
    have : (xs.length == cs) = false := by simp; omega
    simp [chunkLoop, this]
  · rw [chunkLoop_spec cs hcs _ _ (by simp; omega), List.take_append_drop]

example : runningChunkBy 3 [0, 1, 2, 3, 4] = [[0, 1, 2], [1, 2, 3], [2, 3, 4]] := by decide
example : runningChunkBy 3 [0, 1] = [] := by decide

/-! ### One instance used more than once (`Model/C17Sess`)

The property holds *per call*: "Chain, CountFrom, Reverse, Slice.run, RunningChunkBy equal their Python
reference" means every run / call of an instance does, whatever was done with the instance before and
whatever other generators of the same instance are alive. -/

section Sessions
variable {σ ι γ β : Type}

/-- **Calls of one instance are independent** (generic form).  If creating a generator leaves the
instance state unchanged, then in every session — any number of runs/calls of the instance, their
generators advanced in any interleaving — the values generator number `g` has yielded are the first `k`
values of a generator created by the same call on a *fresh* instance, where `k` is the number of
`next(g)` calls answered so far and `x` the argument (flow) of the call that created `g`. -/
theorem session_calls_independent (E : GenElem σ ι γ β) (hE : ∀ c x, (E.spawn c x).2 = c)
    (c : σ) (ops : List (GenOp ι)) (g : Nat) (x : ι) (hx : (startsOf ops)[g]? = some x) :
    valuesOf g (sessEvents E { inst := c, gens := [] } ops)
      = genTake E.next (nextsOf g (sessEvents E { inst := c, gens := [] } ops)) (E.spawn c x).1 := by
  rw [sess_values E hE ops { inst := c, gens := [] } g]
  simp [genOf, hx, genTakeO]

/-- a generator that was never created yields nothing -/
theorem session_no_generator (E : GenElem σ ι γ β) (hE : ∀ c x, (E.spawn c x).2 = c)
    (c : σ) (ops : List (GenOp ι)) (g : Nat) (hx : (startsOf ops)[g]? = none) :
    valuesOf g (sessEvents E { inst := c, gens := [] } ops) = [] := by
  rw [sess_values E hE ops { inst := c, gens := [] } g]
  simp [genOf, hx, genTakeO]

end Sessions

/-- **`CountFrom.__call__` does not depend on the history**: after any session on `CountFrom(start, step)`
the instance is as constructed, so the next call returns a counter at `start`. -/
theorem countfrom_call_fresh (start step : Int) (ops : List (GenOp Unit)) :
    (sessAfter countElem (countSess start step) ops).inst.call.1 = { cur := start, step := step } := by
  rw [sessAfter_inst countElem (fun _ _ => rfl)]
  rfl

/-- **every call of one `CountFrom(start, step)` instance is `itertools.count(start, step)` from its
beginning**: in any session (the instance called any number of times, the generators advanced in any
interleaving) generator number `g` has yielded `start, start+step, …` — exactly as many values as `next(g)`
was called. -/
theorem countfrom_calls_independent (start step : Int) (ops : List (GenOp Unit)) (g : Nat)
    (hg : g < (startsOf ops).length) :
    valuesOf g (sessEvents countElem (countSess start step) ops)
      = countFrom start step (nextsOf g (sessEvents countElem (countSess start step) ops)) := by
  have hx : (startsOf ops)[g]? = some () := by
    rw [List.getElem?_eq_getElem hg]
  rw [countSess, session_calls_independent countElem (fun _ _ => rfl) _ ops g () hx]
  exact genTake_count step _ start

/-- a `CountFrom` generator never raises `StopIteration` -/
theorem countfrom_never_stops (ops : List (GenOp Unit)) :
    ∀ (s : Sess CountFromInst CountGen) (g : Nat), GenEv.stop g ∉ sessEvents countElem s ops := by
  induction ops with
  | nil => intro s g; simp [sessEvents]
  | cons op ops ih =>
    intro s g
    cases op with
    | start x => simpa only [sessEvents, sessStep] using ih _ g
    | next i =>
      cases hgi : s.gens[i]? with
      | none => simpa only [sessEvents, sessStep, hgi] using ih _ g
      | some gi =>
        simp only [sessEvents, sessStep, hgi, countElem, List.mem_cons, reduceCtorEq, false_or]
        exact ih _ g

example : sessEvents countElem (countSess 0 1) [.start (), .next 0, .next 0, .start (), .next 1, .next 0]
    = [.value 0 0, .value 0 1, .value 1 0, .value 0 2] := by decide

/-- **`Slice.run` on successive (or simultaneously open) flows**: every run of one `Slice(start, stop,
step)` instance yields the slice of *its own* flow `xs` — the first `k` values of `xs[start:stop:step]`
after `k` answered `next` calls, `StopIteration` included (so it stops exactly when the slice is
exhausted). -/
theorem slice_runs_independent {α : Type} (start stop step : Option Int) (hs : GoodStep step)
    (ops : List (GenOp (List α))) (g : Nat) (xs : List α) (hx : (startsOf ops)[g]? = some xs) :
    valuesOf g (sessEvents sliceElem { inst := mkSlice start stop step, gens := [] } ops)
      = (pySlice xs start stop ((step.getD 1).toNat)).take
          (nextsOf g (sessEvents sliceElem { inst := mkSlice start stop step, gens := [] } ops)) := by
  rw [session_calls_independent sliceElem (fun _ _ => rfl) _ ops g xs hx, sliceElem, genTake_list]
  simp only [listElem, sliceOut, slice_run_eq_pyslice start stop step hs xs]

/-- the same for `Reverse` -/
theorem reverse_runs_independent {α : Type} (ops : List (GenOp (List α))) (g : Nat) (xs : List α)
    (hx : (startsOf ops)[g]? = some xs) :
    valuesOf g (sessEvents reverseElem { inst := (), gens := [] } ops)
      = xs.reverse.take (nextsOf g (sessEvents reverseElem { inst := (), gens := [] } ops)) := by
  rw [session_calls_independent reverseElem (fun _ _ => rfl) _ ops g xs hx, reverseElem, genTake_list]
  simp only [listElem, reverse_spec]

/-- the same for `RunningChunkBy(cs)`, `cs ≥ 1` -/
theorem chunks_runs_independent {α : Type} (cs : Nat) (hcs : 1 ≤ cs) (ops : List (GenOp (List α))) (g : Nat)
    (xs : List α) (hx : (startsOf ops)[g]? = some xs) :
    valuesOf g (sessEvents chunkElem { inst := cs, gens := [] } ops)
      = (windows cs xs).take (nextsOf g (sessEvents chunkElem { inst := cs, gens := [] } ops)) := by
  rw [session_calls_independent chunkElem (fun _ _ => rfl) _ ops g xs hx, chunkElem, genTake_list]
  simp only [listElem, chunks_are_windows cs hcs]

/-- the same for `Chain(*iterables)` over re-iterable iterables: every call chains all of them -/
theorem chain_calls_independent {α : Type} (xss : List (List α)) (ops : List (GenOp Unit)) (g : Nat)
    (hg : g < (startsOf ops).length) :
    valuesOf g (sessEvents chainElem { inst := xss, gens := [] } ops)
      = xss.flatten.take (nextsOf g (sessEvents chainElem { inst := xss, gens := [] } ops)) := by
  have hx : (startsOf ops)[g]? = some () := by
    rw [List.getElem?_eq_getElem hg]
  rw [session_calls_independent chainElem (fun _ _ => rfl) _ ops g () hx, chainElem, genTake_list]
  simp only [listElem, chain_spec]

example : sessEvents sliceElem { inst := mkSlice (some (-3)) none (some 2), gens := [] }
      [.start [0, 1, 2, 3, 4], .next 0, .start [10, 11, 12], .next 1, .next 0, .next 0, .next 1, .next 1]
    = [.value 0 2, .value 1 10, .value 0 4, .stop 0, .value 1 12, .stop 1] := by decide

/-! ### one `Slice` object: `run` and `fill_into` -/

theorem mkSliceInst_kind {start stop step : Option Int} {c : SliceInst}
    (h : mkSliceInst start stop step = some c) : c.kind = mkSlice start stop step := by
  unfold mkSliceInst at h
  split at h
  · cases h
  · next heq => cases h; exact heq.symm
  · next heq => cases h; exact heq.symm

theorem SliceInst.after_kind {α : Type} : ∀ (ops : List (SliceOp α)) (c : SliceInst), (c.after ops).kind = c.kind
  | [], _ => rfl
  | .run xs :: ops, c => by
    simp only [SliceInst.after, SliceInst.step]
    exact SliceInst.after_kind ops c
  | .fill v :: ops, c => by
    simp only [SliceInst.after, SliceInst.step]
    rw [SliceInst.after_kind ops]
    split <;> rfl

/-- **`Slice.run` does not depend on what was done with the object before** (earlier runs on other
flows, `fill_into` calls, in any order): it yields `xs[start:stop:step]` of the flow it is given. -/
theorem slice_run_history_independent {α : Type} (start stop step : Option Int) (hs : GoodStep step)
    (c : SliceInst) (hc : mkSliceInst start stop step = some c) (ops : List (SliceOp α)) (xs : List α) :
    ((c.after ops).step (.run xs)).2
      = .ran (some (.ok (pySlice xs start stop ((step.getD 1).toNat)))) := by
  simp only [SliceInst.step, SliceInst.after_kind, mkSliceInst_kind hc,
    slice_run_eq_pyslice start stop step hs xs]

example : mkSliceInst (some 1) (some 4) (some 2) = some ⟨.islice 1 (some 4) 2, fillInit 1⟩ := by decide

/-- the outcomes of the `fill_into` calls of a history -/
def fillEvs {α : Type} : List (SliceEv α) → List FillOut
  | [] => []
  | .fill o :: es => o :: fillEvs es
  | _ :: es => fillEvs es

/-- the values given to `fill_into` in a history -/
def fillVals {α : Type} : List (SliceOp α) → List α
  | [] => []
  | .fill v :: ops => v :: fillVals ops
  | .run _ :: ops => fillVals ops

/-- **`fill_into` has state, and only its own**: the outcomes of the `fill_into` calls of any history are
those of feeding the same values with no `run` in between. -/
theorem slice_fill_ignores_runs {α : Type} (a : Nat) (b : Option Nat) (s : Nat) :
    ∀ (ops : List (SliceOp α)) (c : SliceInst), c.kind = .islice a b s →
      fillEvs (c.events ops) = fillTrace b s c.fill (fillVals ops)
  | [], _, _ => rfl
  | .run xs :: ops, c, hk => by
    simp only [SliceInst.events, SliceInst.step, fillEvs, fillVals]
    exact slice_fill_ignores_runs a b s ops c hk
  | .fill v :: ops, c, hk => by
    simp only [SliceInst.events, SliceInst.step, hk, fillEvs, fillVals, fillTrace]
    rw [slice_fill_ignores_runs a b s ops _ rfl]

/-- **`LenaStopFill` persists**: once raised, every later `fill_into` raises it again (and fills nothing) -/
theorem stopfill_persists {α : Type} (stop : Option Nat) (step : Nat) (s : FillState)
    (h : (fillInto stop step s).2 = .stopFill) :
    ∀ (xs : List α), fillTrace stop step s xs = List.replicate xs.length .stopFill
  | [] => rfl
  | x :: xs => by
    simp only [fillTrace, List.length_cons, List.replicate_succ, h, fillInto_stop_state stop step s h]
    rw [stopfill_persists stop step s h xs]

/-- a caller that goes on after `LenaStopFill` fills the same values as one that stops -/
theorem fillTrace_values {α : Type} (stop : Option Nat) (step : Nat) :
    ∀ (xs : List α) (s : FillState) (i : Nat),
      filledOf xs (fillTrace stop step s xs) = (fillAll stop step s i xs).1
  | [], _, _ => rfl
  | x :: xs, s, i => by
    cases ho : (fillInto stop step s).2 with
    | stopFill =>
      have h1 := stopfill_persists stop step s ho (x :: xs)
      have h2 : fillInto stop step s = (s, .stopFill) :=
        Prod.ext (fillInto_stop_state stop step s ho) ho
      rw [h1, filledOf_stops]
      simp only [fillAll, h2]
    | filled =>
      have h2 : fillInto stop step s = ((fillInto stop step s).1, .filled) := by rw [← ho]
      rw [fillAll, h2]
      simp only [fillTrace, ho, filledOf]
      rw [fillTrace_values stop step xs _ (i + 1)]
    | skipped =>
      have h2 : fillInto stop step s = ((fillInto stop step s).1, .skipped) := by rw [← ho]
      rw [fillAll, h2]
      simp only [fillTrace, ho, filledOf]
      rw [fillTrace_values stop step xs _ (i + 1)]

/-- **`fill_into` fills exactly `xs[start:stop:step]` also when the caller ignores `LenaStopFill`** and
feeds the whole flow -/
theorem fill_trace_eq {α : Type} (start : Nat) (stop : Option Nat) (step : Nat) (hs : 1 ≤ step) (xs : List α) :
    filledOf xs (fillTrace stop step (fillInit start) xs)
      = pySlice xs (some (start : Int)) (stop.map Int.ofNat) step := by
  rw [fillTrace_values stop step xs (fillInit start) 0, fill_into_eq start stop step hs xs]

example : fillTrace (some 4) 2 (fillInit 1) [0, 1, 2, 3, 4, 5, 6]
    = [.skipped, .filled, .skipped, .filled, .stopFill, .stopFill, .stopFill] := by decide

end Lena.C17
