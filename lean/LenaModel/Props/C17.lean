import LenaModel.Model.C17
import LenaModel.Lemmas.C17
/-! # C17 — property theorems (flow iterators equal their Python reference) -/

namespace Lena.C17

variable {α : Type}

/-! ### Reverse, Chain, CountFrom -/

theorem popAll_spec : ∀ (n : Nat) (xs : List α), xs.length < n → popAll n xs = xs.reverse
  | 0, xs, h => by omega
  | n + 1, xs, h => by
    rcases List.eq_nil_or_concat xs with rfl | ⟨l, a, rfl⟩
    · simp [popAll]
    · have hl : l.length < n := by simp at h; omega
      simp [popAll, popAll_spec n l hl]

/-- `Reverse().run(xs)` yields `reversed(list(xs))` -/
theorem reverse_spec (xs : List α) : reverseRun xs = xs.reverse :=
  popAll_spec _ xs (by omega)

/-- `Chain(*its)()` yields `itertools.chain(*its)`: the concatenation -/
theorem chain_spec (xss : List (List α)) : chainCall xss = xss.flatten := by
  induction xss with
  | nil => rfl
  | cons x xs ih => simp [chainCall, ih]

/-- the `i`-th value of `CountFrom(start, step)` is `start + i*step` -/
theorem countfrom_spec (start step : Int) (n : Nat) :
    countFrom start step n = (List.range n).map (fun (i : Nat) => start + (i : Int) * step) := by
  induction n generalizing start with
  | zero => rfl
  | succ n ih =>
    rw [countFrom, ih, List.range_succ_eq_map]
    simp only [List.map_cons, List.map_map]
    congr 1
    · simp
    · apply List.map_congr_left
      intro i _
      simp only [Function.comp]
      rw [Int.natCast_succ, Int.add_mul]
      omega

/-! ### Slice construction -/

/-- every step that is not a positive integer (or None) is rejected at construction -/
theorem slice_rejects_bad_step (start stop : Option Int) (s : Int) (hs : s ≤ 0) :
    mkSlice start stop (some s) = .valueError := by
  unfold mkSlice
  by_cases h0 : s = 0
  · subst h0
    cases start <;> cases stop <;> simp <;> (try split) <;> simp_all
  · have : s < 0 := by omega
    have hn : ¬ (s ≥ 0) := by omega
    simp [hn, hs]

/-! ### `pySlice` in transparent index form -/

/-- Element `k` of `xs[start:stop:step]` is `xs[a + k*step]` as long as `a + k*step < b`, where `a`, `b`
are the clamped bounds; there are no further elements. -/
theorem pySlice_getElem? (xs : List α) (start stop : Option Int) (step : Nat) (hs : 1 ≤ step) (k : Nat) :
    (pySlice xs start stop step)[k]? =
      if adj xs.length start 0 + k * step < adj xs.length stop xs.length
      then xs[adj xs.length start 0 + k * step]? else none := by
  unfold pySlice
  simp only []
  rw [everyNth_getElem? step hs, List.getElem?_take, List.getElem?_drop]
  by_cases h : adj xs.length start 0 + k * step < adj xs.length stop xs.length
  · rw [if_pos h, if_pos (by omega)]
  · rw [if_neg h, if_neg (by omega)]

example : pySlice [10, 11, 12, 13, 14, 15, 16] (some (-6)) (some 6) 2 = [11, 13, 15] := by decide

/-! ### `itertools.islice` is slicing -/

/-- `islice(xs, a, b, s)` for non-negative `a`, `b` (or `b = None`) and `s ≥ 1` is `xs[a:b:s]` -/
theorem islice_eq_pySlice (xs : List α) (a : Nat) (b : Option Nat) (s : Nat) (hs : 1 ≤ s) :
    islice xs a b s = pySlice xs (some (a : Int)) (b.map Int.ofNat) s := by
  unfold islice
  rw [isliceGo_spec b s hs xs a 0 (Nat.zero_le _)]
  unfold pySlice
  simp only [Nat.sub_zero]
  cases b with
  | none =>
    have : adj xs.length (none : Option Int) xs.length = xs.length := rfl
    simp only [takeOpt, Option.map_none, adj_ofNat, this, window_clamp_none]
  | some b =>
    simp only [takeOpt, Option.map_some, Int.ofNat_eq_natCast, adj_ofNat, window_clamp]

example : islice [0, 1, 2, 3, 4, 5, 6, 7] 1 (some 6) 2 = [1, 3, 5] := by decide

/-! ### the negative-index generator is slicing -/

/-- at least one of `start`, `stop` is a negative integer: what `Slice.__init__` routes to
`_run_negative_islice` -/
def HasNeg (start stop : Option Int) : Prop :=
  (∃ i, start = some i ∧ i < 0) ∨ (∃ i, stop = some i ∧ i < 0)

theorem pySlice_one (xs : List α) (start stop : Option Int) :
    pySlice xs start stop 1
      = (xs.drop (adj xs.length start 0)).take (adj xs.length stop xs.length - adj xs.length start 0) := by
  unfold pySlice
  simp only [everyNth_one]

private theorem neg_witness (i : Int) (h : i < 0) : ∃ k : Nat, 0 < k ∧ i = -(k : Int) :=
  ⟨(-i).toNat, by omega, by omega⟩

private theorem nonneg_witness (i : Int) (h : ¬ i < 0) : ∃ k : Nat, i = (k : Int) :=
  ⟨i.toNat, by omega⟩

/-- branch `start is None` (stop = −k): all values except the last `k` -/
theorem runNegative_none_neg (k : Nat) (hk : 0 < k) (xs : List α) :
    runNegative none (some (-(k : Int))) xs = .ok (pySlice xs none (some (-(k : Int))) 1) := by
  rw [pySlice_one, adj_neg _ _ _ hk]
  have h0 : adj xs.length (none : Option Int) 0 = 0 := rfl
  have hk' : (- -(k : Int)).toNat = k := by omega
  simp only [runNegative, hk', h0, List.drop_zero, Nat.sub_zero]
  rw [fillDeque_spec k k [] xs (by simp)]
  simp only [List.append_nil]
  by_cases hx : xs.length ≤ k
  · rw [List.drop_eq_nil_of_le hx, lagLoop_nil]
    have : xs.length - k = 0 := by omega
    simp [this]
  · have hne : (xs.take k).reverse ≠ [] := by
      intro h
      have := congrArg List.length h
      simp only [List.length_reverse, List.length_take, List.length_nil] at this
      omega
    rw [lagLoop_spec k _ _ hne (by simp; omega)]
    simp

/-- branch `start ≥ 0`, stop = −k -/
theorem runNegative_pos_neg (a k : Nat) (hk : 0 < k) (xs : List α) :
    runNegative (some (a : Int)) (some (-(k : Int))) xs
      = .ok (pySlice xs (some (a : Int)) (some (-(k : Int))) 1) := by
  rw [pySlice_one, adj_neg _ _ _ hk, adj_ofNat]
  have hk' : (- -(k : Int)).toNat = k := by omega
  have ha : ((a : Int) ≥ 0) := by omega
  have ha' : (a : Int).toNat = a := by omega
  simp only [runNegative, ha, if_true, ha', hk']
  rw [fillDeque_spec k k [] _ (by simp)]
  simp only [List.append_nil, List.length_reverse, List.length_take, List.length_drop]
  by_cases hx : xs.length - a < k
  · have h1 : min k (xs.length - a) < k := by omega
    have h2 : xs.length - k - min a xs.length = 0 := by omega
    rw [if_pos h1, h2]
    simp
  · have h1 : ¬ (min k (xs.length - a) < k) := by omega
    have hne : ((xs.drop a).take k).reverse ≠ [] := by
      intro h
      have := congrArg List.length h
      simp only [List.length_reverse, List.length_take, List.length_drop, List.length_nil] at this
      omega
    rw [if_neg h1, lagLoop_spec k _ _ hne (by simp; omega), List.reverse_reverse, List.take_append_drop]
    have h3 : min a xs.length = a := by omega
    have h4 : xs.length - k - a = xs.length - a - k := by omega
    have h5 : xs.length - (a + k) = xs.length - a - k := by omega
    simp only [h3, h4, h5, List.length_drop, List.drop_drop]

end Lena.C17
