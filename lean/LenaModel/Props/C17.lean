import LenaModel.Model.C17
/-! # C17 — property theorems (flow iterators equal their Python reference) -/

namespace Lena.C17

variable {α : Type}

/-! ### Reverse, Chain, CountFrom -/

theorem popAll_spec : ∀ (n : Nat) (xs : List α), xs.length < n → popAll n xs = xs.reverse
  | 0, xs, h => by omega
  | n + 1, xs, h => by
    rcases List.eq_nil_or_concat xs with rfl | ⟨l, a, rfl⟩
    · simp [popAll]
    · have hl : l.length < n := by simp at h; omega
      simp [popAll, popAll_spec n l hl]

/-- `Reverse().run(xs)` yields `reversed(list(xs))` -/
theorem reverse_spec (xs : List α) : reverseRun xs = xs.reverse :=
  popAll_spec _ xs (by omega)

/-- `Chain(*its)()` yields `itertools.chain(*its)`: the concatenation -/
theorem chain_spec (xss : List (List α)) : chainCall xss = xss.flatten := by
  induction xss with
  | nil => rfl
  | cons x xs ih => simp [chainCall, ih]

/-- the `i`-th value of `CountFrom(start, step)` is `start + i*step` -/
theorem countfrom_spec (start step : Int) (n : Nat) :
    countFrom start step n = (List.range n).map (fun (i : Nat) => start + (i : Int) * step) := by
  induction n generalizing start with
  | zero => rfl
  | succ n ih =>
    rw [countFrom, ih, List.range_succ_eq_map]
    simp only [List.map_cons, List.map_map]
    congr 1
    · simp
    · apply List.map_congr_left
      intro i _
      simp only [Function.comp]
      rw [Int.natCast_succ, Int.add_mul]
      omega

/-! ### Slice construction -/

/-- every step that is not a positive integer (or None) is rejected at construction -/
theorem slice_rejects_bad_step (start stop : Option Int) (s : Int) (hs : s ≤ 0) :
    mkSlice start stop (some s) = .valueError := by
  unfold mkSlice
  by_cases h0 : s = 0
  · subst h0
    cases start <;> cases stop <;> simp <;> (try split) <;> simp_all
  · have : s < 0 := by omega
    have hn : ¬ (s ≥ 0) := by omega
    simp [hn, hs]

end Lena.C17
