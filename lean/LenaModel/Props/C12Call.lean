import LenaModel.Props.C12
import LenaModel.Model.C12Call
/-! # C12 — property theorems, calls of `make_value` (`Model/C12Call.lean`)

"Conversions keep every cell once and in order: hist_to_graph yields one point per cell … with that cell's value": the
value of a cell is what the user's `make_value` returns for it; `make_value` is called exactly once per cell, in cell
order, and the point of cell `i` carries the result of the `i`-th call.  For a `make_value` that keeps state this is
observable (a running sum gives the cumulative graph only if there is no other call). -/

namespace Lena.C12
open Lena Lena.NArr

/-- the loop of `hist_to_graph` over any cells `(content, edges)` with any stateful `make_value` from any state:
it never fails; `make_value` is called with exactly the contents of the cells, once each and in cell order (the trace
grows by them); the point appended for cell `i` is its coordinate followed by the result of the `i`-th call; the final
state is the state after exactly these calls.  All cell lists, all `make_value`, all states, all modes. -/
theorem graphLoopSt_once_in_order {σ : Type} (mode : CoordMode) (mk : StMakeValue σ)
    (cs : List (Q × List (Q × Q))) (s : σ) (coords : List (List Q)) (trace : List Q) :
    graphLoopSt mode mk (cs.map (fun p => (NArr.leaf p.1, p.2))) s coords trace =
      .ok (callState mk s (cs.map (·.1)),
           appendPoints mode ((cs.map (·.2)).zip (callResults mk s (cs.map (·.1)))) coords,
           trace ++ cs.map (·.1)) := by
  induction cs generalizing s coords trace with
  | nil => simp [graphLoopSt, callState, callResults, appendPoints]
  | cons c rest ih =>
    simp only [List.map_cons, graphLoopSt, callState, callResults, List.zip_cons_cons, appendPoints]
    rw [ih]
    simp

/-- non-vacuity, and the cumulative graph: bins `[1, 2, 3, 4]` on edges `0..4` with a running sum give the values
`[1, 3, 6, 10]` (not `[2, 4, 7, 11]`, which one more call on the first cell would give), `make_value` having been
called with `1, 2, 3, 4` -/
example : (graphLoopSt .left mvRunSum
    [(.leaf 1, [(0, 1)]), (.leaf 2, [(1, 2)]), (.leaf 3, [(2, 3)]), (.leaf 4, [(3, 4)])] (0, 0) [[], []] []).toOption =
    some ((10, 4), [[0, 1, 2, 3], [1, 3, 6, 10]], [1, 2, 3, 4]) := by decide +kernel

/-- a `make_value` without state is the pure `make_value` of `Model/C12.lean`: the loops agree on the columns (so
every theorem about `graphLoop` / `histToGraph` speaks about `graphLoopSt` / `histToGraphSt` with such a `make_value`) -/
theorem graphLoopSt_pure {σ : Type} (mode : CoordMode) (f : Q → List Q) (cells : List (NArr Q × List (Q × Q)))
    (s : σ) (coords : List (List Q)) (trace : List Q) :
    (graphLoopSt mode (fun s v => (s, f v)) cells s coords trace).map (fun r => r.2.1) =
      graphLoop mode (some f) cells coords := by
  induction cells generalizing coords trace with
  | nil => simp [graphLoopSt, graphLoop, Except.map]
  | cons c rest ih =>
    obtain ⟨b, e⟩ := c
    cases b with
    | leaf v => simp only [graphLoopSt, graphLoop, graphValue]; exact ih _ _
    | node l => simp [graphLoopSt, graphLoop, Except.map]

/-- the state of a `make_value` without state does not change in the loop -/
theorem graphLoopSt_pure_state {σ : Type} (mode : CoordMode) (f : Q → List Q) (cells : List (NArr Q × List (Q × Q)))
    (s : σ) (coords : List (List Q)) (trace : List Q) (r : σ × List (List Q) × List Q)
    (hok : graphLoopSt mode (fun s v => (s, f v)) cells s coords trace = .ok r) : r.1 = s := by
  induction cells generalizing coords trace with
  | nil => simp [graphLoopSt] at hok; subst hok; rfl
  | cons c rest ih =>
    obtain ⟨b, e⟩ := c
    cases b with
    | leaf v => simp only [graphLoopSt] at hok; exact ih _ _ hok
    | node l => simp [graphLoopSt] at hok

/-- `hist_to_graph` with a `make_value` without state is `hist_to_graph` of `Model/C12.lean`: same histogram, same
graph, same exception (so `hist_to_graph_points` holds for it) -/
theorem histToGraphSt_pure {σ : Type} (h : Hist) (f : Q → List Q) (s : σ) (mode : CoordMode)
    (fields : FieldNamesArg) (sc : ScaleArg) :
    (histToGraphSt h (fun s v => (s, f v)) s mode fields sc).map (fun r => (r.1, r.2.1)) =
      histToGraph h (some f) mode fields sc := by
  unfold histToGraphSt histToGraph
  by_cases hmode : mode = .bad
  · simp [hmode, Except.map]
  simp only [hmode, if_false, bind, Except.bind]
  cases fieldNamesTuple fields with
  | error e => simp [Except.map]
  | ok names =>
  simp only
  cases resolveScale h sc with
  | error e => simp [Except.map]
  | ok p =>
  obtain ⟨h1, s'⟩ := p
  simp only
  cases iterBinsWithEdges h1.bins h1.edges with
  | error e => simp [Except.map]
  | ok cells =>
  simp only
  have hp := graphLoopSt_pure (σ := σ) mode f cells s (names.map (fun _ => [])) []
  cases hl : graphLoopSt mode (fun s v => (s, f v)) cells s (names.map (fun _ => [])) [] with
  | error e =>
    rw [hl] at hp
    simp only [Except.map] at hp
    rw [← hp]; simp [Except.map]
  | ok r =>
    obtain ⟨s1, coords, tr⟩ := r
    rw [hl] at hp
    simp only [Except.map] at hp
    rw [← hp]
    simp only
    cases mkGraph coords (.tuple names) s' with
    | error e => simp [Except.map]
    | ok g => simp [Except.map, pure, Except.pure]

/-- `hist_to_graph(hist, make_value, …)` for a well-formed histogram of any dimension and ANY `make_value` with
state, whenever it returns: `make_value` was called with exactly the contents of the cells of `iter_bins(hist.bins)`,
once each and in that order; its state afterwards is the state after exactly these calls; the columns of the graph
are the points `coordinate(cell i) ++ (result of call i)` appended in cell order; the histogram keeps its contents. -/
theorem hist_to_graph_calls {σ : Type} (h h1 : Hist) (wf : h.WF) (mk : StMakeValue σ) (s0 s1 : σ) (mode : CoordMode)
    (fields : FieldNamesArg) (sc : ScaleArg) (g : Graph) (trace : List Q)
    (hok : histToGraphSt h mk s0 mode fields sc = .ok (h1, g, s1, trace)) :
    trace = (cells h.bins).map (·.2) ∧ s1 = callState mk s0 ((cells h.bins).map (·.2)) ∧
      h1.bins = h.bins ∧ h1.edges = h.edges ∧
      ∃ names, fieldNamesTuple fields = .ok names ∧
        mkGraph (appendPoints mode
            (((cells h.bins).map (fun p => cellEdgesRef h.edges.axes p.1)).zip
              (callResults mk s0 ((cells h.bins).map (·.2))))
            (names.map (fun _ => []))) (.tuple names) g.scale = .ok g := by
  unfold histToGraphSt at hok
  by_cases hmode : mode = .bad
  · simp [hmode] at hok
  simp only [hmode, if_false, bind, Except.bind] at hok
  cases hn : fieldNamesTuple fields with
  | error e => simp [hn] at hok
  | ok names =>
  simp only [hn] at hok
  cases e1 : resolveScale h sc with
  | error e => simp [e1] at hok
  | ok q =>
  obtain ⟨h1', s'⟩ := q
  have hres : h1'.bins = h.bins ∧ h1'.edges = h.edges := by
    cases sc with
    | none => simp [resolveScale] at e1; obtain ⟨rfl, rfl⟩ := e1; simp
    | num s => simp [resolveScale] at e1; obtain ⟨rfl, rfl⟩ := e1; simp
    | true =>
      simp only [resolveScale, bind, Except.bind] at e1
      cases hg : getScale h false with
      | error e => simp [hg] at e1
      | ok p =>
        obtain ⟨h2, I⟩ := p
        simp [hg, pure, Except.pure] at e1
        obtain ⟨rfl, rfl⟩ := e1
        have hf := getScale_frame h h2 false I hg
        refine ⟨?_, ?_⟩ <;> rw [hf]
  obtain ⟨hb, he⟩ := hres
  simp only [e1] at hok
  have wf' : h1'.WF := by
    unfold Hist.WF Hist.nbins at *
    rw [hb, he]; exact wf
  rw [iter_bins_with_edges_agrees h1' wf'] at hok
  simp only at hok
  have hcells : (cells h1'.bins).map (fun p => ((NArr.leaf p.2 : NArr Q), cellEdgesRef h1'.edges.axes p.1)) =
      ((cells h1'.bins).map (fun p => (p.2, cellEdgesRef h1'.edges.axes p.1))).map
        (fun p => ((NArr.leaf p.1 : NArr Q), p.2)) := by
    rw [List.map_map]; rfl
  rw [hcells, graphLoopSt_once_in_order] at hok
  simp only [List.map_map, List.nil_append] at hok
  split at hok
  · simp at hok
  · rename_i g' hmk
    simp only [pure, Except.pure, Except.ok.injEq, Prod.mk.injEq] at hok
    obtain ⟨rfl, rfl, rfl, rfl⟩ := hok
    obtain ⟨_, _, gsc, _⟩ := mkGraph_inv _ _ _ _ hmk
    refine ⟨by simp [Function.comp_def, hb], by simp [Function.comp_def, hb], hb, he, names, rfl, ?_⟩
    rw [gsc]
    simpa [Function.comp_def, hb, he] using hmk

/-- non-vacuity of `hist_to_graph_calls`, and the seeded example: the histogram with edges `[0, 1, 3]` and bins
`[1, 2]` and a running sum give the graph with values `[1, 3]`, `make_value` called with `1, 2` -/
example : (histToGraphSt exHist mvRunSum (0, 0) .left (.tuple ["x".toList, "y".toList]) .none).toOption.map
    (fun r => (r.2.1.coords, r.2.2.1, r.2.2.2)) = some ([[0, 1], [1, 3]], (3, 2), [1, 2]) := by decide +kernel

end Lena.C12
