import LenaModel.Model.C01
import LenaModel.Lemmas.C01
import LenaModel.Props.C17
/-! # C01 — Sequence and Source compute the left-to-right composition of their elements

All theorems are about the model `LenaModel/Model/C01.lean` (generic part: any value type `α`, any
element denotations), for ALL argument lists, bracketing trees of any depth and flows (streams of
values that may end in an exception) — nothing is bounded.

What is proved here is the algebra of the conversion (which adapter, no missing-method error) and of
the composition of *stream stages* (`Stage α := Strm α → Except Exc (Strm α)`: every stage gets the
complete upstream stream — values and terminating exception — and says what a draining consumer sees
of its output).  That a chain of lazily interleaved Python generators *is* such a composition is a
modelling decision, validated by the correspondence check and, at the pull level, by
`LenaModel/Bridge/Flow.lean` (`machines_yield_stream_prefix`, `pipeline_den`: the pull-based
generator machines of C02 yield the prefixes of these streams); it is not a theorem of this file.

* `run_eq_fold`                — "Sequence(e1,...,en).run(flow) yields exactly the values obtained by feeding
                                 each element's stream transformation with the output of the previous one"
* `regroup`, `regroup_any_two` — "regrouping the same elements into nested Sequences never changes the result"
* `source_tail`, `source_move` — "... or placing them after the first element of a Source"
* `empty_id`, `nodata_only_id` — "an empty Sequence is the identity"
* `reject_at_construction`, `constructed_sound` — "an argument that cannot be converted to an element is
                                 rejected with LenaTypeError when the sequence is constructed, never later"
* `toTree_build`, `spec_regroup` — the same for programs over the real vocabulary, as the model driver evaluates them
* `run_callables`             — a sequence of plain callables is their composition applied value by value
* `rerunStored_append`, `seq_rerun_append`, `rerun_nil` — a sequence object that is run again (inside RunIf, in a Split
                                 branch) is still the left-to-right composition, each element with its own history
* `splitH_seq`                — the general `Split.run` of the model is the block schedule `splitS` for stateless sequences
* `runIfH_const`, `source_of_sequence`, `mkBranch_error`, `accFillQ_noFloat`, `accComputeQ_noFloat` — ties of the
                                 extended vocabulary (stateful RunIf, Sequence as first element of a Source, Split
                                 branches of type fill_compute, float totals) to the definitions above
* `mapS_mapS`, `mapS_total`, `filterS_total`, `fcSpec_total`, `sliceS_ofList`, `reverseS_ofList` — what "each
                                 element's stream transformation" is for callables, Filter, fill/compute elements,
                                 Slice and Reverse (values in order; which exception comes first) -/

namespace Lena.C01
open Lena.Flow

variable {α : Type}

/-! ### the run of a constructed sequence is the left fold of its elements' transformations -/

/-- **Left-to-right composition.**  If `Sequence(*args)` can be constructed, `run(flow)` is the monadic
left fold over the data arguments (those without `_has_no_data`), in order, of each element's own
stream transformation `Element.den` — its `run` if it has a callable one, else the map of the
callable over the flow, else fill-everything-then-compute — started from `flow`.  The fold is in
`Except`: an exception raised by a call `el.run(flow)` itself ends it; values and exceptions of the
lazy iteration travel inside the stream. -/
theorem run_eq_fold (args : List (Element α)) (s : Seq α) (h : mkSequence args = .ok s) (flow : Strm α) :
    s.run flow = (dataSeq args).foldlM (fun fl e => e.den fl) flow := by
  rw [(mkSequence_ok_inv args s h).2.1, denAll, composeS_map_foldlM]

/-- the same, one element at a time: the first data element transforms the flow, the rest of the
sequence is fed with its output -/
theorem run_cons (e : Element α) (es : List (Element α)) (s : Seq α) (hd : e.hasNoData = false)
    (h : mkSequence (e :: es) = .ok s) (flow : Strm α) :
    ∃ s', mkSequence es = .ok s' ∧ s.run flow = (e.den flow >>= s'.run) := by
  obtain ⟨hok, hrun, -⟩ := mkSequence_ok_inv _ _ h
  obtain ⟨s', h1, h2, -⟩ := mkSequence_ok es ((okAll_cons e es).1 hok).2
  refine ⟨s', h1, ?_⟩
  rw [hrun, h2, denAll_cons]
  have : denAll [e] = e.den := by
    have hds : dataSeq [e] = [e] := by simp [dataSeq, hd]
    simp [denAll, hds, composeS_singleton]
  rw [this]

/-- non-vacuity: a callable (`x ↦ x + 1`), then an element with `run` (keeps the even values),
then a fill/compute element (yields the number of filled values), on the flow `1, 2, 3` -/
example :
    let inc : Element Nat := { call := true, callDen := fun x => .ok (x + 1) }
    let evens : Element Nat := { run := .method, runDen := fun s => .ok (filterS (fun x => .ok (x % 2 == 0)) s) }
    let cnt : Element Nat := { fill := .method, compute := .method, computeDen := fun h => .ok (.ofList [h.length]) }
    (mkSequence [inc, evens, cnt]).toOption.map (fun s => observe (s.run (.ofList [1, 2, 3])))
      = some (.ofList [2]) := by decide

/-- … and with an exception: the second value makes the callable raise, the first one has already
been yielded -/
example :
    let boom : Element Nat := { call := true, callDen := fun x => if x = 2 then .error .valueError else .ok x }
    (mkSequence [boom]).toOption.map (fun s => observe (s.run (.ofList [1, 2, 3])))
      = some ⟨[1], some .valueError⟩ := by decide

/-! ### rejection at construction, never later -/

/-- the exception of an outcome, if it is one (for the examples) -/
def errorOf {β : Type} : Except Exc β → Option Exc
  | .error e => some e
  | .ok _ => none

/-- **Rejected at construction.**  The conversion loop of `Sequence.__init__` raises `LenaTypeError`
exactly when some argument that carries data has no callable `run`, is not callable and has no
callable `fill` and `compute`; the loop raises nothing else.  ("Convertible" is this capability test
of the code — `hasattr`/`callable` —, not a judgement about arity: a class object or `lambda: 1` is
callable, is converted, and its `TypeError` on the first value is the callable's own exception.
Not modelled: `LenaSequence.__init__` also calls `_set_context({})`, which calls `_get_context` of
arguments that have one — the static context is the subject of C13; no generated argument has a
broken one.) -/
theorem reject_at_construction (args : List (Element α)) :
    (mkSequence args = .error .lenaTypeError ↔
        ∃ e ∈ args, e.hasNoData = false ∧ e.convertible = false) ∧
    (∀ err, mkSequence args = .error err → err = .lenaTypeError) := by
  have key : ¬ okAll args ↔ ∃ e ∈ args, e.hasNoData = false ∧ e.convertible = false := by
    simp only [okAll, Classical.not_forall]
    constructor
    · rintro ⟨e, he, hd, hc⟩; exact ⟨e, he, hd, by simpa using hc⟩
    · rintro ⟨e, he, hd, hc⟩; exact ⟨e, he, hd, by simp [hc]⟩
  refine ⟨⟨fun h => key.1 (mkSequence_error_inv _ _ h).2, fun h => mkSequence_not_ok _ (key.2 h)⟩, ?_⟩
  intro err h
  exact (mkSequence_error_inv _ _ h).1

/-- conversely, a sequence of convertible arguments is always constructed -/
theorem accept_at_construction (args : List (Element α)) :
    (∃ s, mkSequence args = .ok s) ↔ ∀ e ∈ args, e.hasNoData = false → e.convertible = true := by
  constructor
  · rintro ⟨s, h⟩; exact (mkSequence_ok_inv _ _ h).1
  · intro h
    obtain ⟨s, hs, -⟩ := mkSequence_ok args h
    exact ⟨s, hs⟩

/-- what `run` will call on a stored entry exists and is callable -/
def Stored.Sound : Stored α → Prop
  | .asIs e => e.run = .method
  | .adapted .runMethod e => e.run = .method
  | .adapted .callRun e => e.call = true
  | .adapted .fcRun e => e.fill = .method ∧ e.compute = .method

theorem convert_sound (e : Element α) (st : Stored α) (h : convert e = .ok st) : st.Sound := by
  unfold convert mkRun at h
  rw [isFillComputeEl_iff] at h
  cases hr : e.run <;> cases hc : e.call <;> cases hf : e.fill <;> cases hp : e.compute <;>
    simp [hr, hc, hf, hp, Attr.callable, Attr.present] at h <;> subst h <;>
    simp [Stored.Sound, hr, hc, hf, hp]

theorem convertAll_sound : ∀ (es : List (Element α)) (ss : List (Stored α)), convertAll es = .ok ss →
    ∀ st ∈ ss, st.Sound
  | [], ss, h => by simp [convertAll] at h; subst h; simp
  | e :: es, ss, h => by
    simp only [convertAll] at h
    cases hc : convert e with
    | error err => simp [hc] at h
    | ok st =>
      cases hr : convertAll es with
      | error err => simp [hc, hr] at h
      | ok ss' =>
        simp [hc, hr] at h; subst h
        intro st' hst'
        rcases List.mem_cons.1 hst' with rfl | h'
        · exact convert_sound e _ hc
        · exact convertAll_sound es ss' hr st' h'

theorem Stored.soundB_iff (st : Stored α) : st.soundB = true ↔ st.Sound := by
  cases st with
  | asIs e => simp [Stored.soundB, Stored.Sound, Attr.callable_iff]
  | adapted m e => cases m <;> simp [Stored.soundB, Stored.Sound, Attr.callable_iff]

/-- **Never later.**  In a constructed sequence every stored entry has the method its `run` will
use (so no `AttributeError`/`TypeError` for a missing or non-callable `run`, `__call__`, `fill`,
`compute` can arise during the run: `run_eq_fold` shows the run is the fold of the denotations
themselves). -/
theorem constructed_sound (args : List (Element α)) (s : Seq α) (h : mkSequence args = .ok s) :
    ∀ st ∈ s.stored, st.Sound := by
  unfold mkSequence at h
  cases hc : convertAll (dataSeq args) with
  | error err => simp [hc] at h
  | ok ss =>
    simp [hc] at h; subst h
    exact convertAll_sound _ _ hc

/-- non-vacuity of both directions: an object with a non-callable attribute `run` and nothing
else is rejected; the same object marked `_has_no_data` is skipped -/
example : errorOf (mkSequence [({ run := .value } : Element Nat)]) = some .lenaTypeError ∧
    errorOf (mkSequence [({ run := .value, hasNoData := true } : Element Nat)]) = none := by
  constructor <;> decide

/-! ### the empty sequence -/

/-- **An empty Sequence is the identity** (on every stream, also one that ends in an exception) -/
theorem empty_id (flow : Strm α) :
    ∃ s, mkSequence ([] : List (Element α)) = .ok s ∧ s.run flow = .ok flow :=
  ⟨{ nargs := 0, stored := [] }, rfl, rfl⟩

/-- so is a sequence whose arguments all carry no data (`SetContext`, …) -/
theorem nodata_only_id (args : List (Element α)) (h : ∀ e ∈ args, e.hasNoData = true) (flow : Strm α) :
    ∃ s, mkSequence args = .ok s ∧ s.run flow = .ok flow := by
  have hd : dataSeq args = [] := by
    simp only [dataSeq, List.filter_eq_nil_iff]
    intro e he; simp [h e he]
  have hok : okAll args := by
    intro e he hn; rw [h e he] at hn; cases hn
  obtain ⟨s, hs, hrun, -⟩ := mkSequence_ok args hok
  exact ⟨s, hs, by rw [hrun, denAll, hd]; rfl⟩

/-! ### regrouping -/

/-- appending argument lists composes the runs: `Sequence(*a, *b).run = Sequence(*b).run ∘ Sequence(*a).run`,
and `Sequence(*a, *b)` can be built exactly when both parts can -/
theorem seq_append (a b : List (Element α)) :
    (∀ s, mkSequence (a ++ b) = .ok s →
        ∃ sa sb, mkSequence a = .ok sa ∧ mkSequence b = .ok sb ∧ ∀ flow, s.run flow = (sa.run flow >>= sb.run)) ∧
    (∀ sa sb, mkSequence a = .ok sa → mkSequence b = .ok sb → ∃ s, mkSequence (a ++ b) = .ok s) := by
  constructor
  · intro s h
    obtain ⟨hok, hrun, -⟩ := mkSequence_ok_inv _ _ h
    obtain ⟨ha, hb⟩ := (okAll_append a b).1 hok
    obtain ⟨sa, h1, h2, -⟩ := mkSequence_ok a ha
    obtain ⟨sb, h3, h4, -⟩ := mkSequence_ok b hb
    exact ⟨sa, sb, h1, h3, fun flow => by rw [hrun, h2, h4, denAll_append]⟩
  · intro sa sb ha hb
    obtain ⟨s, hs, -⟩ := mkSequence_ok (a ++ b)
      ((okAll_append a b).2 ⟨(mkSequence_ok_inv _ _ ha).1, (mkSequence_ok_inv _ _ hb).1⟩)
    exact ⟨s, hs⟩

mutual
/-- building a bracketing tree: the element obtained is convertible exactly when all leaves are,
and then denotes the composition of the leaves in order; a failure is the `LenaTypeError` of an
unconvertible leaf -/
theorem build_spec : ∀ (t : Tree α),
    (∀ e, build t = .ok e →
        (okAll [e] ↔ okAll (flatten t)) ∧ (okAll (flatten t) → denAll [e] = denAll (flatten t))) ∧
    (∀ err, build t = .error err → err = .lenaTypeError ∧ ¬ okAll (flatten t))
  | .leaf e => by
    simp only [build, flatten]
    refine ⟨?_, ?_⟩
    · intro e' h; cases h; exact ⟨Iff.rfl, fun _ => rfl⟩
    · intro err h; cases h
  | .node ts => by
    have ih := buildList_spec ts
    simp only [build, flatten]
    cases hb : buildList ts with
    | error err0 =>
      refine ⟨by intro e h; simp at h, ?_⟩
      intro err h
      simp at h; subst h
      exact ih.2 _ hb
    | ok es =>
      obtain ⟨hiff, hden⟩ := ih.1 es hb
      by_cases hok : okAll es
      · obtain ⟨s, hs, hrun, -⟩ := mkSequence_ok es hok
        refine ⟨?_, by intro err h; simp [hs] at h⟩
        intro e h
        simp [hs] at h; subst h
        refine ⟨⟨fun _ => hiff.1 hok, fun _ => toElement_okAll s⟩, ?_⟩
        intro hflat
        rw [denAll_toElement, hrun, hden hflat]
      · have hs := mkSequence_not_ok es hok
        refine ⟨by intro e h; simp [hs] at h, ?_⟩
        intro err h
        simp [hs] at h; subst h
        exact ⟨rfl, fun hflat => hok (hiff.2 hflat)⟩
theorem buildList_spec : ∀ (ts : List (Tree α)),
    (∀ es, buildList ts = .ok es →
        (okAll es ↔ okAll (flattenList ts)) ∧ (okAll (flattenList ts) → denAll es = denAll (flattenList ts))) ∧
    (∀ err, buildList ts = .error err → err = .lenaTypeError ∧ ¬ okAll (flattenList ts))
  | [] => by
    simp only [buildList, flattenList]
    refine ⟨?_, by intro err h; cases h⟩
    intro es h; cases h; exact ⟨Iff.rfl, fun _ => rfl⟩
  | t :: ts => by
    have iht := build_spec t
    have ihts := buildList_spec ts
    simp only [buildList, flattenList]
    cases hb : build t with
    | error err0 =>
      refine ⟨by intro es h; simp at h, ?_⟩
      intro err h
      simp at h; subst h
      obtain ⟨h1, h2⟩ := iht.2 _ hb
      exact ⟨h1, fun hall => h2 ((okAll_append _ _).1 hall).1⟩
    | ok e =>
      obtain ⟨hiff, hden⟩ := iht.1 e hb
      cases hbl : buildList ts with
      | error err0 =>
        refine ⟨by intro es h; simp at h, ?_⟩
        intro err h
        simp at h; subst h
        obtain ⟨h1, h2⟩ := ihts.2 _ hbl
        exact ⟨h1, fun hall => h2 ((okAll_append _ _).1 hall).2⟩
      | ok es =>
        obtain ⟨hiff', hden'⟩ := ihts.1 es hbl
        refine ⟨?_, by intro err h; simp at h⟩
        intro es' h
        simp at h; subst h
        rw [okAll_cons, okAll_append, hiff, hiff']
        refine ⟨Iff.rfl, ?_⟩
        rintro ⟨h1, h2⟩
        funext s
        rw [denAll_cons, denAll_append, hden h1, hden' h2]
end

/-- **Regrouping.**  For every bracketing of an argument list into nested `Sequence(...)` calls, of
any depth: the nested sequence can be constructed exactly when the flat one
`Sequence(*flatten(...))` can, both fail with `LenaTypeError` otherwise, and their `run`s are the
same function (same values, same exception, raised at the same point). -/
theorem regroup (ts : List (Tree α)) :
    (∀ e, build (.node ts) = .ok e →
        ∃ s, mkSequence (flattenList ts) = .ok s ∧ e.invokeRun = s.run) ∧
    (∀ err, build (.node ts) = .error err →
        err = .lenaTypeError ∧ mkSequence (flattenList ts) = .error .lenaTypeError) ∧
    (∀ s, mkSequence (flattenList ts) = .ok s → ∃ e, build (.node ts) = .ok e ∧ e.invokeRun = s.run) := by
  have hl := buildList_spec ts
  have ok_case : ∀ e, build (.node ts) = .ok e →
      ∃ s, mkSequence (flattenList ts) = .ok s ∧ e.invokeRun = s.run := by
    intro e h
    simp only [build] at h
    cases hb : buildList ts with
    | error err0 => simp [hb] at h
    | ok es =>
      obtain ⟨hiff, hden⟩ := hl.1 es hb
      cases hm : mkSequence es with
      | error err0 => simp [hb, hm] at h
      | ok s0 =>
        simp [hb, hm] at h; subst h
        obtain ⟨hok, hrun, -⟩ := mkSequence_ok_inv _ _ hm
        obtain ⟨s, hs, hrun', -⟩ := mkSequence_ok _ (hiff.1 hok)
        exact ⟨s, hs, by rw [toElement_invokeRun, hrun, hrun', hden (hiff.1 hok)]⟩
  have err_case : ∀ err, build (.node ts) = .error err →
      err = .lenaTypeError ∧ mkSequence (flattenList ts) = .error .lenaTypeError := by
    intro err h
    obtain ⟨h1, h2⟩ := (build_spec (.node ts)).2 err h
    exact ⟨h1, mkSequence_not_ok _ (by simpa [flatten] using h2)⟩
  refine ⟨ok_case, err_case, ?_⟩
  intro s hs
  cases hb : build (.node ts) with
  | error err => rw [(err_case err hb).2] at hs; cases hs
  | ok e =>
    obtain ⟨s', hs', he⟩ := ok_case e hb
    rw [hs] at hs'; cases hs'
    exact ⟨e, rfl, he⟩

/-- two constructor outcomes that no caller can tell apart: the same exception, or sequences
whose `run` is the same function -/
def SameOutcome (a b : Except Exc (Element α)) : Prop :=
  match a, b with
  | .ok x, .ok y => x.invokeRun = y.invokeRun
  | .error e, .error e' => e = e'
  | _, _ => False

/-- **Any two bracketings of the same element list agree.** -/
theorem regroup_any_two (ts us : List (Tree α)) (h : flattenList ts = flattenList us) :
    SameOutcome (build (.node ts)) (build (.node us)) := by
  obtain ⟨t1, t2, -⟩ := regroup ts
  obtain ⟨u1, u2, u3⟩ := regroup us
  unfold SameOutcome
  cases hb : build (.node ts) with
  | error err =>
    obtain ⟨e1, e2⟩ := t2 err hb
    cases hu : build (.node us) with
    | error err' => simp [e1, (u2 err' hu).1]
    | ok e' =>
      obtain ⟨s, hs, -⟩ := u1 e' hu
      rw [← h, e2] at hs; cases hs
  | ok e =>
    obtain ⟨s, hs, he⟩ := t1 e hb
    rw [h] at hs
    obtain ⟨e', he', hrun⟩ := u3 s hs
    simp [he', he, hrun]

/-- non-vacuity: `Sequence(a, Sequence(Sequence(), Sequence(b, c)))` and `Sequence(Sequence(a, b), c)`
have the same flattening, and both are constructed -/
example :
    let a : Element Nat := { call := true, callDen := fun x => .ok (x + 1) }
    let b : Element Nat := { run := .method, runDen := fun s => .ok (reverseS s) }
    let c : Element Nat := { fill := .method, compute := .method, computeDen := fun h => .ok (.ofList h) }
    let t1 : List (Tree Nat) := [.leaf a, .node [.node [], .node [.leaf b, .leaf c]]]
    let t2 : List (Tree Nat) := [.node [.leaf a, .leaf b], .leaf c]
    (build (.node t1)).toOption.map (fun e => observe (e.invokeRun (.ofList [1, 2, 3]))) = some (.ofList [4, 3, 2]) ∧
    (build (.node t2)).toOption.map (fun e => observe (e.invokeRun (.ofList [1, 2, 3]))) = some (.ofList [4, 3, 2]) := by
  constructor <;> decide

/-! ### Source -/

/-- when construction took nothing from the first element, the flow that `Source.__call__` takes
from it is the element's whole flow -/
theorem Src.flow_of_consumed_zero (s : Src α) (h : s.consumed = 0) : s.flow = s.first.sourceFlow := by
  unfold Src.flow Element.sourceFlow
  by_cases hc : s.first.call = true
  · simp [hc]
  · by_cases ho : s.first.onePass = true
    · simp [hc, ho, h]
    · simp [hc, ho]

/-- **Construction does not consume the first element.**  `Source(*args)` keeps its first data
argument as it is and takes no value from it — also when it is a one-pass iterator (a generator
object, `iter(...)`, `map(...)`): nothing is lost before `Source.__call__`. -/
theorem source_construction_consumes_nothing (args : List (Element α)) (src : Src α)
    (h : mkSource args = .ok src) :
    src.consumed = 0 ∧ ∃ rest, dataSeq args = src.first :: rest := by
  unfold mkSource at h
  split at h
  · cases h
  · split at h
    · cases h
    · next first rest hds =>
      split at h
      · cases h
      · split at h
        · split at h
          · cases h
          · cases h; exact ⟨rfl, rest, hds⟩
        · cases h; exact ⟨rfl, rest, hds⟩

/-- **Source.**  `Source(f, *tl)` (with `f` a data element that is callable or iterable) can be
constructed exactly when `Sequence(*tl)` can, fails with the same exception otherwise, and
`Source(f, *tl)()` is `Sequence(*tl).run` applied to the flow of `f`. -/
theorem source_tail (f : Element α) (tl : List (Element α)) (hd : f.hasNoData = false)
    (hf : (f.call || f.hasIter) = true) :
    (∀ src, mkSource (f :: tl) = .ok src →
        ∃ s, mkSequence tl = .ok s ∧ src.call = (f.sourceFlow >>= s.run)) ∧
    (∀ err, mkSource (f :: tl) = .error err → mkSequence tl = .error err) ∧
    (∀ s, mkSequence tl = .ok s → ∃ src, mkSource (f :: tl) = .ok src) := by
  have hds : dataSeq (f :: tl) = f :: dataSeq tl := by simp [dataSeq, hd]
  have bind_ok : ∀ (x : Except Exc (Strm α)), (x >>= fun s => (Except.ok s : Except Exc (Strm α))) = x := by
    intro x; cases x <;> rfl
  cases tl with
  | nil =>
    have hm : mkSource [f] = .ok { first := f, tail := none } := by
      simp [mkSource, dataSeq, hd, hf]
    refine ⟨?_, (by intro err h; rw [hm] at h; cases h), (fun s _ => ⟨_, hm⟩)⟩
    intro src h
    rw [hm] at h; cases h
    refine ⟨{ nargs := 0, stored := [] }, rfl, ?_⟩
    simp only [Src.call]
    rw [Src.flow_of_consumed_zero _ rfl]
    exact (bind_ok _).symm
  | cons t tl' =>
    have hm : mkSource (f :: t :: tl') =
        match mkSequence (dataSeq (t :: tl')) with
        | .error err => .error err
        | .ok s => .ok { first := f, tail := some s } := by
      simp [mkSource, hds, hf]
      rfl
    by_cases hok : okAll (t :: tl')
    · obtain ⟨s, hs, hrun, -⟩ := mkSequence_ok _ hok
      obtain ⟨s', hs', hrun', hn'⟩ := mkSequence_ok _ ((okAll_dataSeq _).2 hok)
      rw [hs'] at hm
      refine ⟨?_, (by intro err h; rw [hm] at h; cases h), (fun _ _ => ⟨_, hm⟩)⟩
      intro src h
      rw [hm] at h; cases h
      refine ⟨s, hs, ?_⟩
      simp only [Src.call]
      rw [Src.flow_of_consumed_zero _ rfl]
      simp only []
      rw [hrun, hrun', denAll_dataSeq]
      by_cases hpos : s'.nargs > 0
      · simp only [hpos, if_true]
        cases f.sourceFlow <;> rfl
      · simp only [hpos, if_false]
        have : dataSeq (t :: tl') = [] := by
          rw [hn'] at hpos
          exact List.eq_nil_of_length_eq_zero (by omega)
        have hid : denAll (t :: tl') = fun s => .ok s := by
          funext s; simp [denAll, this, composeS]
        rw [hid]
        exact (bind_ok _).symm
    · have hs := mkSequence_not_ok _ hok
      have hs' := mkSequence_not_ok _ (fun h => hok ((okAll_dataSeq _).1 h))
      rw [hs'] at hm
      refine ⟨(by intro src h; rw [hm] at h; cases h), ?_, (by intro s h; rw [hs] at h; cases h)⟩
      intro err h
      rw [hm] at h; cases h
      exact hs

/-- **Moving elements between a Source's tail and a following Sequence.**
`Source(f, *a, *b)()` is `Sequence(*b).run(Source(f, *a)())`, and the left side can be constructed
exactly when both objects on the right can. -/
theorem source_move (f : Element α) (a b : List (Element α)) (hd : f.hasNoData = false)
    (hf : (f.call || f.hasIter) = true) :
    (∀ s1 s2 sb, mkSource (f :: (a ++ b)) = .ok s1 → mkSource (f :: a) = .ok s2 → mkSequence b = .ok sb →
        s1.call = (s2.call >>= sb.run)) ∧
    ((∃ s1, mkSource (f :: (a ++ b)) = .ok s1) ↔
        (∃ s2, mkSource (f :: a) = .ok s2) ∧ (∃ sb, mkSequence b = .ok sb)) := by
  obtain ⟨ab1, ab2, ab3⟩ := source_tail f (a ++ b) hd hf
  obtain ⟨a1, a2, a3⟩ := source_tail f a hd hf
  constructor
  · intro s1 s2 sb h1 h2 hb
    obtain ⟨sab, hsab, hc1⟩ := ab1 s1 h1
    obtain ⟨sa, hsa, hc2⟩ := a1 s2 h2
    obtain ⟨sa', sb', hsa', hsb', hrun⟩ := (seq_append a b).1 sab hsab
    rw [hsa] at hsa'; cases hsa'
    rw [hb] at hsb'; cases hsb'
    rw [hc1, hc2]
    cases f.sourceFlow with
    | error err => rfl
    | ok fl => exact hrun fl
  · constructor
    · rintro ⟨s1, h1⟩
      obtain ⟨sab, hsab, -⟩ := ab1 s1 h1
      obtain ⟨sa, sb, hsa, hsb, -⟩ := (seq_append a b).1 sab hsab
      exact ⟨a3 sa hsa, sb, hsb⟩
    · rintro ⟨⟨s2, h2⟩, ⟨sb, hb⟩⟩
      obtain ⟨sa, hsa, -⟩ := a1 s2 h2
      obtain ⟨sab, hsab⟩ := (seq_append a b).2 sa sb hsa hb
      exact ab3 sab hsab

/-- non-vacuity: `Source(gen, inc, cnt)()` with `gen` yielding `5, 6` -/
example :
    let gen : Element Nat := { call := true, genDen := .ok (.ofList [5, 6]) }
    let inc : Element Nat := { call := true, callDen := fun x => .ok (x + 1) }
    let cnt : Element Nat := { fill := .method, compute := .method, computeDen := fun h => .ok (.ofList [h.length]) }
    (mkSource [gen, inc, cnt]).toOption.map (fun s => observe s.call) = some (.ofList [2]) ∧
    (mkSource [gen, inc]).toOption.map (fun s => observe s.call) = some (.ofList [6, 7]) := by
  constructor <;> decide

/-- **A one-pass iterator as first element.**  For `f` a generator object / `iter(...)` / `map(...)`
(iterable, not callable), `Source(f, *tl)()` is `Sequence(*tl).run` on ALL the values of `f`: the
values it yields, in order, then its own end (or exception). -/
theorem source_one_pass (f : Element α) (tl : List (Element α)) (hd : f.hasNoData = false)
    (hc : f.call = false) (hi : f.hasIter = true) (src : Src α) (h : mkSource (f :: tl) = .ok src) :
    ∃ s, mkSequence tl = .ok s ∧ src.call = s.run f.iterDen := by
  obtain ⟨h1, -, -⟩ := source_tail f tl hd (by simp [hc, hi])
  obtain ⟨s, hs, hcall⟩ := h1 src h
  exact ⟨s, hs, by rw [hcall]; simp [Element.sourceFlow, hc, bind, Except.bind]⟩

/-- non-vacuity: `Source(iter([1, 2, 3]), add1, mul2)()` (the seeded change C01-F made this `[]`) -/
example :
    let it : Element Nat := { hasIter := true, onePass := true, iterDen := .ofList [1, 2, 3] }
    let add1 : Element Nat := { call := true, callDen := fun x => .ok (x + 1) }
    let mul2 : Element Nat := { call := true, callDen := fun x => .ok (x * 2) }
    (mkSource [it, add1, mul2]).toOption.map (fun s => (s.consumed, observe s.call)) = some (0, .ofList [4, 6, 8]) := by
  decide

/-- an argument with callable `fill` and `request` but no `compute`, no `run`, not callable is not
convertible: `Sequence` rejects it at construction (the seeded change C01-E accepted it) -/
example : errorOf (mkSequence [({ fill := .method, request := .method } : Element Nat)]) = some .lenaTypeError := by
  decide

/-! ### the real vocabulary: programs as the driver evaluates them

`Spec.toElement (.seq prog)` is what `drivers/C01.lean` runs for `Sequence(*prog)`; the theorems
above are about `build` on bracketing trees.  They are the same thing. -/

mutual
/-- for a program all of whose element constructors succeed, evaluating the Python expression
(`Spec.toElement`) and building its bracketing tree (`build ∘ Spec.toTree`) give the same object -/
theorem toTree_build : ∀ (s : Spec) (t : Tree Value), Spec.toTree s = .ok t → build t = Spec.toElement s
  | .seq els, t, h => by
    simp only [Spec.toTree] at h
    cases hts : Spec.toTrees els with
    | error e => simp [hts] at h
    | ok ts =>
      simp [hts] at h; subst h
      have ih := toTrees_buildList els ts hts
      simp only [build, ih, Spec.toElement]
      cases Spec.toElements els with
      | error e => rfl
      | ok es => cases hm : mkSequence es <;> simp [hm, Except.map]
  | .call f, t, h => by simp [Spec.toTree, Spec.toElement] at h; subst h; simp [build, Spec.toElement]
  | .var n g, t, h => by simp [Spec.toTree, Spec.toElement] at h; subst h; simp [build, Spec.toElement]
  | .filter p, t, h => by simp [Spec.toTree, Spec.toElement] at h; subst h; simp [build, Spec.toElement]
  | .slice a b s, t, h => by
    simp only [Spec.toTree] at h
    cases he : Spec.toElement (.slice a b s) with
    | error e => simp [he] at h
    | ok el => simp [he] at h; subst h; simp [build]
  | .count n, t, h => by simp [Spec.toTree, Spec.toElement] at h; subst h; simp [build, Spec.toElement]
  | .runIf p i, t, h => by
    simp only [Spec.toTree] at h
    cases he : Spec.toElement (.runIf p i) with
    | error e => simp [he] at h
    | ok el => simp [he] at h; subst h; simp [build]
  | .reverse, t, h => by simp [Spec.toTree, Spec.toElement] at h; subst h; simp [build, Spec.toElement]
  | .end_, t, h => by simp [Spec.toTree, Spec.toElement] at h; subst h; simp [build, Spec.toElement]
  | .acc k, t, h => by simp [Spec.toTree, Spec.toElement] at h; subst h; simp [build, Spec.toElement]
  | .split b s, t, h => by
    simp only [Spec.toTree] at h
    cases he : Spec.toElement (.split b s) with
    | error e => simp [he] at h
    | ok el => simp [he] at h; subst h; simp [build]
  | .runAdapter i, t, h => by
    simp only [Spec.toTree] at h
    cases he : Spec.toElement (.runAdapter i) with
    | error e => simp [he] at h
    | ok el => simp [he] at h; subst h; simp [build]
  | .runNamed i, t, h => by
    simp only [Spec.toTree] at h
    cases he : Spec.toElement (.runNamed i) with
    | error e => simp [he] at h
    | ok el => simp [he] at h; subst h; simp [build]
  | .runNone f, t, h => by
    simp only [Spec.toTree] at h
    cases he : Spec.toElement (.runNone f) with
    | error e => simp [he] at h
    | ok el => simp [he] at h; subst h; simp [build]
  | .runNoneBad, t, h => by
    simp only [Spec.toTree] at h
    cases he : Spec.toElement (.runNoneBad) with
    | error e => simp [he] at h
    | ok el => simp [he] at h; subst h; simp [build]
  | .synX r c f p n q i s a, t, h => by
    simp only [Spec.toTree] at h
    cases he : Spec.toElement (.synX r c f p n q i s a) with
    | error e => simp [he] at h
    | ok el => simp [he] at h; subst h; simp [build]
  | .iterObj c f tm, t, h => by
    simp only [Spec.toTree] at h
    cases he : Spec.toElement (.iterObj c f tm) with
    | error e => simp [he] at h
    | ok el => simp [he] at h; subst h; simp [build]
  | .callX a b, t, h => by
    simp only [Spec.toTree] at h
    cases he : Spec.toElement (.callX a b) with
    | error e => simp [he] at h
    | ok el => simp [he] at h; subst h; simp [build]
  | .filterX e0, t, h => by
    simp only [Spec.toTree] at h
    cases he : Spec.toElement (.filterX e0) with
    | error e => simp [he] at h
    | ok el => simp [he] at h; subst h; simp [build]
  | .synRaise e0, t, h => by
    simp only [Spec.toTree] at h
    cases he : Spec.toElement (.synRaise e0) with
    | error e => simp [he] at h
    | ok el => simp [he] at h; subst h; simp [build]
  | .both a b, t, h => by
    simp only [Spec.toTree] at h
    cases he : Spec.toElement (.both a b) with
    | error e => simp [he] at h
    | ok el => simp [he] at h; subst h; simp [build]
  | .runAlt a b, t, h => by
    simp only [Spec.toTree] at h
    cases he : Spec.toElement (.runAlt a b) with
    | error e => simp [he] at h
    | ok el => simp [he] at h; subst h; simp [build]
  | .classObj, t, h => by
    simp only [Spec.toTree] at h
    cases he : Spec.toElement (.classObj) with
    | error e => simp [he] at h
    | ok el => simp [he] at h; subst h; simp [build]
  | .syn r c f p n, t, h => by simp [Spec.toTree, Spec.toElement] at h; subst h; simp [build, Spec.toElement]
  | .junk, t, h => by simp [Spec.toTree, Spec.toElement] at h; subst h; simp [build, Spec.toElement]
  | .setContext, t, h => by simp [Spec.toTree, Spec.toElement] at h; subst h; simp [build, Spec.toElement]
  | .gen f, t, h => by simp [Spec.toTree, Spec.toElement] at h; subst h; simp [build, Spec.toElement]
  | .iter f, t, h => by simp [Spec.toTree, Spec.toElement] at h; subst h; simp [build, Spec.toElement]
theorem toTrees_buildList : ∀ (ss : List Spec) (ts : List (Tree Value)), Spec.toTrees ss = .ok ts →
    buildList ts = Spec.toElements ss
  | [], ts, h => by simp [Spec.toTrees] at h; subst h; simp [buildList, Spec.toElements]
  | s :: ss, ts, h => by
    simp only [Spec.toTrees] at h
    cases ht : Spec.toTree s with
    | error e => simp [ht] at h
    | ok t =>
      cases hts : Spec.toTrees ss with
      | error e => simp [ht, hts] at h
      | ok ts' =>
        simp [ht, hts] at h; subst h
        simp only [buildList, Spec.toElements, toTree_build s t ht, toTrees_buildList ss ts' hts]
        cases Spec.toElement s with
        | error e => rfl
        | ok el => cases Spec.toElements ss <;> rfl
end

theorem toElements_append : ∀ (a b : List Spec) (ea eb : List (Element Value)),
    Spec.toElements a = .ok ea → Spec.toElements b = .ok eb → Spec.toElements (a ++ b) = .ok (ea ++ eb)
  | [], b, ea, eb, ha, hb => by
    simp [Spec.toElements] at ha; subst ha; simpa using hb
  | s :: a, b, ea, eb, ha, hb => by
    simp only [Spec.toElements] at ha
    cases hs : Spec.toElement s with
    | error e => simp [hs] at ha
    | ok el =>
      cases hr : Spec.toElements a with
      | error e => simp [hs, hr] at ha
      | ok ea' =>
        simp [hs, hr] at ha; subst ha
        simp [Spec.toElements, hs, toElements_append a b ea' eb hr hb]

theorem toElements_singleton (s : Spec) (el : Element Value) (h : Spec.toElement s = .ok el) :
    Spec.toElements [s] = .ok [el] := by
  simp [Spec.toElements, h]

mutual
/-- the leaves of the bracketing tree are the elements of the program with its groups dissolved -/
theorem toTree_flatten : ∀ (s : Spec) (t : Tree Value), Spec.toTree s = .ok t →
    Spec.toElements s.flat = .ok (flatten t)
  | .seq els, t, h => by
    simp only [Spec.toTree] at h
    cases hts : Spec.toTrees els with
    | error e => simp [hts] at h
    | ok ts =>
      simp [hts] at h; subst h
      simpa [Spec.flat, flatten] using toTrees_flatten els ts hts
  | .call f, t, h => by
    simp only [Spec.toTree] at h
    cases he : Spec.toElement (.call f) with
    | error e => simp [he] at h
    | ok el => simp [he] at h; subst h; simpa [Spec.flat, flatten] using toElements_singleton _ _ he
  | .var n g, t, h => by
    simp only [Spec.toTree] at h
    cases he : Spec.toElement (.var n g) with
    | error e => simp [he] at h
    | ok el => simp [he] at h; subst h; simpa [Spec.flat, flatten] using toElements_singleton _ _ he
  | .filter p, t, h => by
    simp only [Spec.toTree] at h
    cases he : Spec.toElement (.filter p) with
    | error e => simp [he] at h
    | ok el => simp [he] at h; subst h; simpa [Spec.flat, flatten] using toElements_singleton _ _ he
  | .slice a b s, t, h => by
    simp only [Spec.toTree] at h
    cases he : Spec.toElement (.slice a b s) with
    | error e => simp [he] at h
    | ok el => simp [he] at h; subst h; simpa [Spec.flat, flatten] using toElements_singleton _ _ he
  | .count n, t, h => by
    simp only [Spec.toTree] at h
    cases he : Spec.toElement (.count n) with
    | error e => simp [he] at h
    | ok el => simp [he] at h; subst h; simpa [Spec.flat, flatten] using toElements_singleton _ _ he
  | .runIf p i, t, h => by
    simp only [Spec.toTree] at h
    cases he : Spec.toElement (.runIf p i) with
    | error e => simp [he] at h
    | ok el => simp [he] at h; subst h; simpa [Spec.flat, flatten] using toElements_singleton _ _ he
  | .reverse, t, h => by
    simp only [Spec.toTree] at h
    cases he : Spec.toElement .reverse with
    | error e => simp [he] at h
    | ok el => simp [he] at h; subst h; simpa [Spec.flat, flatten] using toElements_singleton _ _ he
  | .end_, t, h => by
    simp only [Spec.toTree] at h
    cases he : Spec.toElement .end_ with
    | error e => simp [he] at h
    | ok el => simp [he] at h; subst h; simpa [Spec.flat, flatten] using toElements_singleton _ _ he
  | .acc k, t, h => by
    simp only [Spec.toTree] at h
    cases he : Spec.toElement (.acc k) with
    | error e => simp [he] at h
    | ok el => simp [he] at h; subst h; simpa [Spec.flat, flatten] using toElements_singleton _ _ he
  | .split b s, t, h => by
    simp only [Spec.toTree] at h
    cases he : Spec.toElement (.split b s) with
    | error e => simp [he] at h
    | ok el => simp [he] at h; subst h; simpa [Spec.flat, flatten] using toElements_singleton _ _ he
  | .runAdapter i, t, h => by
    simp only [Spec.toTree] at h
    cases he : Spec.toElement (.runAdapter i) with
    | error e => simp [he] at h
    | ok el => simp [he] at h; subst h; simpa [Spec.flat, flatten] using toElements_singleton _ _ he
  | .runNamed i, t, h => by
    simp only [Spec.toTree] at h
    cases he : Spec.toElement (.runNamed i) with
    | error e => simp [he] at h
    | ok el => simp [he] at h; subst h; simpa [Spec.flat, flatten] using toElements_singleton _ _ he
  | .runNone f, t, h => by
    simp only [Spec.toTree] at h
    cases he : Spec.toElement (.runNone f) with
    | error e => simp [he] at h
    | ok el => simp [he] at h; subst h; simpa [Spec.flat, flatten] using toElements_singleton _ _ he
  | .runNoneBad, t, h => by
    simp only [Spec.toTree] at h
    cases he : Spec.toElement (.runNoneBad) with
    | error e => simp [he] at h
    | ok el => simp [he] at h; subst h; simpa [Spec.flat, flatten] using toElements_singleton _ _ he
  | .synX r c f p n q i s a, t, h => by
    simp only [Spec.toTree] at h
    cases he : Spec.toElement (.synX r c f p n q i s a) with
    | error e => simp [he] at h
    | ok el => simp [he] at h; subst h; simpa [Spec.flat, flatten] using toElements_singleton _ _ he
  | .iterObj c f tm, t, h => by
    simp only [Spec.toTree] at h
    cases he : Spec.toElement (.iterObj c f tm) with
    | error e => simp [he] at h
    | ok el => simp [he] at h; subst h; simpa [Spec.flat, flatten] using toElements_singleton _ _ he
  | .callX a b, t, h => by
    simp only [Spec.toTree] at h
    cases he : Spec.toElement (.callX a b) with
    | error e => simp [he] at h
    | ok el => simp [he] at h; subst h; simpa [Spec.flat, flatten] using toElements_singleton _ _ he
  | .filterX e0, t, h => by
    simp only [Spec.toTree] at h
    cases he : Spec.toElement (.filterX e0) with
    | error e => simp [he] at h
    | ok el => simp [he] at h; subst h; simpa [Spec.flat, flatten] using toElements_singleton _ _ he
  | .synRaise e0, t, h => by
    simp only [Spec.toTree] at h
    cases he : Spec.toElement (.synRaise e0) with
    | error e => simp [he] at h
    | ok el => simp [he] at h; subst h; simpa [Spec.flat, flatten] using toElements_singleton _ _ he
  | .both a b, t, h => by
    simp only [Spec.toTree] at h
    cases he : Spec.toElement (.both a b) with
    | error e => simp [he] at h
    | ok el => simp [he] at h; subst h; simpa [Spec.flat, flatten] using toElements_singleton _ _ he
  | .runAlt a b, t, h => by
    simp only [Spec.toTree] at h
    cases he : Spec.toElement (.runAlt a b) with
    | error e => simp [he] at h
    | ok el => simp [he] at h; subst h; simpa [Spec.flat, flatten] using toElements_singleton _ _ he
  | .classObj, t, h => by
    simp only [Spec.toTree] at h
    cases he : Spec.toElement (.classObj) with
    | error e => simp [he] at h
    | ok el => simp [he] at h; subst h; simpa [Spec.flat, flatten] using toElements_singleton _ _ he
  | .syn r c f p n, t, h => by
    simp only [Spec.toTree] at h
    cases he : Spec.toElement (.syn r c f p n) with
    | error e => simp [he] at h
    | ok el => simp [he] at h; subst h; simpa [Spec.flat, flatten] using toElements_singleton _ _ he
  | .junk, t, h => by
    simp only [Spec.toTree] at h
    cases he : Spec.toElement .junk with
    | error e => simp [he] at h
    | ok el => simp [he] at h; subst h; simpa [Spec.flat, flatten] using toElements_singleton _ _ he
  | .setContext, t, h => by
    simp only [Spec.toTree] at h
    cases he : Spec.toElement .setContext with
    | error e => simp [he] at h
    | ok el => simp [he] at h; subst h; simpa [Spec.flat, flatten] using toElements_singleton _ _ he
  | .gen f, t, h => by
    simp only [Spec.toTree] at h
    cases he : Spec.toElement (.gen f) with
    | error e => simp [he] at h
    | ok el => simp [he] at h; subst h; simpa [Spec.flat, flatten] using toElements_singleton _ _ he
  | .iter f, t, h => by
    simp only [Spec.toTree] at h
    cases he : Spec.toElement (.iter f) with
    | error e => simp [he] at h
    | ok el => simp [he] at h; subst h; simpa [Spec.flat, flatten] using toElements_singleton _ _ he
theorem toTrees_flatten : ∀ (ss : List Spec) (ts : List (Tree Value)), Spec.toTrees ss = .ok ts →
    Spec.toElements (Spec.flats ss) = .ok (flattenList ts)
  | [], ts, h => by simp [Spec.toTrees] at h; subst h; simp [Spec.flats, flattenList, Spec.toElements]
  | s :: ss, ts, h => by
    simp only [Spec.toTrees] at h
    cases ht : Spec.toTree s with
    | error e => simp [ht] at h
    | ok t =>
      cases hts : Spec.toTrees ss with
      | error e => simp [ht, hts] at h
      | ok ts' =>
        simp [ht, hts] at h; subst h
        simp only [Spec.flats, flattenList]
        exact toElements_append _ _ _ _ (toTree_flatten s t ht) (toTrees_flatten ss ts' hts)
end

/-- **Regrouping, for programs over the real vocabulary.**  Two programs whose element
constructors all succeed and that differ only in how their top-level elements are grouped into
nested `Sequence(...)` calls give the same outcome: the same `LenaTypeError` at construction, or
sequences with the same `run`. -/
theorem spec_regroup (p q : List Spec) (tp tq : List (Tree Value))
    (hp : Spec.toTrees p = .ok tp) (hq : Spec.toTrees q = .ok tq) (h : Spec.flats p = Spec.flats q) :
    SameOutcome (Spec.toElement (.seq p)) (Spec.toElement (.seq q)) := by
  have h1 : Spec.toTree (.seq p) = .ok (.node tp) := by simp [Spec.toTree, hp]
  have h2 : Spec.toTree (.seq q) = .ok (.node tq) := by simp [Spec.toTree, hq]
  rw [← toTree_build _ _ h1, ← toTree_build _ _ h2]
  apply regroup_any_two
  have e1 := toTrees_flatten p tp hp
  have e2 := toTrees_flatten q tq hq
  rw [h, e2] at e1
  exact (Except.ok.inj e1).symm

example : ∃ tp tq,
    Spec.toTrees [.call .inc, .seq [.seq [], .seq [.slice none (some (-1)) none, .acc .sum]]] = .ok tp ∧
    Spec.toTrees [.seq [.call .inc, .slice none (some (-1)) none], .acc .sum] = .ok tq ∧
    Spec.flats [.call .inc, .seq [.seq [], .seq [.slice none (some (-1)) none, .acc .sum]]] =
      Spec.flats [.seq [.call .inc, .slice none (some (-1)) none], .acc .sum] :=
  ⟨_, _, rfl, rfl, rfl⟩


/-! ### the stream transformations of the vocabulary -/

theorem mapGo_mapGo (f g : α → Except Exc α) (t : Option Exc) : ∀ (xs : List α),
    mapGo g (mapGo f t xs).term (mapGo f t xs).vals = mapGo (fun x => f x >>= g) t xs
  | [] => rfl
  | x :: xs => by
    have ih := mapGo_mapGo f g t xs
    simp only [mapGo, bind, Except.bind] at ih ⊢
    cases hf : f x with
    | error e => rfl
    | ok y =>
      simp only [Strm.cons, mapGo]
      cases hg : g y with
      | error e => rfl
      | ok z => simp only [ih]

/-- **Two callables in a row are the callable composition, value by value** — with Python's lazy
evaluation the second callable sees the first value before the first callable sees the second, and
the stream model agrees: the values yielded and the exception that ends the run are those of
`x ↦ g(f(x))` mapped over the flow. -/
theorem mapS_mapS (f g : α → Except Exc α) (s : Strm α) :
    mapS g (mapS f s) = mapS (fun x => f x >>= g) s :=
  mapGo_mapGo f g s.term s.vals

theorem mapGo_total (f : α → Except Exc α) (g : α → α) (t : Option Exc) : ∀ (xs : List α),
    (∀ x ∈ xs, f x = .ok (g x)) → mapGo f t xs = ⟨xs.map g, t⟩
  | [], _ => rfl
  | x :: xs, h => by
    have hx := h x (by simp)
    have ih := mapGo_total f g t xs (fun y hy => h y (by simp [hy]))
    simp only [mapGo, hx, ih, Strm.cons, List.map_cons]

/-- a callable that never raises maps the values and passes the end of the input on -/
theorem mapS_total (f : α → Except Exc α) (g : α → α) (s : Strm α) (h : ∀ x ∈ s.vals, f x = .ok (g x)) :
    mapS f s = ⟨s.vals.map g, s.term⟩ :=
  mapGo_total f g s.term s.vals h

theorem filterGo_total (p : α → Except Exc Bool) (q : α → Bool) (t : Option Exc) : ∀ (xs : List α),
    (∀ x ∈ xs, p x = .ok (q x)) → filterGo p t xs = ⟨xs.filter q, t⟩
  | [], _ => rfl
  | x :: xs, h => by
    have hx := h x (by simp)
    have ih := filterGo_total p q t xs (fun y hy => h y (by simp [hy]))
    simp only [filterGo, hx, ih, List.filter_cons]
    cases q x <;> simp [Strm.cons]

/-- `Filter` with a selector that never raises keeps exactly the selected values, in order -/
theorem filterS_total (p : α → Except Exc Bool) (q : α → Bool) (s : Strm α)
    (h : ∀ x ∈ s.vals, p x = .ok (q x)) : filterS p s = ⟨s.vals.filter q, s.term⟩ :=
  filterGo_total p q s.term s.vals h

/-- a fill/compute element whose `fill` never raises: `Run._fc_run` computes after the whole flow
was filled, in order; an exception of the input is raised by the call itself -/
theorem fcSpec_total (e : Element α) (hfill : ∀ h x, e.fillDen h x = .ok ()) (t : Option Exc) :
    ∀ (xs h : List α), fcSpec e t h xs =
      match t with
      | some err => .error err
      | none => e.computeDen (h ++ xs)
  | [], h => by cases t <;> simp [fcSpec]
  | x :: xs, h => by
    simp only [fcSpec, hfill]
    rw [fcSpec_total e hfill t xs (h ++ [x])]
    cases t <;> simp

/-- **`Slice` inside a sequence is list slicing of what the previous element yields**: on a flow
that ends normally, `Slice(start, stop, step).run` yields `xs[start:stop:step]` (C17), for every
combination of `None`, negative and non-negative indices and every step `≥ 1` -/
theorem sliceS_ofList (start stop step : Option Int) (hs : Lena.C17.GoodStep step) (xs : List α) :
    sliceS (Lena.C17.mkSlice start stop step) (.ofList xs)
      = .ofList (Lena.C17.pySlice xs start stop ((step.getD 1).toNat)) := by
  have h := Lena.C17.slice_run_eq_pyslice start stop step hs xs
  cases hk : Lena.C17.mkSlice start stop step with
  | valueError => rw [hk] at h; simp [Lena.C17.sliceRun] at h
  | islice a b st =>
    rw [hk] at h
    simp only [Lena.C17.sliceRun, Option.some.injEq, Lena.C17.Out.ok.injEq] at h
    simp only [sliceS, Strm.ofList, h]
    cases b with
    | none => rfl
    | some b => by_cases hc : max a b ≤ xs.length <;> simp [hc]
  | negative a b st =>
    rw [hk] at h
    simp only [Lena.C17.sliceRun] at h
    cases hr : Lena.C17.runNegative a b xs with
    | indexError => rw [hr] at h; simp at h
    | ok ys =>
      rw [hr] at h
      simp only [Option.some.injEq, Lena.C17.Out.ok.injEq] at h
      simp only [sliceS, Strm.ofList, hr, h]
      cases negMode a b xs.length <;> rfl

/-- `Reverse` on a flow that ends normally yields the values last to first -/
theorem reverseS_ofList (xs : List α) : reverseS (.ofList xs) = .ofList xs.reverse := by
  simp [reverseS, Strm.ofList, Lena.C17.reverse_spec]

/-- an exception of the input flow is raised by `Reverse` and `End` before anything is yielded -/
theorem reverseS_fail (xs : List α) (e : Exc) : reverseS ⟨xs, some e⟩ = .fail e ∧ endS ⟨xs, some e⟩ = .fail e := by
  simp [reverseS, endS]

example : sliceS (Lena.C17.mkSlice (some (-3)) (some 5) (some 2)) (.ofList [0, 1, 2, 3, 4, 5])
    = .ofList [3] := by decide

example : mapS (fun x => if x = 2 then .error .valueError else .ok (x + 1)) (.ofList [1, 2, 3])
    = (⟨[2], some .valueError⟩ : Strm Nat) := by decide

/-! ### a sequence of callables -/

theorem mapGo_pure (t : Option Exc) : ∀ (xs : List α), mapGo (fun x => (.ok x : Except Exc α)) t xs = ⟨xs, t⟩
  | [] => rfl
  | x :: xs => by simp [mapGo, mapGo_pure t xs, Strm.cons]

theorem mapS_pure (s : Strm α) : mapS (fun x => (.ok x : Except Exc α)) s = s := by
  obtain ⟨xs, t⟩ := s
  exact mapGo_pure t xs

theorem fold_callables : ∀ (es : List (Element α)) (f0 : α → Except Exc α) (flow : Strm α),
    (∀ e ∈ es, e.run.callable = false ∧ e.call = true) →
    es.foldlM (fun fl e => e.den fl) (mapS f0 flow) = .ok (mapS (fun x => f0 x >>= callAll es) flow)
  | [], f0, flow, _ => by
    have : (fun x => f0 x >>= callAll ([] : List (Element α))) = f0 := by
      funext x
      cases f0 x <;> rfl
    simp [this]; rfl
  | e :: es, f0, flow, h => by
    obtain ⟨hr, hc⟩ := h e (by simp)
    have hden : e.den = fun s => .ok (mapS e.callDen s) := by
      simp [Element.den, hr, hc]
    rw [List.foldlM_cons, hden]
    simp only [bind, Except.bind]
    rw [mapS_mapS, fold_callables es _ flow (fun e' he' => h e' (by simp [he']))]
    congr 2
    funext x
    simp only [callAll, List.foldlM_cons]
    cases f0 x <;> rfl

/-- **A sequence of plain callables is the callable composition, applied value by value**:
`Sequence(f1, ..., fn).run(flow)` yields `fn(...f2(f1(v)))` for every `v` of the flow in order, and
ends with the exception of the first value on which some `fi` raises (or with the flow's own end).
Stage-by-stage evaluation (each stage consuming the whole output of the previous one) and
value-by-value evaluation (what Python's generators do) agree. -/
theorem run_callables (es : List (Element α))
    (h : ∀ e ∈ es, e.hasNoData = false ∧ e.run.callable = false ∧ e.call = true)
    (s : Seq α) (hs : mkSequence es = .ok s) (flow : Strm α) :
    s.run flow = .ok (mapS (callAll es) flow) := by
  have hd : dataSeq es = es := by
    simp only [dataSeq, List.filter_eq_self]
    intro e he; simp [(h e he).1]
  rw [run_eq_fold es s hs flow, hd]
  have := fold_callables es (fun x => .ok x) flow (fun e he => (h e he).2)
  rw [mapS_pure] at this
  rw [this]
  congr 2

example :
    let inc : Element Nat := { call := true, callDen := fun x => .ok (x + 1) }
    let odd : Element Nat := { call := true, callDen := fun x => if x % 2 = 1 then .ok x else .error .valueError }
    (mkSequence [inc, odd, inc]).toOption.map (fun s => observe (s.run (.ofList [2, 4, 5, 6])))
      = some ⟨[4, 6], some .valueError⟩ := by decide

/-! ### sequences that are run again -/

theorem pastOutsAll_append (a b : List (Stored α)) (past : List (Strm α)) :
    pastOutsAll (a ++ b) past = pastOutsAll b (pastOutsAll a past) := by
  induction a generalizing past with
  | nil => rfl
  | cons st ss ih => simp [pastOutsAll, ih]

/-- **A sequence that is run again is still the left-to-right composition**: the first part of the
sequence transforms the flow (each element with the state its own earlier inputs left), the rest is
fed with its output and sees, as its history, what the first part yielded in the earlier runs. -/
theorem rerunStored_append (a b : List (Stored α)) (past : List (Strm α)) (s : Strm α) :
    rerunStored (a ++ b) past s = (rerunStored a past s >>= rerunStored b (pastOutsAll a past)) := by
  induction a generalizing past s with
  | nil => rfl
  | cons st ss ih =>
    simp only [List.cons_append, rerunStored, pastOutsAll]
    cases st.rerun past s with
    | error e => rfl
    | ok s' => exact ih _ s'

/-- the first run of an object is its run without history -/
theorem Stored.rerun_nil (st : Stored α) (h : st.element.rerunDen [] = st.element.runDen) :
    st.rerun [] = st.run := by
  cases st with
  | asIs e =>
    funext s
    simp only [Stored.element] at h
    simp only [Stored.rerun, Stored.run, Element.invokeRerun, Element.invokeRun, h]
  | adapted m e =>
    cases m with
    | runMethod =>
      funext s
      simp only [Stored.element] at h
      simp only [Stored.rerun, Stored.run, Element.invokeRerun, Element.invokeRun, h]
    | callRun => rfl
    | fcRun => rfl

theorem pastOuts_nil (st : Stored α) (done : List (Strm α)) : pastOuts st done [] = [] := rfl

theorem rerunStored_nil : ∀ (ss : List (Stored α)),
    (∀ st ∈ ss, st.element.rerunDen [] = st.element.runDen) → rerunStored ss [] = runStored ss
  | [], _ => by funext s; rfl
  | st :: ss, h => by
    funext s
    have h1 := Stored.rerun_nil st (h st (by simp))
    have ih := rerunStored_nil ss (fun st' hst' => h st' (by simp [hst']))
    simp only [rerunStored, runStored, h1, pastOuts_nil, ih]

/-- **The first run of a sequence object is `Sequence.run`** (for elements whose `run` after no
earlier run is their `run`): the history-indexed semantics extends the one of the theorems above. -/
theorem rerun_nil (s : Seq α) (h : ∀ st ∈ s.stored, st.element.rerunDen [] = st.element.runDen) :
    s.rerun [] = s.run := rerunStored_nil s.stored h

theorem convertAll_append : ∀ (a b : List (Element α)) (sa sb : List (Stored α)),
    convertAll a = .ok sa → convertAll b = .ok sb → convertAll (a ++ b) = .ok (sa ++ sb)
  | [], b, sa, sb, ha, hb => by simp [convertAll] at ha; subst ha; simpa using hb
  | e :: a, b, sa, sb, ha, hb => by
    simp only [convertAll] at ha
    cases hc : convert e with
    | error err => simp [hc] at ha
    | ok st =>
      cases hr : convertAll a with
      | error err => simp [hc, hr] at ha
      | ok sa' =>
        simp [hc, hr] at ha; subst ha
        simp [convertAll, hc, convertAll_append a b sa' sb hr hb]

/-- **Regrouping a sequence that is run again** (inside `RunIf`, in a `Split` branch):
`Sequence(*a, *b)` run after the earlier inputs `past` is `Sequence(*a)` run after `past`, followed by
`Sequence(*b)` run after what `Sequence(*a)` yielded in those earlier runs. -/
theorem seq_rerun_append (a b : List (Element α)) (s sa sb : Seq α)
    (hs : mkSequence (a ++ b) = .ok s) (ha : mkSequence a = .ok sa) (hb : mkSequence b = .ok sb)
    (past : List (Strm α)) (flow : Strm α) :
    s.rerun past flow = (sa.rerun past flow >>= sb.rerun (pastOutsAll sa.stored past)) := by
  unfold mkSequence at hs ha hb
  cases hca : convertAll (dataSeq a) with
  | error e => simp [hca] at ha
  | ok ssa =>
    cases hcb : convertAll (dataSeq b) with
    | error e => simp [hcb] at hb
    | ok ssb =>
      have hab := convertAll_append _ _ _ _ hca hcb
      rw [← dataSeq_append] at hab
      simp [hca] at ha; simp [hcb] at hb; simp [hab] at hs
      subst ha; subst hb; subst hs
      exact rerunStored_append ssa ssb past flow

/-- non-vacuity: a fill/compute element (yields the number of values filled so far) behind
`adapters.Run`, run a second time after a first run on two values -/
example :
    let cnt : Element Nat := { fill := .method, compute := .method, computeDen := fun h => .ok (.ofList [h.length]) }
    (mkSequence [cnt]).toOption.map (fun s => observe (s.rerun [.ofList [7, 8]] (.ofList [9])))
      = some (.ofList [3]) := by decide

/-! ### `RunIf` and `Split` without state are the history-free functions -/

theorem runIfGo_const (sel : α → Except Exc Bool) (inner : Stage α) (t : Option Exc) :
    ∀ (vs : List α) (past : List (Strm α)),
      runIfGo sel (fun _ => inner) t past vs =
        bindGo (fun v => match sel v with
          | .error e => .fail e
          | .ok true => observe (inner (.ofList [v]))
          | .ok false => .ofList [v]) t vs
  | [], _ => rfl
  | v :: vs, past => by
    simp only [runIfGo, bindGo]
    cases sel v with
    | error e => simp [Strm.fail, Strm.andThen]
    | ok b => cases b <;> simp [runIfGo_const sel inner t vs]

/-- a `RunIf` whose inner sequence keeps no state is `runIfS`, whatever was run before -/
theorem runIfH_const (sel : α → Except Exc Bool) (inner : Stage α) (past : List (Strm α)) (s : Strm α) :
    runIfH sel (fun _ => inner) past s = runIfS sel inner s := by
  simp only [runIfH, runIfS, bindS]
  exact runIfGo_const sel inner s.term s.vals _

/-! ### Source whose first element is a Sequence -/

/-- `Source(Sequence(*xs), *tl)()`: the sequence is iterated — its arguments, as values, are the flow
that enters `Sequence(*tl)` -/
theorem source_of_sequence (xs tl : List (Element α)) (sx : Seq α) (hx : mkSequence xs = .ok sx) :
    (∀ src, mkSource (sx.toElement :: tl) = .ok src →
        ∃ s, mkSequence tl = .ok s ∧ src.call = s.run (.ofList (xs.filterMap (·.asValue)))) ∧
    (∀ err, mkSource (sx.toElement :: tl) = .error err → mkSequence tl = .error err) := by
  have hd : sx.toElement.hasNoData = false := rfl
  have hf : (sx.toElement.call || sx.toElement.hasIter) = true := rfl
  obtain ⟨h1, h2, -⟩ := source_tail sx.toElement tl hd hf
  refine ⟨?_, h2⟩
  intro src hsrc
  obtain ⟨s, hs, hcall⟩ := h1 src hsrc
  refine ⟨s, hs, ?_⟩
  rw [hcall]
  have : sx.argVals = xs.filterMap (·.asValue) := by
    unfold mkSequence at hx
    cases hc : convertAll (dataSeq xs) with
    | error e => simp [hc] at hx
    | ok ss => simp [hc] at hx; subst hx; rfl
  simp [Element.sourceFlow, Seq.toElement, this, bind, Except.bind]

/-! ### construction of `Split` branches -/

theorem toFillStages_error : ∀ (es : List (Element α)) (err : Exc), toFillStages es = .error err → err = .lenaTypeError
  | [], err, h => by simp [toFillStages] at h
  | e :: es, err, h => by
    simp only [toFillStages] at h
    cases hc : toFillStage e with
    | error e' =>
      simp [hc] at h; subst h
      unfold toFillStage at hc
      split at hc
      · cases hc
      · split at hc
        · cases hc
        · split at hc
          · cases hc
          · cases hc; rfl
    | ok st =>
      cases hr : toFillStages es with
      | error e' => simp [hc, hr] at h; subst h; exact toFillStages_error es _ hr
      | ok sts => simp [hc, hr] at h

/-- a tuple that `Split` cannot convert to a `Sequence` or a `FillComputeSeq` is rejected with
`LenaTypeError` when the `Split` is constructed, with nothing else -/
theorem mkBranch_error (es : List (Element α)) (err : Exc) (h : mkBranch es = .error err) :
    err = .lenaTypeError := by
  unfold mkBranch at h
  split at h
  · split at h
    · cases h; rfl
    · split at h
      · next e' hst => cases h; exact toFillStages_error _ _ hst
      · split at h
        · next e' hm => cases h; exact (mkSequence_error_inv _ _ hm).1
        · cases h
  · split at h
    · next e' hm => cases h; exact (mkSequence_error_inv _ _ hm).1
    · cases h

/-! ### accumulators: the float part is only used for floats -/

/-- filling a value whose data is not a float into an accumulator that holds no float is `accFill` -/
theorem accFillQ_noFloat (k : AccKind) (s : AccState) (v : Value)
    (hv : ∀ n d, (getDataContext v).1 ≠ .quot n d) :
    accFillQ k ⟨s, none⟩ v = (accFill k s v).map (fun s' => ⟨s', none⟩) := by
  cases k with
  | sum =>
    simp only [accFillQ, accFill]
    rcases hdc : getDataContext v with ⟨d, c⟩
    rw [hdc] at hv
    cases d <;> simp_all [addNum, Except.map]
  | mean =>
    simp only [accFillQ, accFill]
    rcases hdc : getDataContext v with ⟨d, c⟩
    rw [hdc] at hv
    cases d <;> simp_all [addNum, Except.map]
  | store g => rfl
  | count n => rfl

/-- … and computing from it is `accCompute` -/
theorem accComputeQ_noFloat (k : AccKind) (s : AccState) : accComputeQ k ⟨s, none⟩ = accCompute k s := by
  cases k with
  | sum => rfl
  | mean => simp only [accComputeQ, accCompute]
  | store g => cases g <;> rfl
  | count n => rfl

/-! ### `Split` with stateless sequence branches is `splitS` -/

theorem Strm.andThen_nil (s : Strm α) : s.andThen .nil = s := by
  obtain ⟨v, t⟩ := s
  cases t <;> simp [Strm.andThen, Strm.nil]

theorem Strm.andThen_of_term (s t : Strm α) (e : Exc) (h : s.term = some e) : s.andThen t = s := by
  obtain ⟨v, tm⟩ := s
  simp only at h
  subst h
  rfl

theorem bufPass_seq (past : List (Strm α)) (buf : List α) : ∀ (brs : List (Stage α)) (hs : List (List α)),
    (bufPass past buf (seqBranches brs) hs).1 = runBranches brs buf
  | [], _ => rfl
  | b :: bs, hs => by
    simp only [seqBranches, List.map_cons, bufPass, runBranches]
    have ih := bufPass_seq past buf bs hs.tail
    simp only [seqBranches] at ih
    cases ht : (observe (b (.ofList buf))).term with
    | some e => simp [Strm.andThen_of_term _ _ e ht]
    | none => simp [ih]

theorem finalPass_seq (past : List (Strm α)) : ∀ (brs : List (Stage α)) (hs : List (List α)),
    finalPass true past (seqBranches brs) hs = runBranches brs [] ∧
    finalPass false past (seqBranches brs) hs = .nil
  | [], _ => ⟨rfl, rfl⟩
  | b :: bs, hs => by
    obtain ⟨h1, h2⟩ := finalPass_seq past bs hs.tail
    have e : seqBranches (b :: bs) = .seqB (fun _ => b) :: seqBranches bs := rfl
    constructor
    · rw [e]; simp only [finalPass, if_true, runBranches, h1]
    · rw [e]; simp only [finalPass, Bool.false_eq_true, if_false, h2]

theorem splitLoopH_seq (brs : List (Stage α)) (b : Nat) (t : Option Exc) :
    ∀ (fuel : Nat) (past : List (Strm α)) (hs : List (List α)) (xs : List α),
      (splitLoopH (seqBranches brs) b t fuel past hs xs).1 = splitGo (runBranches brs) b t fuel xs
  | 0, _, _, _ => rfl
  | fuel + 1, past, hs, xs => by
    simp only [splitLoopH, splitGo]
    split
    · cases t with
      | some e => rfl
      | none =>
        simp only
        split
        · rfl
        · exact bufPass_seq past xs brs hs
    · have h1 := bufPass_seq past (xs.take b) brs hs
      rcases hbp : bufPass past (List.take b xs) (seqBranches brs) hs with ⟨o, hs'⟩
      rw [hbp] at h1
      simp only at h1
      simp only
      cases ht : o.term with
      | some e =>
        simp only
        rw [← h1, Strm.andThen_of_term _ _ e ht]
      | none =>
        simp only
        have ih := splitLoopH_seq brs b t fuel (past ++ [.ofList (xs.take b)]) hs' (xs.drop b)
        rcases hl : splitLoopH (seqBranches brs) b t fuel (past ++ [Strm.ofList (List.take b xs)]) hs' (List.drop b xs) with ⟨o', hs''⟩
        rw [hl] at ih
        simp only at ih
        simp only
        rw [← h1, ← ih]

/-- **`Split` over stateless sequences is the simple block schedule `splitS`**, whatever was run
before: the general `Split.run` of the model (`splitH`: sequence and fill/compute branches, state
kept between buffers and between runs) does not change what the theorems about `splitS` say. -/
theorem splitH_seq (brs : List (Stage α)) (bufsize : Option Nat) (hb : bufsize ≠ some 0)
    (past : List (Strm α)) (hs : List (List α)) (s : Strm α) :
    splitH (seqBranches brs) bufsize past hs s = splitS brs bufsize s := by
  unfold splitH splitS
  by_cases hbr : brs = []
  · subst hbr; rfl
  · have he1 : (seqBranches brs).isEmpty = false := by
      cases brs with
      | nil => exact absurd rfl hbr
      | cons b bs => rfl
    have he2 : brs.isEmpty = false := by
      cases brs with
      | nil => exact absurd rfl hbr
      | cons b bs => rfl
    simp only [he1, he2, Bool.false_eq_true, if_false]
    cases bufsize with
    | none =>
      simp only
      cases ht : s.term with
      | some e => rfl
      | none =>
        simp only
        by_cases hv : s.vals.isEmpty = true
        · simp only [hv, if_true]
          rw [(finalPass_seq past brs hs).1]
          have : s.vals = [] := by simpa using hv
          rw [this]
        · simp only [hv, Bool.false_eq_true, if_false]
          have h1 := bufPass_seq past s.vals brs hs
          rcases hbp : bufPass past s.vals (seqBranches brs) hs with ⟨o, hs'⟩
          rw [hbp] at h1
          simp only at h1
          simp only
          cases hto : o.term with
          | some e => simp only; exact h1
          | none =>
            simp only
            rw [(finalPass_seq past brs hs').2, Strm.andThen_nil]; exact h1
    | some b =>
      have hb1 : 1 ≤ b := by
        cases b with
        | zero => exact absurd rfl hb
        | succ n => omega
      simp only
      have h1 := splitLoopH_seq brs b s.term (s.vals.length + 1) past hs s.vals
      rcases hl : splitLoopH (seqBranches brs) b s.term (s.vals.length + 1) past hs s.vals with ⟨o, hs'⟩
      rw [hl] at h1
      simp only at h1
      simp only
      by_cases hv : s.vals.isEmpty = true
      · have hvn : s.vals = [] := by simpa using hv
        cases ht : s.term with
        | some e =>
          rw [ht] at h1
          simp only [hv, Option.isNone_some, Bool.and_false, Bool.false_eq_true, if_false]
          rw [← h1]
          cases hto : o.term with
          | some e' => rfl
          | none =>
            simp only
            -- the loop raised `e` at once: `o` is `.fail e`
            have : o = .fail e := by
              rw [h1, hvn]
              simp [splitGo]
              omega
            rw [this] at hto
            simp [Strm.fail] at hto
        | none =>
          rw [ht] at h1
          simp only [hv, Option.isNone_none, Bool.and_true, if_true]
          have ho : o = .nil := by
            rw [h1, hvn]
            simp [splitGo]
            omega
          subst ho
          simp only [Strm.nil]
          rw [(finalPass_seq past brs hs').1]
          simp [Strm.andThen]
      · have hv' : s.vals.isEmpty = false := by simpa using hv
        simp only [hv', Bool.false_and, Bool.false_eq_true, if_false]
        rw [← h1]
        cases hto : o.term with
        | some e => rfl
        | none =>
          simp only
          rw [(finalPass_seq past brs hs').2, Strm.andThen_nil]

/-! ### review follow-up: statements with the data filter written out, fuel, examples -/

/-- `run_eq_fold` with the data elements written out: the fold runs over exactly the arguments that have no
`_has_no_data` attribute, in the order given -/
theorem run_eq_fold_filter (args : List (Element α)) (s : Seq α) (h : mkSequence args = .ok s) (flow : Strm α) :
    s.run flow = (args.filter (fun e => !e.hasNoData)).foldlM (fun fl e => e.den fl) flow :=
  run_eq_fold args s h flow

/-- **The fuel of the `Split` loop suffices**: for `bufsize = b ≥ 1` every amount of fuel larger than the
number of values left gives the same result, so `.nil` for exhausted fuel is never what `splitS` returns -/
theorem splitGo_fuel (onBuf : List α → Strm α) (b : Nat) (hb : 1 ≤ b) (t : Option Exc) :
    ∀ (f1 f2 : Nat) (xs : List α), xs.length < f1 → xs.length < f2 →
      splitGo onBuf b t f1 xs = splitGo onBuf b t f2 xs
  | 0, _, xs, h1, _ => by omega
  | _, 0, xs, _, h2 => by omega
  | f1 + 1, f2 + 1, xs, h1, h2 => by
    simp only [splitGo]
    split
    · rfl
    · next hlen =>
      have hd : (xs.drop b).length < xs.length := by
        simp only [List.length_drop]; omega
      rw [splitGo_fuel onBuf b hb t f1 f2 (xs.drop b) (by omega) (by omega)]

theorem splitLoopH_fuel (brs : List (Branch α)) (b : Nat) (hb : 1 ≤ b) (t : Option Exc) :
    ∀ (f1 f2 : Nat) (past : List (Strm α)) (hs : List (List α)) (xs : List α), xs.length < f1 → xs.length < f2 →
      splitLoopH brs b t f1 past hs xs = splitLoopH brs b t f2 past hs xs
  | 0, _, _, _, xs, h1, _ => by omega
  | _, 0, _, _, xs, _, h2 => by omega
  | f1 + 1, f2 + 1, past, hs, xs, h1, h2 => by
    simp only [splitLoopH]
    split
    · rfl
    · next hlen =>
      have hd : (xs.drop b).length < xs.length := by
        simp only [List.length_drop]; omega
      rcases bufPass past (List.take b xs) brs hs with ⟨o, hs'⟩
      simp only
      rw [splitLoopH_fuel brs b hb t f1 f2 _ hs' (xs.drop b) (by omega) (by omega)]

/-- `Source(Sequence(*xs), *tl)()` when every argument of the inner sequence has a value `vs[i]` as an object
of a flow: the flow that enters `Sequence(*tl)` is exactly these values, one per argument (none is dropped) -/
theorem source_of_sequence_vals (xs tl : List (Element α)) (vs : List α) (hv : xs.map (·.asValue) = vs.map some)
    (sx : Seq α) (hx : mkSequence xs = .ok sx) (src : Src α) (hsrc : mkSource (sx.toElement :: tl) = .ok src) :
    ∃ s, mkSequence tl = .ok s ∧ src.call = s.run (.ofList vs) ∧ vs.length = xs.length := by
  obtain ⟨s, hs, hc⟩ := (source_of_sequence xs tl sx hx).1 src hsrc
  have hfm : ∀ (ys : List (Element α)) (ws : List α), ys.map (·.asValue) = ws.map some → ys.filterMap (·.asValue) = ws := by
    intro ys
    induction ys with
    | nil => intro ws h; cases ws <;> simp_all
    | cons y ys ih =>
      intro ws h
      cases ws with
      | nil => simp at h
      | cons w ws =>
        simp only [List.map_cons, List.cons.injEq] at h
        simp [List.filterMap_cons, h.1, ih ws h.2]
  refine ⟨s, hs, ?_, ?_⟩
  · rw [hc, hfm xs vs hv]
  · have := congrArg List.length hv
    simpa using this.symm

/-- the first call of a `Source` object is `Source.__call__` (for a tail whose first run is its run) -/
theorem callAt_zero (s : Src α)
    (h : ∀ t, s.tail = some t → t.rerun [] = t.run) : s.callAt 0 = s.call := by
  have hf : s.flowAt 0 = s.flow := by
    unfold Src.flowAt Src.flow
    by_cases hc : s.first.call = true <;> by_cases ho : s.first.onePass = true <;> simp [hc, ho]
  unfold Src.callAt Src.call
  cases ht : s.tail with
  | none => simp [hf]
  | some t =>
    simp only [hf, Src.pastFlows, List.range_zero, List.filterMap_nil, h t ht]

/-! examples (non-vacuity) -/

/-- `seq_append`: `Sequence(inc, rev)` is `Sequence(inc)` followed by `Sequence(rev)` -/
example :
    let inc : Element Nat := { call := true, callDen := fun x => .ok (x + 1) }
    let rev : Element Nat := { run := .method, runDen := fun s => .ok (reverseS s) }
    ((mkSequence ([inc] ++ [rev])).toOption.map (fun s => observe (s.run (.ofList [1, 2]))) = some (.ofList [3, 2])) ∧
    ((mkSequence [inc]).toOption.map (fun s => observe (s.run (.ofList [1, 2]))) = some (.ofList [2, 3])) ∧
    ((mkSequence [rev]).toOption.map (fun s => observe (s.run (.ofList [2, 3]))) = some (.ofList [3, 2])) := by
  refine ⟨?_, ?_, ?_⟩ <;> decide

/-- `rerun_nil` / `splitH_seq`: a Split over two stateless branches, bufsize 2 -/
example :
    let inc : Stage Nat := fun s => .ok (mapS (fun x => .ok (x + 1)) s)
    let dbl : Stage Nat := fun s => .ok (mapS (fun x => .ok (2 * x)) s)
    splitH (seqBranches [inc, dbl]) (some 2) [] [] (.ofList [1, 2, 3]) = .ofList [2, 3, 2, 4, 4, 6] ∧
    splitS [inc, dbl] (some 2) (.ofList [1, 2, 3]) = .ofList [2, 3, 2, 4, 4, 6] := by
  constructor <;> decide

/-- `mkBranch_error`: a tuple `(reverse-like element, fill/compute element)` — the first has `run` but cannot be
filled value by value — is rejected; `(callable, fill/compute element)` is accepted -/
example :
    let rev : Element Nat := { run := .method }
    let inc : Element Nat := { call := true }
    let acc : Element Nat := { fill := .method, compute := .method }
    errorOf (mkBranch [rev, acc]) = some .lenaTypeError ∧ errorOf (mkBranch [inc, acc]) = none := by
  constructor <;> decide

/-- `source_of_sequence_vals`: `Source(Sequence(a, b))()` yields the two objects -/
example :
    let a : Element Nat := { call := true, asValue := some 100 }
    let b : Element Nat := { run := .method, asValue := some 200 }
    (mkSequence [a, b]).toOption.bind (fun sx => (mkSource [sx.toElement]).toOption.map (fun s => observe s.call))
      = some (.ofList [100, 200]) := by decide

/-- `mapS_total` / `filterS_total` / `fcSpec_total` on a flow that ends in an exception -/
example :
    mapS (fun x => .ok (x + 1)) (⟨[1, 2], some .valueError⟩ : Strm Nat) = ⟨[2, 3], some .valueError⟩ ∧
    filterS (fun x => .ok (x % 2 == 0)) (⟨[1, 2], some .valueError⟩ : Strm Nat) = ⟨[2], some .valueError⟩ ∧
    errorOf (fcSpec ({ computeDen := fun h => .ok (.ofList h) } : Element Nat) (some .valueError) [] [1, 2])
      = some .valueError := by
  refine ⟨?_, ?_, ?_⟩ <;> decide

/-- `accFillQ_noFloat`: filling the integer 5 into `Sum` -/
example : (accFillQ .sum {} (.int 5)).toOption.map (fun s => (s.base.total, s.fl)) = some (5, none) := by decide

/-- a `Source` object called twice: a container is iterated again, a one-pass iterator is exhausted -/
example :
    let lst : Element Nat := { hasIter := true, iterDen := .ofList [1, 2] }
    let it : Element Nat := { hasIter := true, onePass := true, iterDen := .ofList [1, 2] }
    let inc : Element Nat := { call := true, callDen := fun x => .ok (x + 1) }
    (mkSource [lst, inc]).toOption.map (fun s => (observe (s.callAt 0), observe (s.callAt 1)))
      = some (.ofList [2, 3], .ofList [2, 3]) ∧
    (mkSource [it, inc]).toOption.map (fun s => (observe (s.callAt 0), observe (s.callAt 1)))
      = some (.ofList [2, 3], .ofList []) := by
  constructor <;> decide


/-- the integers among the values of an observed run (for the examples: `Value` has no decidable equality) -/
def intsOf (s : Strm Value) : List Int × Option Exc :=
  (s.vals.filterMap (fun v => match v with | .int i => some i | _ => none), s.term)

/-- `toTree_build` / `spec_regroup`, evaluated: `Sequence(inc, Sequence(Reverse(), Slice(-1)))` and
`Sequence(Sequence(inc, Reverse()), Slice(-1))` on `1, 2, 3`, through `Spec.toElement` and through `build ∘ Spec.toTree` -/
example :
    let p : List Spec := [.call .inc, .seq [.reverse, .slice none (some (-1)) none]]
    let q : List Spec := [.seq [.call .inc, .reverse], .slice none (some (-1)) none]
    let flow : Strm Value := .ofList [.int 1, .int 2, .int 3]
    (Spec.toElement (.seq p)).toOption.map (fun e => intsOf (observe (e.invokeRun flow))) = some ([4, 3], none) ∧
    (Spec.toElement (.seq q)).toOption.map (fun e => intsOf (observe (e.invokeRun flow))) = some ([4, 3], none) ∧
    ((Spec.toTree (.seq p)).toOption.bind (fun t => (build t).toOption)).map
        (fun e => intsOf (observe (e.invokeRun flow))) = some ([4, 3], none) := by
  refine ⟨?_, ?_, ?_⟩ <;> decide

end Lena.C01
