import LenaModel.Model.C01
/-! # C01 — property theorems (stub, being written) -/
