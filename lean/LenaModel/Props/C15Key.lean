import LenaModel.Lemmas.C08Str
import LenaModel.Props.C15
import LenaModel.Model.C15Key
/-! # C15 ↔ C08: the group key as `to_string` sees it

The model of C15 keys the groups of `GroupBy` by the selected sub-context; the code keys them by its
`to_string`.  With C08's `to_string_inj` (re-derived here from `Lemmas/C08Str.lean`) the two keyings coincide (`group_key_to_string`). -/
namespace Lena.C15

theorem toLeaf08_inj : ∀ a b : Leaf, toLeaf08 a = toLeaf08 b → a = b := by
  intro a b h
  cases a <;> cases b <;> simp_all [toLeaf08]

theorem getD_inj {names : List String} (hn : names.Nodup) {i j : Nat} (hi : i < names.length) (hj : j < names.length)
    (h : names.getD i "" = names.getD j "") : i = j :=
  (List.getD_inj hi hj hn).1 h

/-- looking up the key of slot `k + j` in the dictionary of the slots from `k` on -/
theorem lookup_toEntries08 (names : List String) (hn : names.Nodup) : ∀ (l : Slots) (k j : Nat),
    k + l.length ≤ names.length → j < l.length →
    C08.lookup (toEntries08 names k l) (names.getD (k + j) "") = (slotGet l j).map (toVal08 names)
  | [], _, _, _, hj => by simp at hj
  | x :: r, k, j, hl, hj => by
    have hlen : k + 1 + r.length ≤ names.length := by simp at hl; omega
    cases j with
    | zero =>
      cases x with
      | none =>
        rw [toEntries08, slotGet_cons_zero]
        -- the key of slot `k` does not occur among the later slots
        simp only [Nat.add_zero, Option.map_none]
        exact lookup_later names hn r (k + 1) k (by omega) hlen
      | some v => simp [toEntries08, slotGet_cons_zero, C08.lookup]
    | succ j =>
      have ih := lookup_toEntries08 names hn r (k + 1) j hlen (by simpa using hj)
      rw [show k + 1 + j = k + (j + 1) by omega] at ih
      cases x with
      | none => rw [toEntries08, slotGet_cons_succ, ih]
      | some v =>
        rw [toEntries08, slotGet_cons_succ, C08.lookup]
        have hne : names.getD k "" ≠ names.getD (k + (j + 1)) "" := by
          intro e
          have := getD_inj hn (by simp at hl; omega) (by simp at hl hj; omega) e
          omega
        rw [if_neg hne, ih]
where
  lookup_later (names : List String) (hn : names.Nodup) : ∀ (r : Slots) (k i : Nat), i < k →
      k + r.length ≤ names.length → C08.lookup (toEntries08 names k r) (names.getD i "") = none
    | [], _, _, _, _ => by simp [toEntries08]
    | none :: r, k, i, hi, hl => by
      rw [toEntries08]; exact lookup_later names hn r (k + 1) i (by omega) (by simp at hl; omega)
    | some v :: r, k, i, hi, hl => by
      rw [toEntries08, C08.lookup]
      have hne : names.getD k "" ≠ names.getD i "" := by
        intro e
        have := getD_inj hn (by simp at hl; omega) (by simp at hl; omega) e
        omega
      rw [if_neg hne]
      exact lookup_later names hn r (k + 1) i (by omega) (by simp at hl; omega)


mutual
theorem toVal08_inj (names : List String) (hn : names.Nodup) : ∀ (v1 v2 : Val),
    WFV names.length v1 → WFV names.length v2 → C08.DictEq (toVal08 names v1) (toVal08 names v2) → v1 = v2
  | .leaf a, .leaf b, _, _, h => by
    rw [toVal08, toVal08] at h
    have key : ∀ x y, C08.DictEq (.leaf x) (.leaf y) → x = y := by intro x y h; cases h; rfl
    rw [toLeaf08_inj a b (key _ _ h)]
  | .leaf a, .dict l, _, _, h => by rw [toVal08, toVal08] at h; cases h
  | .dict l, .leaf a, _, _, h => by rw [toVal08, toVal08] at h; cases h
  | .dict l1, .dict l2, w1, w2, h => by
    rw [WFV_dict] at w1 w2
    rw [toVal08, toVal08] at h
    cases h with
    | dict _ _ h1 h2 =>
      have hl : l1.length = l2.length := by rw [w1.1, w2.1]
      rw [slots08_inj names hn l1 l2 hl w1.2 w2.2]
      intro j hj
      have e1 := lookup_toEntries08 names hn l1 0 j (by omega) hj
      have e2 := lookup_toEntries08 names hn l2 0 j (by omega) (by omega)
      refine ⟨?_, ?_⟩
      · have := h1 (names.getD (0 + j) "")
        rw [e1, e2] at this
        simpa using this
      · intro v w hv hw
        apply h2 (names.getD (0 + j) "")
        · rw [e1, hv]; rfl
        · rw [e2, hw]; rfl
theorem slots08_inj (names : List String) (hn : names.Nodup) : ∀ (l1 l2 : Slots), l1.length = l2.length →
    WFL names.length l1 → WFL names.length l2 →
    (∀ j, j < l1.length → (slotGet l1 j).isSome = (slotGet l2 j).isSome ∧
      ∀ v w, slotGet l1 j = some v → slotGet l2 j = some w → C08.DictEq (toVal08 names v) (toVal08 names w)) →
    l1 = l2
  | [], [], _, _, _, _ => rfl
  | [], _ :: _, hl, _, _, _ => by simp at hl
  | _ :: _, [], hl, _, _, _ => by simp at hl
  | x1 :: r1, x2 :: r2, hl, w1, w2, h => by
    have hl' : r1.length = r2.length := by simpa using hl
    have htail : ∀ j, j < r1.length → (slotGet r1 j).isSome = (slotGet r2 j).isSome ∧
        ∀ v w, slotGet r1 j = some v → slotGet r2 j = some w → C08.DictEq (toVal08 names v) (toVal08 names w) := by
      intro j hj
      have := h (j + 1) (by simp; omega)
      simpa [slotGet_cons_succ] using this
    have h0 := h 0 (by simp)
    simp only [slotGet_cons_zero] at h0
    cases x1 with
    | none =>
      cases x2 with
      | none =>
        rw [WFL_cons_none] at w1 w2
        rw [slots08_inj names hn r1 r2 hl' w1 w2 htail]
      | some v2 => simp at h0
    | some v1 =>
      cases x2 with
      | none => simp at h0
      | some v2 =>
        rw [WFL_cons_some] at w1 w2
        rw [slots08_inj names hn r1 r2 hl' w1.2 w2.2 htail,
          toVal08_inj names hn v1 v2 w1.1 w2.1 (h0.2 v1 v2 rfl rfl)]
end

/-- **the group key and `to_string`**: `GroupBy.fill` keys its dictionary of groups by
`to_string(key_dict)`; C15's model keys it by the selected sub-context itself.  Over a key alphabet without
repetitions, two selected sub-contexts have the same `to_string` (C08's token-level model of
`json.dumps(sort_keys=True)`) exactly when they are the same slot vector — so the two keyings give the same
groups. -/
theorem group_key_to_string (names : List String) (hn : names.Nodup) (k1 k2 : Slots)
    (w1 : WFV names.length (.dict k1)) (w2 : WFV names.length (.dict k2)) :
    C08.toTokens (toVal08 names (.dict k1)) = C08.toTokens (toVal08 names (.dict k2)) ↔ k1 = k2 := by
  constructor
  · intro h
    -- C08's `to_string_inj`, from the lemmas it is proved with (this file does not depend on `Props/C08.lean`)
    have hinj : C08.DictEq (toVal08 names (.dict k1)) (toVal08 names (.dict k2)) := by
      rw [C08.toTokens_eq_raw, C08.toTokens_eq_raw] at h
      exact C08.dictEq_of_canon_eq _ _ (C08.rawTokens_injective _ _ h)
    have := toVal08_inj names hn _ _ w1 w2 hinj
    injection this
  · intro h; rw [h]

end Lena.C15
