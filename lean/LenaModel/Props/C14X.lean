import LenaModel.Model.C14X
import LenaModel.Props.C14
import LenaModel.Props.C14Tok
/-! # C14 — theorems of the adversary round

* **a flow of several values** (`Sequence(v₁..vₙ).run(flow)`): `seqRun_get` — result number `k` is what value
  number `k` gives when it is applied alone (so equal values of a flow give equal results: `seqRun_equal_values`);
  `seqRun_eq_compose_partial` — sentence 1 for flows: the `Compose` as the only element of a Sequence and the Sequence
  of the variables give the same results on every flow (under the hypotheses of `compose_eq_sequence_partial` for
  every value of the flow).
* **attributes changed through the public dictionary** `var_context`: `var.var_context[a] = x` is `setAttr`
  (`setAttr_reaches_context` applies); `del var.var_context[a]`: `getAttr_delAttr`, `getAttr_delAttr_ne`,
  `delAttr_leaves_context` (the attribute no longer reaches `context.variable`, unless it is kept as the sub-context of
  an earlier type).
* **constructing a `Compose` changes none of its arguments** (on object identities): `composeInitT_args_untouched` —
  no step of `Compose.__init__` writes to an object of an argument's `var_context`, and the `var_context` of the new
  `Compose` shares no object with any argument (`composeInitT_result_fresh`), whatever the number of arguments
  (one argument: the deep copy of line 352).
* **constructing a `Combine` changes none of its arguments**: `combineInitT_fresh`.
* **the name of a `Combine`**: `combine_name` — the keyword `name` whatever its value (also `""`), else the joined
  names; `combine_name_reaches_context`.
* the Boolean hypotheses as the driver computes them: `chainWFk_eq`, `chainOKk_eq` (equal to `chainWFb`, `chainOKb`).
* **seed round I/J** (end of the file): `compose_data_eq_sequence_data` — the DATA of `Compose` and of the Sequence agree
  and are the getters applied in order with no hypothesis at all on getters, types or attribute names (an intermediate
  `None` included); `compose_applies_every_getter`; `type_subcontext_complete` — every attribute of a typed variable,
  whatever its name (`dim`, `combine`, …), is under its type; `combine_typed_subcontext` — a `Combine` with a type has
  `dim`, `combine` and its keywords under its type. -/
namespace Lena.C14
open V

section
variable {names : List String} {D : Type}

/-! ## flows -/

/-- **every value of a flow is transformed as if it were applied alone** -/
theorem seqRun_get (fx : Bool) (vars : List (Variable D)) :
    ∀ (xs : List (Value D)) (k : Nat) (y : Except Err (D × Slots)), (seqRun names fx vars xs)[k]? = some y →
      ∃ x, xs[k]? = some x ∧ y = seqCall names fx vars x
  | [], k, y, h => by simp [seqRun] at h
  | x :: r, k, y, h => by
    simp only [seqRun] at h
    cases hc : seqCall names fx vars x with
    | error e =>
      rw [hc] at h
      cases k with
      | zero => simp at h; exact ⟨x, by simp, by rw [← h, hc]⟩
      | succ k => simp at h
    | ok z =>
      rw [hc] at h
      cases k with
      | zero => simp at h; exact ⟨x, by simp, by rw [← h, hc]⟩
      | succ k =>
        simp only [List.getElem?_cons_succ] at h
        obtain ⟨x', hx', hy⟩ := seqRun_get fx vars r k y h
        exact ⟨x', by simpa using hx', hy⟩

/-- a flow without exceptions: the results are the values' results, in order, one for every value -/
theorem seqRun_eq_map (fx : Bool) (vars : List (Variable D)) :
    ∀ (xs : List (Value D)), (∀ x ∈ xs, ∃ y, seqCall names fx vars x = .ok y) →
      seqRun names fx vars xs = xs.map (seqCall names fx vars)
  | [], _ => by simp [seqRun]
  | x :: r, h => by
    obtain ⟨y, hy⟩ := h x (by simp)
    simp only [seqRun, hy, List.map_cons]
    rw [seqRun_eq_map fx vars r (fun x' hx' => h x' (by simp [hx']))]

/-- **repeated application to equal values gives equal results**, in one flow: two positions of a flow that hold
equal values give equal results -/
theorem seqRun_equal_values (fx : Bool) (vars : List (Variable D)) (xs : List (Value D)) (i j : Nat)
    (yi yj : Except Err (D × Slots)) (hi : (seqRun names fx vars xs)[i]? = some yi)
    (hj : (seqRun names fx vars xs)[j]? = some yj) (heq : xs[i]? = xs[j]?) : yi = yj := by
  obtain ⟨x1, h1, e1⟩ := seqRun_get fx vars xs i yi hi
  obtain ⟨x2, h2, e2⟩ := seqRun_get fx vars xs j yj hj
  rw [h1, h2] at heq
  cases heq
  rw [e1, e2]

/-- a `Sequence` of one variable applies that variable -/
theorem seqCall_single (fx : Bool) (c : Variable D) (x : Value D) :
    seqCall names fx [c] x = call names fx c x := by
  simp only [seqCall]
  cases call names fx c x with
  | error e => rfl
  | ok p => obtain ⟨d, cc⟩ := p; simp [getDataContext]

/-- **sentence 1 on flows**: under the hypotheses of `compose_eq_sequence_partial` for every value of the flow, the
`Compose` is constructed without an exception (a non-empty flow provides the value the hypotheses speak about) and, as
the only element of a Sequence, gives the same results on the flow as the Sequence of the variables -/
theorem seqRun_eq_compose_partial (hn : NamesOK names) (vars : List (Variable D)) (hne : vars ≠ [])
    (xs : List (Value D)) (h : ∀ x ∈ xs, ChainWF names (cvarOf names x) (vars.map Variable.varCtx)) :
    (xs ≠ [] → ∃ c, mkCompose names true (vars.map some) (emptyD names.length) = .ok c) ∧
    ∀ c, mkCompose names true (vars.map some) (emptyD names.length) = .ok c →
      seqRun names true [c] xs = seqRun names true vars xs := by
  refine ⟨fun hx => ?_, fun c hc => ?_⟩
  · cases xs with
    | nil => exact absurd rfl hx
    | cons x0 r =>
      obtain ⟨c, hc, _⟩ := compose_eq_sequence_partial hn vars hne x0 (h x0 (by simp))
      exact ⟨c, hc⟩
  · induction xs with
    | nil => simp [seqRun]
    | cons y ys ih =>
      obtain ⟨c', hc', heq⟩ := compose_eq_sequence_partial hn vars hne y (h y (by simp))
      rw [hc] at hc'
      cases hc'
      simp only [seqRun, seqCall_single, heq]
      rw [ih (fun z hz => h z (by simp [hz]))]

/-! ## attributes changed through the public dictionary `var_context` -/

/-- after `del var.var_context[a]` the attribute is missing: `var.a` raises `LenaAttributeError` -/
theorem getAttr_delAttr (v : Variable D) (a : String) (ha : a.startsWith "_" = false) :
    getAttr names (delAttr names v a) a = .error .lenaAttributeError := by
  simp [getAttr, delAttr, ha, getSlot_setSlot]

/-- … and every other attribute is as before -/
theorem getAttr_delAttr_ne (v : Variable D) (a b : String) (h : key names b ≠ key names a) :
    getAttr names (delAttr names v a) b = getAttr names v b := by
  simp [getAttr, delAttr, getSlot_setSlot, h]

/-- **the deleted attribute no longer reaches the context**: applied to a value that carries no `context.variable`
(nothing an earlier type could have left under that name), `context.variable` has no binding for it -/
theorem delAttr_leaves_context {fx : Bool} (v : Variable D) (a : String) {y : Value D} {d : D} {c : Slots}
    (hy : cvarOf names y = none) (h : call names fx (delAttr names v a) y = .ok (d, c)) :
    ∃ r, getSlot c (kVariable names) = some (.dict r) ∧ getSlot r (key names a) = none := by
  unfold call updateContext at h
  unfold cvarOf at hy
  generalize hg : getDataContext names y = p at h hy
  obtain ⟨d0, c0⟩ := p
  simp only [] at hy
  simp only [hy, updateVar] at h
  simp at h
  refine ⟨(delAttr names v a).varCtx, ?_, by simp [delAttr, getSlot_setSlot]⟩
  rw [← h.2, getSlot_setSlot]; simp

/-- `var.var_context[a] = x` is what `__setattr__` does (line 164), so `setAttr_reaches_context` covers it; here the
same for an attribute value changed IN PLACE, which on values is the assignment of the changed value: whatever value
the attribute has when the variable is applied is the one `context.variable` gets -/
theorem current_attribute_reaches_context {fx : Bool} (v : Variable D) (a : String) (x : V)
    (hac : key names a ≠ kCompose names) (hcur : getSlot v.varCtx (key names a) = some x)
    {y : Value D} {d : D} {c : Slots} (h : call names fx v y = .ok (d, c)) :
    ∃ r, getSlot c (kVariable names) = some (.dict r) ∧ getSlot r (key names a) = some x := by
  obtain ⟨r, hr, hall⟩ := call_carries_attributes h
  exact ⟨r, hr, hall _ hac x hcur⟩

/-! ## the name of a `Combine` -/

/-- **The name of a `Combine`** (sentence 2, "`context.variable` carries the name … of the resulting variable", for
`Combine`, which `combine_context` leaves out): whenever `Combine(v₁,…,vₙ, **kw)` without a `type` keyword can be
constructed, its name is the keyword `name` if that keyword was given — WHATEVER value it has, the empty string and
other falsy values included (line 289 tests `name is None`, not the truth value of the name) — and the variables'
names joined with `"_"` if it was not. -/
theorem combine_name (hn : NamesOK names) (hcomb : "combine" ∈ names) (hdim : "dim" ∈ names)
    (tup : List D → D) (args : List (Option (Variable D))) (kw : Slots)
    (hkt : getSlot kw (kType names) = none) {c : Variable D}
    (h : mkCombine names tup args kw = .ok c) :
    (∀ x, getSlot kw (kName names) = some x → nameOf names c = .ok x) ∧
    (getSlot kw (kName names) = none → joinedName names (args.filterMap id) = nameOf names c) := by
  have hct : kCombine names ≠ kType names := by
    intro he; have := key_inj hcomb he; simp at this
  have hcn : kCombine names ≠ kName names := by
    intro he; have := key_inj hcomb he; simp at this
  have hdt : kDim names ≠ kType names := by
    intro he; have := key_inj hdim he; simp at this
  have hdn : kDim names ≠ kName names := by
    intro he; have := key_inj hdim he; simp at this
  unfold mkCombine at h
  split at h
  · cases h
  · split at h
    · cases h
    · simp only [] at h
      split at h
      · cases h
      · rename_i name hname
        split at h
        · cases h
        · rename_i hnodim
          split at h
          · cases h
          · -- the `type` handed to `Variable.__init__` is absent, i.e. `""`
            have hty : getSlot (setSlot (setSlot (dictUpdate (emptyD names.length) (setSlot kw (kName names) none))
                (kDim names) (some (.int (List.filterMap id args).length))) (kCombine names)
                (some (.seq true ((List.filterMap id args).map (fun v => V.dict v.varCtx))))) (kType names) = none := by
              rw [getSlot_setSlot, getSlot_setSlot, getSlot_dictUpdate, getSlot_setSlot]
              simp [Ne.symm hct, Ne.symm hdt, hkt, Ne.symm hn.name_ne_type]
            rw [hty] at h
            simp only [Option.getD_none, mkVariable, truthy, bne_self_eq_false, Bool.not_false] at h
            simp only [if_true] at h
            cases h
            have hnm : nameOf names (⟨fun x => tup ((List.filterMap id args).map (fun v => v.getter x)),
                dictUpdate (setSlot (emptyD names.length) (kName names) (some name))
                  (setSlot (setSlot (setSlot (dictUpdate (emptyD names.length) (setSlot kw (kName names) none))
                    (kDim names) (some (.int (List.filterMap id args).length))) (kCombine names)
                    (some (.seq true ((List.filterMap id args).map (fun v => V.dict v.varCtx))))) (kType names) none)⟩ :
                  Variable D) = .ok name := by
              simp only [nameOf]
              rw [getSlot_dictUpdate, getSlot_setSlot, getSlot_setSlot, getSlot_setSlot, getSlot_dictUpdate,
                getSlot_setSlot, getSlot_setSlot]
              simp [hn.name_ne_type, Ne.symm hcn, Ne.symm hdn]
            refine ⟨fun x hx => ?_, fun hx => ?_⟩
            · rw [hx] at hname
              cases hname
              exact hnm
            · rw [hx] at hname
              simp only [] at hname
              rw [hname]
              exact hnm.symm

/-- … and that name is the one `context.variable` carries after the `Combine` has been applied (to any value) -/
theorem combine_name_reaches_context (hn : NamesOK names) (hcomb : "combine" ∈ names) (hdim : "dim" ∈ names)
    (tup : List D → D) (args : List (Option (Variable D))) (kw : Slots)
    (hkt : getSlot kw (kType names) = none) {c : Variable D} (h : mkCombine names tup args kw = .ok c)
    (x : V) (hx : getSlot kw (kName names) = some x)
    {fx : Bool} {y : Value D} {d : D} {ctx : Slots} (hc : call names fx c y = .ok (d, ctx)) :
    ∃ r, getSlot ctx (kVariable names) = some (.dict r) ∧ getSlot r (kName names) = some x := by
  have hnm := (combine_name hn hcomb hdim tup args kw hkt h).1 x hx
  obtain ⟨r, hr, hall⟩ := call_carries_attributes hc
  refine ⟨r, hr, hall _ hn.name_ne_compose x ?_⟩
  unfold nameOf at hnm
  split at hnm
  · rename_i z hz; cases hnm; exact hz
  · cases hnm

end

/-- `Combine(x, y, name="")` is constructed and its name is `""`, not `x_y` (alphabet
`combine, compose, dim, getter, name, ta, type, variable`; the hypotheses of `combine_name` are satisfiable) -/
example :
    let ns := ["combine", "compose", "dim", "getter", "name", "ta", "type", "variable"]
    let x : Variable Nat := ⟨(· + 1), setSlot (emptyD 8) 4 (some (.str "x"))⟩
    let y : Variable Nat := ⟨(2 * ·), setSlot (setSlot (emptyD 8) 4 (some (.str "y"))) 6 (some (.str "ta"))⟩
    (match mkCombine ns (fun l => l.sum) [some x, some y] (setSlot (emptyD 8) 4 (some (.str ""))) with
     | .ok c => (match nameOf ns c with | .ok n => some n | .error _ => none,
                 match call ns true c (.bare 5) with
                 | .ok (d, ctx) => (d, match getSlot ctx 7 with | some (.dict r) => getSlot r 4 | _ => none)
                 | .error _ => (0, none))
     | .error _ => (none, 0, none)) = (some (.str ""), 16, some (.str "")) := by rfl

section
variable {names : List String} {D : Type}

/-! ## the Boolean hypotheses as the driver computes them -/

theorem inT_eq_keysOf (T : List V) (j : Nat) : inT names T j = (keysOf names T).contains j := by
  induction T with
  | nil => simp [inT, keysOf]
  | cons t r ih =>
    unfold inT at ih ⊢
    rw [List.any_cons, ih]
    cases t with
    | str s =>
      simp only [keysOf, List.filterMap_cons, List.contains_cons]
      rw [BEq.comm (a := key names s)]
    | int i => simp [keysOf]
    | seq b l => simp [keysOf]
    | dict l => simp [keysOf]

theorem noClashK_eq (T : List V) (x : Slots) : noClashK names (keysOf names T) x = noClashB names T x := by
  simp only [noClashK, noClashB, inT_eq_keysOf]

theorem chainWFk_eq (cv : Option V) (as : List Slots) : chainWFk names cv as = chainWFb names cv as := by
  simp only [chainWFk, chainWFb, noClashK_eq, inT_eq_keysOf]
  rfl

theorem kwOKk_eq (T : List V) (kw : Slots) : kwOKk names (keysOf names T) kw = kwOKb names T kw := by
  simp only [kwOKk, kwOKb, inT_eq_keysOf]

mutual
theorem exprOKk_eq (T : List V) : ∀ e : Expr D, exprOKk names (keysOf names T) e = exprOKb names T e
  | .other => by simp [exprOKk, exprOKb]
  | .var _ _ _ _ => by simp only [exprOKk, exprOKb, kwOKk_eq]; rfl
  | .compose args _ => by simp only [exprOKk, exprOKb, kwOKk_eq, argsOKk_eq T args]
  | .combine args _ => by simp only [exprOKk, exprOKb, kwOKk_eq, argsOKk_eq T args]
theorem argsOKk_eq (T : List V) : ∀ es : List (Expr D), argsOKk names (keysOf names T) es = argsOKb names T es
  | [] => by simp [argsOKk, argsOKb]
  | e :: r => by simp only [argsOKk, argsOKb, exprOKk_eq T e, argsOKk_eq T r]
end

theorem chainOKk_eq (cv : Option V) (es : List (Expr D)) : chainOKk names cv es = chainOKb names cv es := by
  simp only [chainOKk, chainOKb, argsOKk_eq, noClashK_eq]
  rfl

end
namespace Tok
variable {names : List String}

/-- the context object `compose` that `Compose.__init__` starts from is made of new objects only -/
theorem composeInitT_start {fx : Bool} {next : Nat} {vars : List (Nat × TSlots)}
    {init : (Nat × TSlots) × List (Except Err CallRes)} (h : composeInitT names fx next vars = some init) :
    ∃ vt vc rest n1, vars = (vt, vc) :: rest ∧ next + 1 ≤ n1 ∧
      (∀ t ∈ tokens (.dict init.1.1 init.1.2), next ≤ t ∧ t < n1) ∧
      init.2 = seqT names fx rest n1 (some init.1) := by
  cases vars with
  | nil => simp [composeInitT] at h
  | cons w rest =>
    obtain ⟨vt, vc⟩ := w
    have hsp := deepcopyT_spec (next + 1) (.dict vt vc)
    simp only [composeInitT] at h
    generalize hd : deepcopyT (next + 1) (.dict vt vc) = p at h hsp
    obtain ⟨copy, n1⟩ := p
    simp only [Option.some.injEq] at h
    subst h
    refine ⟨vt, vc, rest, n1, rfl, hsp.1, ?_, rfl⟩
    intro t ht
    have hall : AllS (fun t => next ≤ t ∧ t < n1)
        (setT (List.replicate names.length none) (kVariable names) (some copy)) := by
      refine AllS_setT (P := fun t => next ≤ t ∧ t < n1) (AllS_replicate _ _) _ ?_
      intro x hx
      cases hx
      exact AllT.mono (fun t ht => ⟨by omega, ht.2⟩) hsp.2.1
    simp only [tokens, List.mem_cons] at ht
    rcases ht with rfl | ht
    · exact ⟨Nat.le_refl _, by omega⟩
    · exact hall t ht

/-- **Constructing `Compose(v₁, …, vₙ)` changes none of the variables `v₁ … vₙ`**, for any number of arguments (one
included): no step of `Compose.__init__` writes to an object of an argument's `var_context`, and neither the context
object it works on nor any intermediate result contains an object of an argument.  Hypothesis: the arguments'
objects exist when the constructor is called (their tokens are below the counter). -/
theorem composeInitT_args_untouched {fx : Bool} {next : Nat} {vars : List (Nat × TSlots)}
    (hold : ∀ w ∈ vars, ∀ t ∈ tokens (.dict w.1 w.2), t < next)
    {init : (Nat × TSlots) × List (Except Err CallRes)} (h : composeInitT names fx next vars = some init) :
    (∀ w ∈ vars, ∀ t ∈ tokens (.dict init.1.1 init.1.2), t ∉ tokens (.dict w.1 w.2)) ∧
    ∀ r, .ok r ∈ init.2 → ∀ w ∈ vars,
      (∀ t ∈ r.writes, t ∉ tokens (.dict w.1 w.2)) ∧
      (∀ t ∈ tokens (.dict r.ctxTok r.ctx), t ∉ tokens (.dict w.1 w.2)) := by
  obtain ⟨vt, vc, rest, n1, hv, hn1, hfresh, hsteps⟩ := composeInitT_start h
  have hdis : ∀ w ∈ vars, ∀ t ∈ tokens (.dict init.1.1 init.1.2), t ∉ tokens (.dict w.1 w.2) := by
    intro w hw t ht hin
    have := hold w hw t hin
    have := (hfresh t ht).1
    omega
  refine ⟨hdis, fun r hr w hw => ?_⟩
  rw [hsteps] at hr
  have hsep : ∀ w ∈ vars, Sep n1 w.1 w.2 (some init.1) := by
    intro w hw
    refine ⟨fun t ht => ?_, fun t ht hin => ?_⟩
    · have := hold w hw t ht; omega
    · exact hdis w hw t (by simpa [ctxTokens] using hin) ht
  exact seqT_variables_untouched fx vars rest n1 (some init.1) hsep r hr w hw

/-- … so the `var_context` of the new `Compose` shares no object with any of its arguments (a later change of the
composition — `Compose(x, unit="mm")`, `c.unit = "cm"`, `c.var_context[...] = …` — cannot reach them) -/
theorem composeInitT_result_fresh {fx : Bool} {next : Nat} {vars : List (Nat × TSlots)}
    (hold : ∀ w ∈ vars, ∀ t ∈ tokens (.dict w.1 w.2), t < next)
    {init : (Nat × TSlots) × List (Except Err CallRes)} (h : composeInitT names fx next vars = some init)
    {res : TV} (hres : composeInitResult names init = some res) :
    ∀ w ∈ vars, ∀ t ∈ tokens res, t ∉ tokens (.dict w.1 w.2) := by
  obtain ⟨h1, h2⟩ := composeInitT_args_untouched hold h
  intro w hw t ht
  unfold composeInitResult at hres
  cases hl : init.2.getLast? with
  | none =>
    rw [hl] at hres
    simp only [] at hres
    have hall : AllS (fun t => t ∈ tokensS init.1.2) init.1.2 := fun t ht => ht
    have := AllS_getT hall hres t ht
    exact h1 w hw t (by simp [tokens, this])
  | some last =>
    rw [hl] at hres
    cases last with
    | error e => simp at hres
    | ok r =>
      simp only [] at hres
      have hmem : Except.ok r ∈ init.2 := List.mem_of_getLast? hl
      have hall : AllS (fun t => t ∈ tokensS r.ctx) r.ctx := fun t ht => ht
      have := AllS_getT hall hres t ht
      exact (h2 r hmem w hw).2 t (by simp [tokens, this])

/-! ### `Combine.__init__` on identities -/

theorem eraseL_map_dict (vars : List (Nat × TSlots)) :
    eraseL (vars.map (fun w => TV.dict w.1 w.2)) = vars.map (fun w => V.dict (eraseS w.2)) := by
  induction vars with
  | nil => simp [eraseL]
  | cons w r ih => simp [eraseL, erase, ih]

/-- **Constructing `Combine(v₁, …, vₙ)` keeps each variable's description**: the tuple `var_context["combine"]` of the
new `Combine` is made of new objects only (tokens from the counter on), so it shares no object with the `var_context`
of any argument (a later change of the `Combine`'s context cannot reach them), and on values it is the tuple of the
arguments' `var_context`s (the `combine` slot of `mkCombine`, see `combine_context`).  Hypothesis: the arguments'
objects exist when the constructor is called (their tokens are below the counter). -/
theorem combineInitT_fresh (next : Nat) (vars : List (Nat × TSlots))
    (hold : ∀ w ∈ vars, ∀ t ∈ tokens (.dict w.1 w.2), t < next) :
    (∀ w ∈ vars, ∀ t ∈ tokens (combineInitT next vars).1, t ∉ tokens (.dict w.1 w.2)) ∧
    (∀ t ∈ tokens (combineInitT next vars).1, next ≤ t ∧ t < (combineInitT next vars).2) ∧
    erase (combineInitT next vars).1 = .seq true (vars.map (fun w => V.dict (eraseS w.2))) := by
  have hsp := deepcopyT_spec next (.tuple (vars.map (fun w => TV.dict w.1 w.2)))
  refine ⟨fun w hw t ht hin => ?_, fun t ht => hsp.2.1 t ht, ?_⟩
  · have h1 := (hsp.2.1 t ht).1
    have h2 := hold w hw t hin
    omega
  · unfold combineInitT
    rw [hsp.2.2]
    simp [erase, eraseL_map_dict]

/-- `Combine(x)` of the variable `exVc` (objects 0, 1), counter 5: the tuple holds the copy made of the objects 5, 6 -/
example : combineInitT 5 [(0, exVc)] =
    (.tuple [.dict 5 [none, some (.str "v"), none, some (.dict 6 [none, some (.str "v"), none, none, none, none]),
      some (.str "ta"), none]], 7) := by rfl

/-! ### a concrete instance: `Compose(x)` of ONE variable (`exVc` of `Props/C14Tok.lean`: objects 0, 1), counter 5 -/

example : (composeInitT exN true 5 [(0, exVc)]).map (fun i => (i.1.1, getT i.1.2 5, i.2.length)) =
    some (5, some (.dict 6 [none, some (.str "v"), none, some (.dict 7 [none, some (.str "v"), none, none, none, none]),
      some (.str "ta"), none]), 0) := by rfl

end Tok
end Lena.C14

namespace Lena.C14
open V

section seedIJ
variable {names : List String} {D : Type}

/-! ## seed round I/J: getters are arbitrary functions; attribute names are arbitrary -/

/-- **`Compose(v₁..vₙ)` and the Sequence `(v₁..vₙ)` produce the same data, `vₙ.getter(…v₁.getter(x)…)`** — with NO
hypothesis on the getters, the types or the attribute names (the `NoClash` hypothesis of `compose_eq_sequence_partial`
concerns the context only): whenever both can be applied, the data agree and are the getters applied in order, whatever
an intermediate result is (`None`, a falsy value, an empty container, the object the getter was given, …: `D` is any
type, the getters any functions). -/
theorem compose_data_eq_sequence_data {fx : Bool} (vars : List (Variable D)) (kw : Slots) {c : Variable D}
    (hc : mkCompose names fx (vars.map some) kw = .ok c) (x : Value D) {d d' : D} {ctx ctx' : Slots}
    (hs : seqCall names fx vars x = .ok (d, ctx)) (hcall : call names fx c x = .ok (d', ctx')) :
    d' = d ∧ d = vars.foldl (fun y v => v.getter y) (getDataContext names x).1 := by
  have h1 := call_data hcall
  have h2 := seqCall_data vars x hs
  have h3 := compose_getter hc
  have h4 : (vars.map some).filterMap id = vars := by simp
  rw [h4] at h3
  refine ⟨?_, ?_⟩
  · rw [h1, h3, h2]
  · rw [h2]; rfl

/-- **no getter of a `Compose` is skipped**: the last getter is applied to whatever the getters before it produced
(there is no value of `D` — no "missing value" — that ends the composition early) -/
theorem compose_applies_every_getter {fx : Bool} (vs : List (Variable D)) (w : Variable D) (kw : Slots) {c : Variable D}
    (hc : mkCompose names fx ((vs ++ [w]).map some) kw = .ok c) (x : D) :
    c.getter x = w.getter (chainData vs x) := by
  have h3 := compose_getter hc
  have h4 : ((vs ++ [w]).map some).filterMap id = vs ++ [w] := by simp
  rw [h4] at h3
  rw [h3]
  simp [chainData, List.foldl_append]

/-- **all the attributes of a typed variable are available under its type, whatever their names** (`dim`, `combine`,
`variable`, `unit`, `range`, … are attribute names like any other): the sub-context `var_context[type]` of
`Variable(name, f, type=ty, **kw)` is the whole dictionary `{"name": name, **kw}`, so every keyword is in it. -/
theorem type_subcontext_complete {name : V} {f : D → D} {ty : String} {kw : Slots} {v : Variable D}
    (h : mkVariable names name (.fn f) (.str ty) kw = .ok v) (hty : ty ≠ "")
    (hk : key names ty ≠ kType names) :
    getSlot v.varCtx (key names ty) =
      some (.dict (dictUpdate (setSlot (emptyD names.length) (kName names) (some name)) kw)) ∧
    ∀ j a, getSlot kw j = some a →
      ∃ sub, getSlot v.varCtx (key names ty) = some (.dict sub) ∧ getSlot sub j = some a := by
  unfold mkVariable at h
  have ht : truthy (.str ty) = true := by simp [truthy, hty]
  simp only [ht, Bool.not_true] at h
  simp only [Bool.false_eq_true, if_false] at h
  cases h
  have h1 : getSlot (setSlot (setSlot (dictUpdate (setSlot (emptyD names.length) (kName names) (some name)) kw)
      (key names ty) (some (.dict (dictUpdate (setSlot (emptyD names.length) (kName names) (some name)) kw))))
      (kType names) (some (.str ty))) (key names ty) =
      some (.dict (dictUpdate (setSlot (emptyD names.length) (kName names) (some name)) kw)) := by
    rw [getSlot_setSlot, getSlot_setSlot]
    simp [hk]
  refine ⟨h1, ?_⟩
  intro j a hj
  refine ⟨_, h1, ?_⟩
  rw [getSlot_dictUpdate, hj]

/-- **a `Combine` with a type keeps ALL its attributes under its type**: `combine` (the tuple of the variables'
contexts), `dim` (their number) and every keyword argument are in the sub-context `var_context[type]`. -/
theorem combine_typed_subcontext (hn : NamesOK names) (hcomb : "combine" ∈ names) (hdim : "dim" ∈ names)
    (tup : List D → D) (args : List (Option (Variable D))) (kw : Slots) {ty : String}
    (hkt : getSlot kw (kType names) = some (.str ty)) (hty : ty ≠ "") (hk : key names ty ≠ kType names)
    {c : Variable D} (h : mkCombine names tup args kw = .ok c) :
    ∃ sub, getSlot c.varCtx (key names ty) = some (.dict sub) ∧
      getSlot sub (kCombine names) = some (.seq true ((args.filterMap id).map (fun v => V.dict v.varCtx))) ∧
      getSlot sub (kDim names) = some (.int (args.filterMap id).length) ∧
      (∀ j a, getSlot kw j = some a → j ≠ kName names → j ≠ kCombine names → j ≠ kType names →
        getSlot sub j = some a) := by
  have hct : kCombine names ≠ kType names := by
    intro he; have := key_inj hcomb he; simp at this
  have hcd : kCombine names ≠ kDim names := by
    intro he; have := key_inj hcomb he; simp at this
  have hcn : kCombine names ≠ kName names := by
    intro he; have := key_inj hcomb he; simp at this
  have hdt : kDim names ≠ kType names := by
    intro he; have := key_inj hdim he; simp at this
  have hdn : kDim names ≠ kName names := by
    intro he; have := key_inj hdim he; simp at this
  unfold mkCombine at h
  split at h
  · cases h
  · split at h
    · cases h
    · simp only [] at h
      split at h
      · cases h
      · rename_i name hname
        split at h
        · cases h
        · rename_i hnodim
          split at h
          · cases h
          · have hty2 : getSlot (setSlot (setSlot (dictUpdate (emptyD names.length) (setSlot kw (kName names) none))
                (kDim names) (some (.int (List.filterMap id args).length))) (kCombine names)
                (some (.seq true ((List.filterMap id args).map (fun v => V.dict v.varCtx))))) (kType names)
                = some (.str ty) := by
              rw [getSlot_setSlot, getSlot_setSlot, getSlot_dictUpdate, getSlot_setSlot]
              simp [Ne.symm hct, Ne.symm hdt, hkt, Ne.symm hn.name_ne_type]
            rw [hty2] at h
            simp only [Option.getD_some] at h
            have hs := (type_subcontext_complete h hty hk).1
            refine ⟨_, hs, ?_, ?_, ?_⟩
            · rw [getSlot_dictUpdate, getSlot_setSlot, getSlot_setSlot]
              simp [hct]
            · rw [getSlot_dictUpdate, getSlot_setSlot, getSlot_setSlot, getSlot_setSlot]
              simp [hdt, Ne.symm hcd]
            · intro j a hj hjn hjc hjt
              have hjd : j ≠ kDim names := by
                intro he
                rw [he] at hj
                simp [hasKey, getSlot_setSlot, hdn, hj] at hnodim
              rw [getSlot_dictUpdate, getSlot_setSlot, getSlot_setSlot, getSlot_setSlot, getSlot_dictUpdate,
                getSlot_setSlot]
              simp [hjt, hjc, hjd, hjn, hj]

end seedIJ

/-- a missing value goes on through the composition: `muon` returns `None` for every event, `energy` maps `None` to
`0` — `Compose(muon, energy)` and the Sequence both give `0`, not `None` (`D = Option Nat`; the hypotheses of
`compose_data_eq_sequence_data` are satisfiable, and an intermediate `None` occurs) -/
example :
    let ns := ["combine", "compose", "dim", "getter", "name", "ta", "type", "variable"]
    let muon : Variable (Option Nat) := ⟨fun _ => none, setSlot (emptyD 8) 4 (some (.str "muon"))⟩
    let energy : Variable (Option Nat) :=
      ⟨fun p => match p with | none => some 0 | some e => some (e + 1), setSlot (emptyD 8) 4 (some (.str "energy"))⟩
    (match mkCompose ns true [some muon, some energy] (emptyD 8) with
     | .ok c => (match call ns true c (.bare (some 5)) with | .ok (d, _) => some d | .error _ => none,
                 match seqCall ns true [muon, energy] (.bare (some 5)) with | .ok (d, _) => some d | .error _ => none)
     | .error _ => (none, none)) = (some (some 0), some (some 0)) := by rfl

/-- `Variable("position", f, type="ta", dim=3)`: `dim` is under the type (`var_context["ta"]["dim"] == 3`) -/
example :
    let ns := ["combine", "compose", "dim", "getter", "name", "ta", "type", "variable"]
    (match mkVariable (D := Nat) ns (.str "position") (.fn id) (.str "ta") (setSlot (emptyD 8) 2 (some (.int 3))) with
     | .ok v => (match getSlot v.varCtx 5 with | some (.dict sub) => getSlot sub 2 | _ => none)
     | .error _ => none) = some (.int 3) := by rfl

/-- `Combine(x, y, type="ta")` over the alphabet `combine, compose, dim, getter, name, ta, type, variable`: under `ta`
there are `dim == 2` and the `combine` tuple (the hypotheses of `combine_typed_subcontext` are satisfiable) -/
example :
    let ns := ["combine", "compose", "dim", "getter", "name", "ta", "type", "variable"]
    let x : Variable Nat := ⟨(· + 1), setSlot (emptyD 8) 4 (some (.str "x"))⟩
    let y : Variable Nat := ⟨(2 * ·), setSlot (emptyD 8) 4 (some (.str "y"))⟩
    (match mkCombine ns (fun l => l.sum) [some x, some y] (setSlot (emptyD 8) 6 (some (.str "ta"))) with
     | .ok c => (match getSlot c.varCtx 5 with
                 | some (.dict sub) => (getSlot sub 2, (getSlot sub 0).isSome, getSlot sub 4)
                 | _ => (none, false, none))
     | .error _ => (none, false, none)) = (some (.int 2), true, some (.str "x_y")) := by rfl
end Lena.C14
