import LenaModel.Props.C08
import LenaModel.Lemmas.C08Heap
/-! # C08 — property theorems that need object identities (adversary round 1)

"UpdateContext ... change[s] exactly the addressed item – to the given value, the rendered template or **a deep
copy** of another context item – and leave[s] ... every other item untouched": the value model of `Props/C08.lean`
cannot tell a copy from the object itself.  Here (`Model/C08Heap.lean`) dictionaries, lists and other mutable
objects carry addresses; tuples and frozensets are immutable containers whose members may be mutable.

Also: `to_string` on values with tuples ("equal dictionaries give equal strings whatever their key order" – also
for dictionaries inside tuples). -/
namespace Lena.C08

/-- **deep_copy_spec** — what `copy.deepcopy` is in this model, for every value: the copy has the same value, and
every mutable object reachable from it (inside tuples too) is new: its address is at or above the allocator -/
theorem deep_copy_spec (v : HVal) (n : Nat) :
    (deepcopyH n v).1.strip = v.strip ∧ (deepcopyH n v).1.toVal = v.toVal ∧ n ≤ (deepcopyH n v).2 ∧
      ∀ i ∈ (deepcopyH n v).1.ids, n ≤ i ∧ i < (deepcopyH n v).2 :=
  ⟨deepcopyH_strip v n, deepcopyH_toVal v n, (deepcopyH_fresh v n).1, (deepcopyH_fresh v n).2⟩

/-- an in-place change of an object that a value does not reach does not change the value -/
theorem poke_unreachable (v : HVal) (t : Nat) (h : t ∉ v.ids) : pokeH t v = v := pokeH_fresh v t h

/-- ... and a change of an object it does reach is seen (non-vacuity of `pokeH`): here through a tuple -/
example : pokeH 7 (.tuple [.list 7 [.leaf (.int 0)], .leaf (.int 5)]) =
    .tuple [.list 7 [.leaf (.int 0), skull], .leaf (.int 5)] := by
  simp [pokeH, pokeL]

/-- **uc_deep_copy** — "to ... a deep copy of another context item": after `UpdateContext.__call__` every
object of the new context is an object of the old context or a new object; no object of the default or of
the update argument is in it (unless it already was), and the copy has the value of its source -/
theorem uc_deep_copy (rec : Bool) (sub : List String) (s : SrcH) (n : Nat) (ctx c' : HEntries) (n' : Nat)
    (h : ucCallH rec sub s n ctx = some (c', n')) :
    n ≤ n' ∧ (∀ i ∈ idsE c', i ∈ idsE ctx ∨ (n ≤ i ∧ i < n')) ∧
      ∃ v, ucSourceH s ctx = some v ∧ (deepcopyH n v).1.strip = v.strip ∧
        (c', n') = ucSetH rec (deepcopyH n v).2 ctx sub (deepcopyH n v).1 := by
  unfold ucCallH at h
  cases hs : ucSourceH s ctx with
  | none => simp [hs] at h
  | some v =>
    simp only [hs, Option.some.injEq] at h
    have hc := deepcopyH_fresh v n
    have hu := ucSetH_ids rec sub (deepcopyH n v).2 ctx (deepcopyH n v).1
    rw [h] at hu
    refine ⟨by have := hu.1; simp only at this; omega, fun i hi => ?_, v, rfl, deepcopyH_strip v n, h.symm⟩
    rcases hu.2 i hi with h1 | h1 | h1
    · exact Or.inl h1
    · have := hc.2 i h1
      have := hu.1
      exact Or.inr (by simp only at *; omega)
    · exact Or.inr (by simp only at *; omega)

/-- **uc_no_alias** — what the deep copy is for: when every object that existed before the call has an address
below the allocator, an in-place change of any *new* object of the resulting context (the inserted copy, the
dictionaries created on the way) is not seen through the default, the update argument, the old context (its
source item included) or any other value that existed before -/
theorem uc_no_alias (rec : Bool) (sub : List String) (s : SrcH) (n : Nat) (ctx c' : HEntries) (n' : Nat)
    (h : ucCallH rec sub s n ctx = some (c', n'))
    (old : HVal) (hold : ∀ i ∈ old.ids, i < n) (t : Nat) (ht : t ∈ idsE c') (hnew : t ∉ idsE ctx) :
    pokeH t old = old := by
  have h1 := (uc_deep_copy rec sub s n ctx c' n' h).2.1 t ht
  apply pokeH_fresh
  intro hmem
  have := hold t hmem
  rcases h1 with h1 | h1
  · exact hnew h1
  · omega

/-- **uc_heap_refines** — forgetting the identities, `UpdateContext.__call__` of the heap model is the `ucSet`
of the value model (about which `update_exact` speaks) with the value of the source: the addressed item becomes
the source's value (merged, with `recursively` and two dictionaries), everything else is what it was -/
theorem uc_heap_refines (rec : Bool) (sub : List String) (s : SrcH) (n : Nat) (ctx c' : HEntries) (n' : Nat)
    (h : ucCallH rec sub s n ctx = some (c', n')) :
    ∃ v, ucSourceH s ctx = some v ∧ toValE c' = ucSet rec (toValE ctx) sub v.toVal := by
  obtain ⟨_, _, v, hv, _, hc⟩ := uc_deep_copy rec sub s n ctx c' n' h
  refine ⟨v, hv, ?_⟩
  have := ucSetH_toVal rec sub (deepcopyH n v).2 ctx (deepcopyH n v).1
  rw [← hc, deepcopyH_toVal] at this
  exact this

/-- the source of a `value=True` update is the item the key path names in the value model, else the default -/
theorem uc_source_spec (key : List String) (dflt : Option HVal) (ctx : HEntries) :
    (ucSourceH (.ctxValue key dflt) ctx).map HVal.toVal =
      match getPath (.dict (toValE ctx)) key with
      | some v => some v
      | none => dflt.map HVal.toVal := by
  have h := getPathH_toVal key (.dict 0 ctx)
  simp only [HVal.toVal] at h
  simp only [ucSourceH]
  cases hg : getPathH (.dict 0 ctx) key with
  | none => rw [hg] at h; simp at h; simp [← h]
  | some v => rw [hg] at h; simp at h; simp [← h]

/-- a missing key without default: nothing is copied, the context is not touched (`skip_on_missing` returns the
value, otherwise `LenaKeyError` is raised: `missing_key_matrix_value`) -/
theorem uc_missing_untouched (rec : Bool) (sub key : List String) (n : Nat) (ctx : HEntries)
    (h : getPathH (.dict 0 ctx) key = none) : ucCallH rec sub (.ctxValue key none) n ctx = none := by
  simp [ucCallH, ucSourceH, h]

/-! non-vacuity: the histogram edges `([0, 1], [0, 5])` (a tuple of two lists, objects 1 and 2 of the context
object... ) copied from `hist.edges` to `plot.edges`; the allocator is at 10 -/
section Example
def exCtx : HEntries :=
  [("hist", .dict 3 [("edges", .tuple [.list 1 [.leaf (.int 0), .leaf (.int 1)], .list 2 [.leaf (.int 0), .leaf (.int 5)]])])]

example : ucCallH true ["plot", "edges"] (.ctxValue ["hist", "edges"] none) 10 exCtx =
    some ([("hist", .dict 3 [("edges", .tuple [.list 1 [.leaf (.int 0), .leaf (.int 1)], .list 2 [.leaf (.int 0), .leaf (.int 5)]])]),
           ("plot", .dict 12 [("edges", .tuple [.list 10 [.leaf (.int 0), .leaf (.int 1)], .list 11 [.leaf (.int 0), .leaf (.int 5)]])])],
          13) := by
  simp [ucCallH, ucSourceH, exCtx, getPathH, lookupH, deepcopyH, deepcopyL, ucSetH, updRecH, updItemH, setKeyH]

/-- a set as default (a cell): every call gets its own copy -/
example : ucCallH true ["cuts"] (.ctxValue ["selection", "cuts"] (some (.cell "set" 4 (.tuple [])))) 10 [] =
    some ([("cuts", .cell "set" 10 (.tuple []))], 11) := by
  simp [ucCallH, ucSourceH, getPathH, lookupH, deepcopyH, deepcopyL, ucSetH, updRecH, updItemH, setKeyH]

/-- had the lists been shared (what "copy only dictionaries and lists" does to a tuple), a change of the inserted
item would be seen in the source: the statement of `uc_no_alias` is not trivially true of every implementation -/
example : pokeH 1 (.dict 3 [("edges", .tuple [.list 1 [.leaf (.int 0)]])]) ≠ .dict 3 [("edges", .tuple [.list 1 [.leaf (.int 0)]])] := by
  simp [pokeH, pokeE, pokeL]
end Example

/-! ## `to_string` with tuples -/

/-- **to_string_tuples_perm** — "equal dictionaries give equal strings whatever their key order", also when the
dictionaries sit inside tuples (`json.dumps` writes a tuple as an array): values that are equal for Python
(`pyEqH`: key order irrelevant at every level, in lists and in tuples) have the same tokens -/
theorem to_string_tuples_perm (a b : HVal) (wa : a.toVal.WF) (wb : b.toVal.WF) (h : pyEqH a b = true) :
    toTokens a.toVal = toTokens b.toVal :=
  to_string_perm _ _ wa wb ((pyEq_iff _ _ wa).1 (pyEqH_toVal a b h))

/-- ... and so `to_string` gives the same result (both strings, or both `LenaValueError`) whenever it succeeds on both -/
theorem to_string_tuples_canonical (a b : HVal) (wa : a.toVal.WF) (wb : b.toVal.WF) (h : pyEqH a b = true)
    (sa : serialisable a.toVal = true) (sb : serialisable b.toVal = true) : toStringH a = toStringH b := by
  simp [toStringH, toStringE, sa, sb, to_string_tuples_perm a b wa wb h]

/-- "different ones give different strings" with tuples: values with the same tokens are equal up to the kind of
array — JSON has one array type, and a tuple and a list with the same members *do* collide (next example): the clause
holds modulo tuple/list and no further -/
theorem to_string_tuples_inj_partial (a b : HVal) (h : toTokens a.toVal = toTokens b.toVal) : DictEq a.toVal b.toVal :=
  to_string_inj_tokens_partial _ _ h

/-- the collision: `{"a": (1, 2)}` and `{"a": [1, 2]}` differ for Python and have the same string -/
theorem to_string_tuple_list_collide :
    pyEqH (.dict 0 [("a", .tuple [.leaf (.int 1), .leaf (.int 2)])]) (.dict 1 [("a", .list 2 [.leaf (.int 1), .leaf (.int 2)])]) = false ∧
    toStringH (.dict 0 [("a", .tuple [.leaf (.int 1), .leaf (.int 2)])]) = toStringH (.dict 1 [("a", .list 2 [.leaf (.int 1), .leaf (.int 2)])]) := by
  decide

/-- non-vacuity of `to_string_tuples_perm`: the adversary's pair (dictionaries in another key order inside a tuple) -/
example : pyEqH
    (.dict 0 [("variables", .tuple [.dict 1 [("name", .leaf (.str "x")), ("unit", .leaf (.str "cm"))]])])
    (.dict 2 [("variables", .tuple [.dict 3 [("unit", .leaf (.str "cm")), ("name", .leaf (.str "x"))]])]) = true := by decide

/-- a set is not serialisable: `LenaValueError` -/
example : toStringH (.dict 0 [("a", .cell "set" 1 (.tuple [.leaf (.int 1)]))]) = .error .lenaValueError := by decide


/-! ## instances of existing theorems for the input classes of adversary round 1 (non-vacuity)

`format_exact` is stated for all well-formed pieces; a key may begin or end with a blank (`pieceWFB` only excludes
braces, `!`, `:`, dots and the empty key).  `fuw_plain` is stated for every value that is not itself a formatting
string (`NotTemplate`): a dictionary or list *holding* formatting strings is such a value. -/

/-- a field names the key between the braces exactly, blanks included: `{{ a}}` is the key `" a"`, not `"a"` -/
example : (match formatInit (some "x_{{ a}}") with
    | .ok f => formatCall f (.dict [("a", .leaf (.str "other")), (" a", .leaf (.str "addressed"))])
    | .error e => .error e) = .ok "x_addressed" := by decide

/-- ... and `{{a }}` on `{"a": 1}` is a missing key -/
example : (match formatInit (some "{{a }}") with
    | .ok f => formatCall f (.dict [("a", .leaf (.int 1))])
    | .error e => .error e) = .error .lenaKeyError := by decide

example : pieceWFB (.field [" a", "b "]) = true := by decide

/-- a dictionary value is "the given value" even when it holds formatting strings -/
example : formatValue (.dict [("title", .leaf (.str "{{name}}"))]) (.dict [("name", .leaf (.str "x"))]) =
    .ok (.dict [("title", .leaf (.str "{{name}}"))]) := rfl

example : notTemplateB (.dict [("title", .leaf (.str "{{name}}"))]) = true := by decide

end Lena.C08
