import Lean.Data.Json
/-! Line-protocol plumbing shared by all model drivers (`drivers/Cxx.lean`).
One JSON object per input line, one JSON value per output line. -/
open Lean

namespace Lena.Drv

partial def loop (inp out : IO.FS.Stream) (f : Json → Json) : IO Unit := do
  let line ← inp.getLine
  if line.isEmpty then
    return ()
  let s := line.trimAscii.toString
  if s.isEmpty then
    loop inp out f
  else
    match Json.parse s with
    | .error e => out.putStrLn (Json.compress (Json.mkObj [("err", Json.str ("parse: " ++ e))]))
    | .ok j => out.putStrLn (Json.compress (f j))
    loop inp out f

/-- run a pure handler over stdin/stdout -/
def run (f : Json → Json) : IO Unit := do
  let out ← IO.getStdout
  loop (← IO.getStdin) out f
  out.flush

def err (msg : String) : Json := Json.mkObj [("err", Json.str msg)]

def getD (j : Json) (k : String) : Json := (j.getObjVal? k).toOption.getD Json.null

def int? (j : Json) : Option Int := j.getInt?.toOption
def nat? (j : Json) : Option Nat := j.getNat?.toOption
def str? (j : Json) : Option String := j.getStr?.toOption
def bool? (j : Json) : Option Bool := j.getBool?.toOption
def arr? (j : Json) : Option (Array Json) := j.getArr?.toOption

/-- `null ↦ none`, an integer ↦ `some i` -/
def optInt (j : Json) : Option (Option Int) :=
  if j.isNull then some none else (int? j).map some

def intList? (j : Json) : Option (List Int) := do
  let a ← arr? j
  a.toList.mapM int?

def ofIntList (xs : List Int) : Json := Json.arr (xs.map (fun i => Json.num (JsonNumber.fromInt i))).toArray
def ofInt (i : Int) : Json := Json.num (JsonNumber.fromInt i)
def ofNat (n : Nat) : Json := Json.num (JsonNumber.fromNat n)
def ofList {α} (f : α → Json) (xs : List α) : Json := Json.arr (xs.map f).toArray
def ofOpt {α} (f : α → Json) : Option α → Json
  | none => Json.null
  | some a => f a

end Lena.Drv
