import LenaModel.DriverUtil
import LenaModel.Model.C17
