import LenaModel.DriverUtil
import LenaModel.Model.C15
import LenaModel.Model.C15Spec
import LenaModel.Model.C15Key
import LenaModel.Model.C15Pred
/-! Model driver for C15.  Every request carries `"names"`: the key alphabet of the case.
A context is a JSON object (nested; scalars null / bool / int / string; `["obj", s]` = an object json cannot
encode whose `str()` is `s` — the harness also sends a list / tuple / set found in a context this way: lena
never looks inside); a value is `{"d": data, "c": context | null}` with data null / bool / int /
string / {"tuple":true} / {"k": KIND} (an instance of a further class, `kindTable`).
A specification may carry `"sub": true` (the string / list / tuple is an instance of a subclass): ignored here,
an instance of a subclass of `list` is a list.

Specifications:
  {"t":"str","s":"a.b"} {"t":"cls","c":"int"} {"t":"fn","f":NAME} {"t":"list","l":[..]} {"t":"tuple","l":[..]}
  {"t":"not","s":SPEC,"roe":b} {"t":"sel","s":SPEC,"roe":b} {"t":"and","l":[..],"roe":b} {"t":"or","l":[..],"roe":b}
  {"t":"selctx","key":KEY,"pred":NAME,"roe":b} {"t":"bad"}
  a "fn" / "selctx" specification may carry "as": what kind of Python object the callable is (`kindOf`:
  "function" | "builtin" | "instance" | "method" | "partial" — plain callables; {"cls": CLASS} — a class called
  as a converter; "callstr" | "calllist" | "calltuple" — an instance of a str / list / tuple subclass with
  `__call__`; "selector" — a lena Selector instance); both are built through `Callable.asSpec` / `selectContext`
  of `Model/C15Pred.lean`
  KEY = "a.b" | ["a","b"] | [.., 5, ..] (an item that is no string) |
        {"dict":["a","b"],"tail":"stop"|"multi"|{"key":"c"}|{"key":null}}

Requests (every reply also carries the values of the specification-side definitions of `Model/C15Spec.lean`
that the theorems relate the model to — see the field lists in `handle`):
  {"op":"select","names":[..],"spec":SPEC,"roe":b,"top":"selector"|"filter","values":[..]}
  {"op":"filterseq","names":[..],"a":SPEC,"b":SPEC,"values":[..]}      Sequence(Filter(a), Filter(b))
  {"op":"runif","names":[..],"spec":SPEC,"seq":"ident"|"dup"|"drop"|"tag","values":[..]}
  {"op":"groupby","names":[..],"group_by":S,"merge":S,"contexts":[ctx|null,..],"via":"fill"|"update","end":"reset"|"clear"}
      S = "str" | ["str",..] | {"list":["str",..]} | {"notiter":true}
  {"op":"oldgroupby","group_by":G,"values":[..]}   G = NAME | [NAME,..] | {"bad":true}
  {"op":"contains","names":[..],"ctx":ctx,"s":"a.b"}
  {"op":"splitkey","s":"a.b"}   {"op":"startswith","a":[..],"b":[..]}   {"op":"split","s":"a.b"} -/
open Lean Lena.Drv Lena.C15

def fnTable : String → Option (Item → Res)
  | "true" => some (fun _ => .ok true)
  | "false" => some (fun _ => .ok false)
  | "raise_zde" => some (fun _ => .raise "Other:ZeroDivisionError")
  | "raise_lke" => some (fun _ => .raise "LenaKeyError")
  | "raise_lte" => some (fun _ => .raise "LenaTypeError")
  | "raise_lve" => some (fun _ => .raise "LenaValueError")
  | "pos" => some (fun v =>          -- `lambda v: get_data(v) > 0`
      match v.data with
      | .int i => .ok (decide (i > 0))
      | .bool b => .ok b
      -- the instances the harness builds: 1.5, MyInt(7), Fraction(1, 2)
      | .other .float | .other .intSub | .other .fraction => .ok true
      | _ => .raise "Other:TypeError")
  | "inv" => some (fun v =>          -- `lambda v: 1 // get_data(v) > 0`
      match v.data with
      | .int i => if i = 0 then .raise "Other:ZeroDivisionError" else .ok (decide (i = 1))
      | .bool b => if b then .ok true else .raise "Other:ZeroDivisionError"
      | .other .fraction => .ok true                       -- 1 // Fraction(1, 2) == 2
      | .other .float | .other .intSub => .ok false        -- 1 // 1.5 == 0.0, 1 // 7 == 0
      | _ => .raise "Other:TypeError")
  | "has_ctx" => some (fun v => .ok (match v.ctx with | some l => nonEmpty l | none => false))
  -- other exception classes (the class name is data for the model)
  | "raise_attr" => some (fun _ => .raise "Other:AttributeError")
  | "raise_val" => some (fun _ => .raise "Other:ValueError")
  | "raise_rt" => some (fun _ => .raise "Other:RuntimeError")
  | "raise_assert" => some (fun _ => .raise "Other:AssertionError")
  | "raise_custom" => some (fun _ => .raise "Other:_Custom")
  | "raise_key" => some (fun _ => .raise "Other:KeyError")
  | "raise_os" => some (fun _ => .raise "Other:OSError")
  | "raise_stop" => some (fun _ => .raise "Other:StopIteration")
  -- callables that return a value that is no bool: the model keeps its truth value
  | "five" => some (fun _ => .ok true)
  | "zero" => some (fun _ => .ok false)
  | "empty" => some (fun _ => .ok false)
  | "xstr" => some (fun _ => .ok true)
  | "none" => some (fun _ => .ok false)
  | "data" => some (fun v => .ok (match v.data with     -- `lambda v: get_data(v)`: selected iff the data is true
      | .none => false | .bool b => b | .int i => i != 0 | .str s => s != "" | .tuple => true
      | .other _ => true))                                 -- the instances the harness builds are all true
  -- the builtin `len` applied to the value: a (data, context) pair has length 2; a bare value is its data
  | "b_len" => some (fun v =>
      match v.ctx with
      | some _ => .ok true
      | none =>
        match v.data with
        | .str s => .ok (s != "")
        | .tuple => .ok true                               -- (1, 2)
        -- the instances the harness builds: {"x": 1}, [1, 2], Str("s"), Point(1, 2)
        | .other .dict | .other .list | .other .strSub | .other .namedTuple => .ok true
        | _ => .raise "Other:TypeError")
  | _ => none

def predTable : String → Option (Val → Res)
  | "raise_lke" => some (fun _ => .raise "LenaKeyError")
  | "raise_lte" => some (fun _ => .raise "LenaTypeError")
  | "raise_lve" => some (fun _ => .raise "LenaValueError")
  | "true" => some (fun _ => .ok true)
  | "false" => some (fun _ => .ok false)
  | "raise_zde" => some (fun _ => .raise "Other:ZeroDivisionError")
  | "isdict" => some (fun v => .ok (match v with | .dict _ => true | _ => false))
  | "pos" => some (fun v =>          -- `lambda sc: sc > 0`
      match v with
      | .leaf (.int i) => .ok (decide (i > 0))
      | .leaf (.bool b) => .ok b
      | _ => .raise "Other:TypeError")
  | "eq1" => some (fun v =>          -- `lambda sc: sc == 1`
      match v with
      | .leaf (.int i) => .ok (decide (i = 1))
      | .leaf (.bool b) => .ok b
      | _ => .ok false)
  | "ident" => some (fun v => .ok v.truthy)          -- `lambda sc: sc`: the truth value of the sub-context
  | "raise_attr" => some (fun _ => .raise "Other:AttributeError")
  | "raise_custom" => some (fun _ => .raise "Other:_Custom")
  | "raise_stop" => some (fun _ => .raise "Other:StopIteration")
  -- classes and builtins as predicates (`Model/C15Pred.lean`): bool, str, len / list, dict, abs, int, float
  | "c_bool" => some pyBool
  | "c_str" => some pyStrT
  | "b_len" => some pyLen
  | "c_list" => some pyLen
  | "c_dict" => some pyDict
  | "b_abs" => some pyAbs
  | "c_int" => some (pyInt [])
  | "c_float" => some (pyInt ["1.5", "1e3"])
  -- a user class as a validator: `class Positive: def __init__(self, x): if not x > 0: raise ValueError`
  | "c_pos" => some (fun v =>
      match v with
      | .leaf (.int i) => if i > 0 then .ok true else .raise "Other:ValueError"
      | .leaf (.bool b) => if b then .ok true else .raise "Other:ValueError"
      | _ => .raise "Other:TypeError")
  -- a bound method of a builtin object: `(1, "ab").__contains__`
  | "m_in" => some (fun v =>
      match v with
      | .leaf (.int i) => .ok (decide (i = 1))
      | .leaf (.bool b) => .ok b
      | .leaf (.str s) => .ok (s == "ab")
      | _ => .ok false)
  | _ => none

def clsTable : String → Option PyClass
  | "object" => some .object | "int" => some .int | "bool" => some .bool | "str" => some .str
  | "tuple" => some .tuple | "float" => some .float | "dict" => some .dict
  | "list" => some .list | "NoneType" => some .noneType | "MyInt" => some .intSub | "Str" => some .strSub
  | "User" => some .user | "UserSub" => some .userSub | "Number" => some .number | "Integral" => some .integral
  | "Mapping" => some .mapping | "Sequence" => some .sequence | "Hashable" => some .hashable
  | _ => none

/-- `{"k": KIND}`: 1.5, {"x": 1}, [1, 2], MyInt(7), Str("s"), User(), UserSub(), Fraction(1, 2), Point(1, 2) -/
def kindTable : String → Option PyType
  | "float" => some .float | "dict" => some .dict | "list" => some .list | "myint" => some .intSub
  | "mystr" => some .strSub | "user" => some .user | "usersub" => some .userSub | "frac" => some .fraction
  | "point" => some .namedTuple
  | _ => none

def kindName : PyType → String
  | .float => "float" | .dict => "dict" | .list => "list" | .intSub => "myint" | .strSub => "mystr"
  | .user => "user" | .userSub => "usersub" | .fraction => "frac" | .namedTuple => "point"

partial def valOf (names : List String) (j : Json) : Option Val :=
  match j with
  | .null => some (.leaf .none)
  | .bool b => some (.leaf (.bool b))
  | .str s => some (.leaf (.str s))
  | .num _ => (int? j).map (fun i => .leaf (.int i))
  | .obj _ => (slotsOf names j).map .dict
  | .arr a => match a.toList with
    | [.str "obj", .str s] => some (.leaf (.obj s))
    | _ => none
where
  slotsOf (names : List String) (j : Json) : Option Slots :=
    names.mapM (fun n =>
      match (j.getObjVal? n).toOption with
      | none => some none
      | some x => (valOf names x).map some)

def slots? (names : List String) (j : Json) : Option Slots :=
  match j with
  | .obj _ => valOf.slotsOf names j
  | _ => none

partial def valToJson (names : List String) : Val → Json
  | .leaf .none => Json.null
  | .leaf (.bool b) => Json.bool b
  | .leaf (.int i) => ofInt i
  | .leaf (.str s) => Json.str s
  | .leaf (.obj s) => Json.arr #[Json.str "obj", Json.str s]
  | .dict l => Json.mkObj ((names.zip l).filterMap (fun (n, o) => o.map (fun v => (n, valToJson names v))))

def dataOf (j : Json) : Option Data :=
  match j with
  | .null => some .none
  | .bool b => some (.bool b)
  | .str s => some (.str s)
  | .num _ => (int? j).map .int
  | .obj _ =>
    match (j.getObjVal? "k").toOption with
    | some k => ((str? k).bind kindTable).map .other
    | none => some .tuple
  | _ => none

def itemOf (names : List String) (j : Json) : Option Item := do
  let d ← dataOf (getD j "d")
  let c := getD j "c"
  if c.isNull then pure { data := d, ctx := none }
  else
    let l ← slots? names c
    pure { data := d, ctx := some l }

def dataJson : Data → Json
  | .none => Json.null
  | .bool b => Json.bool b
  | .int i => ofInt i
  | .str s => Json.str s
  | .tuple => Json.mkObj [("tuple", Json.bool true)]
  | .other t => Json.mkObj [("k", Json.str (kindName t))]

def itemJson (names : List String) (v : Item) : Json :=
  Json.mkObj [("d", dataJson v.data), ("c", ofOpt (fun l => valToJson names (.dict l)) v.ctx)]

def strList? (j : Json) : Option (List String) := do
  let a ← arr? j
  a.toList.mapM str?

def keyArg? (j : Json) : Option KeyArg :=
  match j with
  | .str s => some (.str s)
  | .arr a => some (match a.toList.mapM str? with | some ks => .list ks | none => .badList)
  | .obj _ => do
    let ks ← strList? (getD j "dict")
    let t := getD j "tail"
    match t with
    | .str "stop" => pure (.dict ks .stop)
    | .str "multi" => pure (.dict ks .multi)
    | .obj _ =>
      let k := getD t "key"
      if k.isNull then pure (.dict ks (.key none)) else (str? k).map (fun s => .dict ks (.key (some s)))
    | _ => none
  | _ => none

/-- the "as" field of a "fn" / "selctx" specification -/
def kindOf (j : Json) : Option CallKind :=
  match j with
  | .null => some .plain
  | .str "function" | .str "builtin" | .str "instance" | .str "method" | .str "partial" => some .plain
  | .str "callstr" => some (.strLike "a")
  | .str "calllist" => some .listLike
  | .str "calltuple" => some .tupleLike
  | .str "selector" => some .selectorInst
  | .obj _ => ((str? (getD j "cls")).bind clsTable).map .cls
  | _ => none

partial def specOf (j : Json) : Option Spec := do
  let t ← str? (getD j "t")
  match t with
  | "str" => (str? (getD j "s")).map .str
  | "cls" => (str? (getD j "c")).bind clsTable |>.map .cls
  | "fn" => do
      let k ← kindOf (getD j "as")
      let f ← (str? (getD j "f")).bind fnTable
      pure (Callable.asSpec ⟨k, f⟩)      -- (the harness writes a class given to `Selector` as {"t":"cls"})
  | "list" => do let l ← (← arr? (getD j "l")).toList.mapM specOf; pure (.list l)
  | "tuple" => do let l ← (← arr? (getD j "l")).toList.mapM specOf; pure (.tuple l)
  | "not" => do pure (.notI (← specOf (getD j "s")) (← bool? (getD j "roe")))
  | "sel" => do pure (.selI (← specOf (getD j "s")) (← bool? (getD j "roe")))
  | "and" => do let l ← (← arr? (getD j "l")).toList.mapM specOf; pure (.andI l (← bool? (getD j "roe")))
  | "or" => do let l ← (← arr? (getD j "l")).toList.mapM specOf; pure (.orI l (← bool? (getD j "roe")))
  | "selctx" => do
      let k ← kindOf (getD j "as")
      pure (selectContext (← keyArg? (getD j "key")) ⟨k, ← (str? (getD j "pred")).bind predTable⟩ (← bool? (getD j "roe")))
  | "bad" => pure .bad
  | _ => none

def resJson : Res → Json
  | .ok b => Json.bool b
  | .raise e => Json.mkObj [("e", Json.str e)]

def sot? (j : Json) : Option StrOrTuple :=
  match j with
  | .str s => some (.str s)
  | _ => (strList? j).map .tuple

/-- a string, a tuple (JSON array) or a list (`{"list": [..]}`) of strings — a list behaves as a tuple —, or
`{"notiter": true}` for something that is no container -/
def gbArg? (j : Json) : Option GbArg :=
  match j with
  | .obj _ =>
    match (j.getObjVal? "list").toOption with
    | some l => (strList? l).map (fun ks => .arg (.tuple ks))
    | none => some .notIterable
  | _ => (sot? j).map .arg

/-- positions of the values of each group (values are tagged with their index as data) -/
def idxOfItem (v : Item) : Json :=
  match v.data with
  | .int i => ofInt i
  | _ => Json.null

def seqTable (width : Nat) : String → Option (Item → List Item)
  | "ident" => some (fun v => [v])
  | "dup" => some (fun v => [v, v])
  | "drop" => some (fun _ => [])
  | "tag" => some (fun v => [{ data := .str "t", ctx := some (v.context width) }])
  | _ => none

/-- callables for the deprecated `_GroupBy` (the value's data is an int, a string or None) -/
def keyFnTable : String → Option (Item → KeyOut)
  | "parity" => some (fun v => match v.data with | .int i => .ok (.int (i % 2)) | _ => .raise "Other:TypeError")
  | "name" => some (fun v => match v.data with | .str s => .ok (.str s) | _ => .keyError)
  | "zero" => some (fun _ => .ok (.int 0))
  | "const" => some (fun _ => .ok (.str "k"))
  | "keyerr" => some (fun _ => .keyError)
  | "sign" => some (fun v => match v.data with
      | .int i => .ok (.int (if i > 0 then 1 else if i < 0 then -1 else 0))
      | _ => .ok .none)
  | _ => none

def leafJson : Leaf → Json
  | .none => Json.null
  | .bool b => Json.bool b
  | .int i => ofInt i
  | .str s => Json.str s
  | .obj s => Json.arr #[Json.str "obj", Json.str s]

def seenJson : Seen → Json
  | .absent => Json.null
  | .leaf a => Json.mkObj [("leaf", leafJson a)]
  | .dict => Json.str "dict"

def pathJson (names : List String) (p : Path) : Json := ofList (fun k => Json.str (names.getD k "?")) p

def runOutJson (names : List String) (r : List Item × Option String) : List (String × Json) :=
  [("kept", ofList (itemJson names) r.1), ("stop", ofOpt Json.str r.2)]

/-- the flags and values of the specification side for a `select`-like request -/
def semFields (names : List String) (spec : Spec) (roe : Bool) (top : String) (vals : List Item) : List (String × Json) :=
  let r := if top == "filter" then true else roe
  let semTop : Item → Res := fun v => if top == "filter" then sem names true spec v else absorb roe (sem names roe spec v)
  let fold : Option (Item → Res) := match spec with
    | .list l => some (fun v => absorb r (orRes (l.map (fun s => pep479 (sem names r s v)))))
    | .tuple l => some (fun v => absorb r (andRes (l.map (fun s => pep479 (sem names r s v)))))
    | _ => none
  [("sem", ofList (fun v => resJson (semTop v)) vals),
   ("semFold", ofOpt (fun f => ofList (fun v => resJson (f v)) vals) fold),
   ("semB", ofList (fun v => Json.bool (semB names spec v)) vals),
   ("hasBad", Json.bool spec.hasBad), ("allRoeF", Json.bool (spec.allRoe false)), ("keysOk", Json.bool spec.keysOk),
   ("totalOn", ofList (fun v => Json.bool (spec.totalOn names v)) vals)]

def handle (j : Json) : Json :=
  match strList? (getD j "names") with
  | none =>
    match str? (getD j "op") with
    | some "split" => match str? (getD j "s") with
      | some s => Json.mkObj [("r", ofList Json.str (splitDots s))]
      | none => err "bad split args"
    | some "splitkey" => match str? (getD j "s") with
      | some s => Json.mkObj [("r", ofOpt (ofList Json.str) (splitKey s))]
      | none => err "bad splitkey args"
    | some "startswith" => match strList? (getD j "a"), strList? (getD j "b") with
      | some a, some b => Json.mkObj [("r", Json.bool (startsWith a b)), ("spec", Json.bool (a.isPrefixOf b))]
      | _, _ => err "bad startswith args"
    | some "oldgroupby" =>
      let gj := getD j "group_by"
      let g : Option (Option OldGb) := match gj with
        | .str n => (keyFnTable n).map (fun f => some (.single f))
        | .arr a => (a.toList.mapM (fun x => (str? x).bind keyFnTable)).map (fun fs => some (.tuple fs))
        | .obj _ => some none
        | _ => none
      match g, (arr? (getD j "values")).bind (·.toList.mapM (itemOf [])) with
      | some none, _ => Json.mkObj [("init", "LenaTypeError")]
      | some (some g), some vals =>
        let viaUpdate := (str? (getD j "via")) == some "update"
        -- `fill` value by value; an exception leaves the groups unchanged
        let (gs, errs) := vals.zipIdx.foldl (fun (acc : OldGroups × List Json) (vi : Item × Nat) =>
          match (if viaUpdate then oldUpdate g acc.1 vi.1 else oldFill g acc.1 vi.1) with
          | .ok gs' => (gs', acc.2)
          | .error e => (acc.1, acc.2 ++ [Json.mkObj [("at", ofNat vi.2), ("e", Json.str e)]])) ([], [])
        -- specification side: the reference partition of the values whose key exists
        let okVals := vals.filter (fun v => (oldKey g v).toOption.isSome)
        let key : Item → List Leaf := fun v => ((oldKey g v).toOption).getD []
        let all := (oldFillAll g [] vals)
        Json.mkObj [("groups", ofList (fun kv => ofList (fun v => dataJson v.data) kv.2) gs),
                    ("keys", ofList (fun kv => ofList leafJson kv.1) gs), ("errors", Json.arr errs.toArray),
                    ("specEqModel", Json.bool (decide (groupsOfG key okVals = gs))),
                    ("after", ofNat (if (str? (getD j "end")) == some "clear" then oldClear gs else oldReset gs).length),
                    ("all", match all with
                      | .ok gs' => Json.mkObj [("ok", Json.bool (decide (gs' = gs)))]
                      | .error e => Json.mkObj [("e", Json.str e)])]
      | _, _ => err "bad oldgroupby args"
    | _ => err "names missing"
  | some names =>
    match str? (getD j "op") with
    | some "select" =>
      match specOf (getD j "spec"), bool? (getD j "roe"), (arr? (getD j "values")).bind (·.toList.mapM (itemOf names)) with
      | some spec, some roe, some vals =>
        let top := (str? (getD j "top")).getD "selector"
        -- `Selector(spec, raise_on_error=roe)` (an instance given as the specification is wrapped:
        -- it is a callable) or `Filter(spec)`
        let o := if top == "filter" then filterInit spec else (inner roe spec).map (.selector · roe)
        match o with
        | none => Json.mkObj [("init", "LenaTypeError"), ("hasBad", Json.bool spec.hasBad)]
        | some o =>
          let specRun := ((beforeError names o vals).filter (fun v => call names o v = .ok true), firstError names o vals)
          -- another selector built from the same specification, with the other `raise_on_error` (for a Filter: False)
          let troe := if top == "filter" then false else !roe
          let twin : Json := match (inner troe spec).map (.selector · troe) with
            | some t => ofList (fun v => resJson (call names t v)) vals
            | none => Json.null
          Json.mkObj ([("r", ofList (fun v => resJson (call names o v)) vals), ("rTwin", twin)] ++ runOutJson names (filterRun names o vals)
            ++ [("fill", ofList (fun v => resJson (filterFillInto names o v)) vals),
                ("fillAll", Json.mkObj (runOutJson names (fillIntoAll names o [] vals))),
                ("fillAll_eq_spec", Json.bool (decide (fillIntoAll names o [] vals =
                  ((beforeError names o vals).filter (fun v => call names o v = .ok true), firstRaise names o vals)))),
                ("specRun_eq_model", Json.bool (decide (specRun = filterRun names o vals)))] ++ semFields names spec roe top vals)
      | _, _, _ => err "bad select args"
    | some "filterseq" =>
      match specOf (getD j "a"), specOf (getD j "b"), (arr? (getD j "values")).bind (·.toList.mapM (itemOf names)) with
      | some sa, some sb, some vals =>
        match filterInit sa, filterInit sb with
        | some a, some b =>
          let stages := ((filterRun names b (filterRun names a vals).1).1,
            ((filterRun names b (filterRun names a vals).1).2).orElse (fun _ => (filterRun names a vals).2))
          Json.mkObj (runOutJson names (filterSeqRun names a b vals) ++
            [("and", Json.mkObj (runOutJson names (filterRun names (.andO [a, b] true) vals))),
             ("stages_eq_model", Json.bool (decide (stages = filterSeqRun names a b vals)))])
        | _, _ => Json.mkObj [("init", "LenaTypeError")]
      | _, _, _ => err "bad filterseq args"
    | some "runif" =>
      match specOf (getD j "spec"), (str? (getD j "seq")).bind (seqTable names.length),
        (arr? (getD j "values")).bind (·.toList.mapM (itemOf names)) with
      | some spec, some seq, some vals =>
        match runIfInit spec with
        | none => Json.mkObj [("init", "LenaTypeError")]
        | some o =>
          let specRun := ((beforeError names o vals).flatMap (fun v => if call names o v = .ok true then seq v else [v]),
            firstError names o vals)
          Json.mkObj (runOutJson names (runIfRun names o seq vals) ++
            [("specRun_eq_model", Json.bool (decide (specRun = runIfRun names o seq vals)))])
      | _, _, _ => err "bad runif args"
    | some "contains" =>
      match slots? names (getD j "ctx"), str? (getD j "s") with
      | some d, some s =>
        let spec : Option Bool := if s = "" then none else
          match (splitDots s).reverse with
          | last :: initRev => some (containsLast names last (valAt names (.dict d) initRev.reverse))
          | [] => none
        Json.mkObj [("r", Json.bool (contains names d s)), ("spec", ofOpt Json.bool spec)]
      | _, _ => err "bad contains args"
    | some "groupby" =>
      match gbArg? (getD j "group_by"), gbArg? (getD j "merge"), arr? (getD j "contexts") with
      | some g, some m, some cs =>
        -- specification side of the construction: parsed key paths, improper nesting, overlaps
        let specInit : List (String × Json) := match g, m with
          | .arg g', .arg m' =>
            let inc := (gbArgs g' m').1
            let exc := (gbArgs g' m').2
            match splitKeys names inc, splitKeys names exc with
            | some I, some E =>
              if inc.contains "" == exc.contains "" then [("parse", Json.str "root")]
              else [("parse", Json.str "ok"), ("rejects", Json.bool (rejectsB I E (inc.contains ""))),
                    ("disjoint", Json.bool (disjointB I E))]
            | _, _ => [("parse", Json.str "subkey")]
          | _, _ => [("parse", Json.str "type")]
        match groupByInitAny names g m with
        | .typeError => Json.mkObj ([("init", Json.str "LenaTypeError")] ++ specInit)
        | .made .valueError => Json.mkObj ([("init", Json.str "LenaValueError")] ++ specInit)
        | .made .fuel => err "model out of fuel"
        | .made (.ok t) =>
          let items : Option (List Item) := (cs.toList.zipIdx).mapM (fun (c, i) =>
            if c.isNull then some { data := .int i, ctx := none }
            else (slots? names c).map (fun l => { data := .int i, ctx := some l }))
          match items with
          | none => err "bad contexts"
          | some items =>
            let w := names.length
            let viaUpdate := (str? (getD j "via")) == some "update"
            -- `fill` (or `update`) value by value; an exception leaves the groups unchanged
            let (gs, errs) := items.foldl (fun (acc : Groups × List Json) (v : Item) =>
              match gbFillR w t acc.1 v with
              | .ok _ => ((if viaUpdate then gbUpdate w t acc.1 v else gbFill w t acc.1 v), acc.2)
              | .error e => (acc.1, acc.2 ++ [Json.mkObj [("at", idxOfItem v), ("e", Json.str e)]])) ([], [])
            let after := if (str? (getD j "end")) == some "clear" then gbClear gs else gbReset gs
            -- specification side
            let spec : List (String × Json) := match g, m with
              | .arg g', .arg m' =>
                let inc := (gbArgs g' m').1
                match splitKeys names inc, splitKeys names (gbArgs g' m').2 with
                | some I, some E =>
                  let d := inc.contains ""
                  -- the specification-side forms of the key are evaluated on the first 48 contexts of a case
                  let ctxs := (items.map (fun v => v.context w)).take 48
                  let keyC := fun (c : Slots) => keepL (selC I E d) 0 c
                  let okItems := items.filter (fun v => !hasObjL (groupKey w t v))
                  let head := ctxs.take 10
                  let pairs := head.flatMap (fun a => head.map (fun b => (a, b)))
                  [("keyC_eq_model", Json.bool (ctxs.all (fun c => decide (keyC c = getL t 0 c)))),
                   ("keyFlip_eq_model", Json.bool (ctxs.all (fun c => decide (keepL (flipWalk I E d) 0 c = getL t 0 c)))),
                   ("keyP_eq_model", Json.bool (ctxs.all (fun c => decide (keepL (polarity I E d) 0 c = getL t 0 c)))),
                   ("keySel_eq_model", Json.bool (ctxs.all (fun c => decide (keepL (sel I E d) 0 c = getL t 0 c)))),
                   -- (the two reference computations of the whole dictionary are run on flows of at most 64 values)
                   ("groupsOf_eq_model", if items.length ≤ 64 then Json.bool (decide (groupsOf (groupKey w t) okItems = gs)) else Json.null),
                   ("skip_eq_model", if items.length ≤ 64 then Json.bool (decide (gbFillSkip w t [] items = gs)) else Json.null),
                   ("wf", Json.bool (items.all (fun v => wfV w (.dict (v.context w))))),
                   ("agreeC_iff_key", Json.bool (pairs.all (fun ab =>
                      agreeOnB (selC I E d) (.dict ab.1) (.dict ab.2) == decide (getL t 0 ab.1 = getL t 0 ab.2)))),
                   ("agreeP_iff_key", Json.bool (pairs.all (fun ab =>
                      agreeOnB (polarity I E d) (.dict ab.1) (.dict ab.2) == decide (getL t 0 ab.1 = getL t 0 ab.2)))),
                   ("nodes", ofList (fun c => ofList (fun p => Json.arr #[pathJson names p, seenJson (seen (.dict c) p),
                        Json.bool (selC I E d p), Json.bool (flipWalk I E d p), Json.bool (polarity I E d p), Json.bool (sel I E d p)])
                      ((allPathsV (.dict c)).filter (· ≠ []))) (ctxs.take 3)),
                   ("hasObjSel", ofList (fun v => Json.bool (hasObjL (groupKey w t v))) (items.take 10))]
                | _, _ => []
              | _, _ => []
            Json.mkObj ([("groups", ofList (ofList idxOfItem) (gbCompute gs)),
                        ("keys", ofList (fun g => valToJson names (.dict g.1)) gs),
                        ("keystrs", ofList (fun g => Json.str (keyString names g.1)) gs),
                        ("errors", Json.arr errs.toArray), ("after", ofList (ofList idxOfItem) (gbCompute after))]
                        ++ specInit ++ spec)
      | _, _, _ => err "bad groupby args"
    | _ => err "unknown op"

def main : IO Unit := run handle
