import LenaModel.DriverUtil
import LenaModel.Model.C15
/-! Model driver for C15.  Every request carries `"names"`: the key alphabet of the case.
A context is a JSON object (nested; scalars null / bool / int / string); a value is
`{"d": data, "c": context | null}` with data null / bool / int / string / {"tuple":true}.

Specifications:
  {"t":"str","s":"a.b"} {"t":"cls","c":"int"} {"t":"fn","f":NAME} {"t":"list","l":[..]} {"t":"tuple","l":[..]}
  {"t":"not","s":SPEC,"roe":b} {"t":"sel","s":SPEC,"roe":b} {"t":"and","l":[..],"roe":b} {"t":"or","l":[..],"roe":b}
  {"t":"selctx","key":"a.b" | ["a","b"],"pred":NAME,"roe":b} {"t":"bad"}

Requests:
  {"op":"select","names":[..],"spec":SPEC,"roe":b,"top":"selector"|"filter","values":[..]}
      -> {"init":"LenaTypeError"} | {"r":[true|false|{"e":name},..],"kept":[values],"stop":null|name}
         (`r`: selector(value) per value; `kept`/`stop`: Filter.run on the whole flow)
  {"op":"sem", ... same ...} -> {"r":[..]}          the reference semantics `sem` (Props) is not in the model;
                                                     the driver only runs the transcription
  {"op":"groupby","names":[..],"group_by":S,"merge":S,"contexts":[ctx|null,..]}   S = "str" | ["str",..]
      -> {"init":"LenaValueError"} | {"groups":[[indices],..],"keys":[ctx,..]}
  {"op":"split","s":"a.b"} -> {"r":["a","b"]} -/
open Lean Lena.Drv Lena.C15

def fnTable : String → Option (Item → Res)
  | "true" => some (fun _ => .ok true)
  | "false" => some (fun _ => .ok false)
  | "raise_zde" => some (fun _ => .raise "Other:ZeroDivisionError")
  | "raise_lke" => some (fun _ => .raise "LenaKeyError")
  | "pos" => some (fun v =>          -- `lambda v: get_data(v) > 0`
      match v.data with
      | .int i => .ok (decide (i > 0))
      | .bool b => .ok b
      | _ => .raise "Other:TypeError")
  | "inv" => some (fun v =>          -- `lambda v: 1 // get_data(v) > 0`
      match v.data with
      | .int i => if i = 0 then .raise "Other:ZeroDivisionError" else .ok (decide (i = 1))
      | .bool b => if b then .ok true else .raise "Other:ZeroDivisionError"
      | _ => .raise "Other:TypeError")
  | "has_ctx" => some (fun v => .ok (match v.ctx with | some l => nonEmpty l | none => false))
  | _ => none

def predTable : String → Option (Val → Res)
  | "true" => some (fun _ => .ok true)
  | "false" => some (fun _ => .ok false)
  | "raise_zde" => some (fun _ => .raise "Other:ZeroDivisionError")
  | "isdict" => some (fun v => .ok (match v with | .dict _ => true | _ => false))
  | "pos" => some (fun v =>          -- `lambda sc: sc > 0`
      match v with
      | .leaf (.int i) => .ok (decide (i > 0))
      | .leaf (.bool b) => .ok b
      | _ => .raise "Other:TypeError")
  | "eq1" => some (fun v =>          -- `lambda sc: sc == 1`
      match v with
      | .leaf (.int i) => .ok (decide (i = 1))
      | .leaf (.bool b) => .ok b
      | _ => .ok false)
  | _ => none

def clsTable : String → Option PyClass
  | "object" => some .object | "int" => some .int | "bool" => some .bool | "str" => some .str
  | "tuple" => some .tuple | "float" => some .float | "dict" => some .dict
  | _ => none

partial def valOf (names : List String) (j : Json) : Option Val :=
  match j with
  | .null => some (.leaf .none)
  | .bool b => some (.leaf (.bool b))
  | .str s => some (.leaf (.str s))
  | .num _ => (int? j).map (fun i => .leaf (.int i))
  | .obj _ => (slotsOf names j).map .dict
  | _ => none
where
  slotsOf (names : List String) (j : Json) : Option Slots :=
    names.mapM (fun n =>
      match (j.getObjVal? n).toOption with
      | none => some none
      | some x => (valOf names x).map some)

def slots? (names : List String) (j : Json) : Option Slots :=
  match j with
  | .obj _ => valOf.slotsOf names j
  | _ => none

partial def valToJson (names : List String) : Val → Json
  | .leaf .none => Json.null
  | .leaf (.bool b) => Json.bool b
  | .leaf (.int i) => ofInt i
  | .leaf (.str s) => Json.str s
  | .dict l => Json.mkObj ((names.zip l).filterMap (fun (n, o) => o.map (fun v => (n, valToJson names v))))

def dataOf (j : Json) : Option Data :=
  match j with
  | .null => some .none
  | .bool b => some (.bool b)
  | .str s => some (.str s)
  | .num _ => (int? j).map .int
  | .obj _ => some .tuple
  | _ => none

def itemOf (names : List String) (j : Json) : Option Item := do
  let d ← dataOf (getD j "d")
  let c := getD j "c"
  if c.isNull then pure { data := d, ctx := none }
  else
    let l ← slots? names c
    pure { data := d, ctx := some l }

def dataJson : Data → Json
  | .none => Json.null
  | .bool b => Json.bool b
  | .int i => ofInt i
  | .str s => Json.str s
  | .tuple => Json.mkObj [("tuple", Json.bool true)]

def itemJson (names : List String) (v : Item) : Json :=
  Json.mkObj [("d", dataJson v.data), ("c", ofOpt (fun l => valToJson names (.dict l)) v.ctx)]

def strList? (j : Json) : Option (List String) := do
  let a ← arr? j
  a.toList.mapM str?

def keyArg? (j : Json) : Option KeyArg :=
  match j with
  | .str s => some (.str s)
  | _ => (strList? j).map .list

partial def specOf (j : Json) : Option Spec := do
  let t ← str? (getD j "t")
  match t with
  | "str" => (str? (getD j "s")).map .str
  | "cls" => (str? (getD j "c")).bind clsTable |>.map .cls
  | "fn" => (str? (getD j "f")).bind fnTable |>.map .fn
  | "list" => do let l ← (← arr? (getD j "l")).toList.mapM specOf; pure (.list l)
  | "tuple" => do let l ← (← arr? (getD j "l")).toList.mapM specOf; pure (.tuple l)
  | "not" => do pure (.notI (← specOf (getD j "s")) (← bool? (getD j "roe")))
  | "sel" => do pure (.selI (← specOf (getD j "s")) (← bool? (getD j "roe")))
  | "and" => do let l ← (← arr? (getD j "l")).toList.mapM specOf; pure (.andI l (← bool? (getD j "roe")))
  | "or" => do let l ← (← arr? (getD j "l")).toList.mapM specOf; pure (.orI l (← bool? (getD j "roe")))
  | "selctx" => do
      pure (.selCtx (← keyArg? (getD j "key")) (← (str? (getD j "pred")).bind predTable) (← bool? (getD j "roe")))
  | "bad" => pure .bad
  | _ => none

def resJson : Res → Json
  | .ok b => Json.bool b
  | .raise e => Json.mkObj [("e", Json.str e)]

def sot? (j : Json) : Option StrOrTuple :=
  match j with
  | .str s => some (.str s)
  | _ => (strList? j).map .tuple

/-- positions of the values of each group (values are tagged with their index as data) -/
def idxOfItem (v : Item) : Json :=
  match v.data with
  | .int i => ofInt i
  | _ => Json.null

def handle (j : Json) : Json :=
  match strList? (getD j "names") with
  | none =>
    match str? (getD j "op"), str? (getD j "s") with
    | some "split", some s => Json.mkObj [("r", ofList Json.str (splitDots s))]
    | _, _ => err "names missing"
  | some names =>
    match str? (getD j "op") with
    | some "select" =>
      match specOf (getD j "spec"), bool? (getD j "roe"), (arr? (getD j "values")).bind (·.toList.mapM (itemOf names)) with
      | some spec, some roe, some vals =>
        let top := (str? (getD j "top")).getD "selector"
        -- `Selector(spec, raise_on_error=roe)` (an instance given as the specification is wrapped:
        -- it is a callable) or `Filter(spec)`
        let o := if top == "filter" then filterInit spec else (inner roe spec).map (.selector · roe)
        match o with
        | none => Json.mkObj [("init", "LenaTypeError")]
        | some o =>
          let (ys, e) := filterRun names o vals
          Json.mkObj [("r", ofList (fun v => resJson (call names o v)) vals),
                      ("kept", ofList (itemJson names) ys), ("stop", ofOpt Json.str e)]
      | _, _, _ => err "bad select args"
    | some "groupby" =>
      match sot? (getD j "group_by"), sot? (getD j "merge"), arr? (getD j "contexts") with
      | some g, some m, some cs =>
        match groupByInit names g m with
        | .valueError => Json.mkObj [("init", "LenaValueError")]
        | .fuel => err "model out of fuel"
        | .ok t =>
          let items : Option (List Item) := (cs.toList.zipIdx).mapM (fun (c, i) =>
            if c.isNull then some { data := .int i, ctx := none }
            else (slots? names c).map (fun l => { data := .int i, ctx := some l }))
          match items with
          | none => err "bad contexts"
          | some items =>
            let gs := items.foldl (gbFill names.length t) []
            Json.mkObj [("groups", ofList (ofList idxOfItem) (gbCompute gs)),
                        ("keys", ofList (fun g => valToJson names (.dict g.1)) gs)]
      | _, _, _ => err "bad groupby args"
    | _ => err "unknown op"

def main : IO Unit := run handle
