import LenaModel.DriverUtil
import LenaModel.Model.C05
import LenaModel.Model.C05Sel
/-! Model driver for C05.  Values: int | "str" | [list] | {"t":[tuple]} | {"d":{dict}} | {"q":[n,d]}.
Element specs: see `specOf`.  Requests:
  {"op":"chain","args":[spec..],"flow":[v..],"bufsizes":[null|n..]}
      -> {"seq":out,"fill":out,"split":[out..],"safe":bool|null}
      seq   = list(Sequence(*args).run(iter(flow)))
      fill  = FillComputeSeq(*args) filled value by value until LenaStopFill, then list(compute())
      split = list(Split([tuple(args)], bufsize).run(iter(flow))) for every bufsize
      safe  = `preSafeB` of the pre-processing part (null if the FillComputeSeq cannot be built)
  {"op":"split","branches":[[spec..]..],"bufsize":null|n,"flow":[v..]}
      -> {"e":..,"phase":"init"} | {"r":[[i,v]..],"t":null|exc}     (values tagged with their branch)
  {"op":"msplit","branches":[{"ty":"chain"|"seq"|"freq"|"source","els":[spec..],"vals":[v..]}..],"bufsize":null|n,"flow":[v..]}
      -> like "split": a Split whose branches are of any type (`driveSplitM`)
  {"op":"adapter","adapter":"Call"|"Run"|"FillInto"|"FillCompute"|"SourceEl","attrs":{name:0|1|2},
   "callable":bool,"split":bool,"none":bool,"name":null|str,"name2":null|str}
      -> {"mode":..} | {"e":"LenaTypeError"}
out = {"e":<exception>,"phase":"init"} | {"r":[v..],"t":null|<exception>} -/
open Lean Lena.Drv Lena.Flow Lena.C05

partial def valueOf (j : Json) : Option Value :=
  match j with
  | .num _ => (int? j).map Value.int
  | .str s => some (.str s)
  | .arr a => (a.toList.mapM valueOf).map Value.list
  | .obj _ =>
    match j.getObjVal? "t", j.getObjVal? "d", j.getObjVal? "q" with
    | .ok (.arr a), _, _ => (a.toList.mapM valueOf).map Value.tup
    | _, .ok (.obj kvs), _ =>
      (kvs.toList.mapM fun (kv : String × Json) => (valueOf kv.2).map fun w => (kv.1, w)).map Value.dict
    | _, _, .ok (.arr #[n, d]) => do some (.quot (← int? n) (← int? d))
    | _, _, _ =>
      -- Python `None`: represented by `quot 0 0` (a float `0/0` is never produced: `Mean.compute` raises on count 0);
      -- like a string it is a non-int scalar without context; `truthy` makes it falsy
      match j.getObjVal? "none" with
      | .ok _ => some (.quot 0 0)
      | _ => none
  | _ => none

partial def valueJson : Value → Json
  | .int i => ofInt i
  | .str s => Json.str s
  | .quot n d =>
    if n == 0 && d == 0 then Json.mkObj [("none", Json.bool true)]
    else Json.mkObj [("q", Json.arr #[ofInt n, ofInt d])]
  | .list xs => Json.arr (xs.map valueJson).toArray
  | .tup xs => Json.mkObj [("t", Json.arr (xs.map valueJson).toArray)]
  | .dict kvs => Json.mkObj [("d", Json.mkObj (kvs.map fun (k, v) => (k, valueJson v)))]

def valuesOf (j : Json) : Option (List Value) := do (← arr? j).toList.mapM valueOf

def fnOf : String → Option Fn
  | "inc" => some .inc | "neg" => some .neg | "mod3" => some .mod3
  | "ident" => some .ident | "wrap" => some .wrap | "boom" => some .boom | _ => none

def predOf : String → Option Pred
  | "even" => some .even | "pos" => some .pos | "lt5" => some .lt5
  | "all" => some .all | "none" => some .none | _ => none

def attrOf (j : Json) : Option Attr :=
  match nat? j with
  | some 0 => some .absent | some 1 => some .value | some 2 => some .method | _ => none

def attrsOf (j : Json) : Option (List (String × Attr)) :=
  match j with
  | .obj kvs => kvs.toList.mapM fun (kv : String × Json) => (attrOf kv.2).map fun a => (kv.1, a)
  | _ => none

def accOfJson (j : Json) : Option AccKind :=
  match str? (getD j "a") with
  | some "sum" => some .sum
  | some "mean" => some .mean
  | some "store" => (bool? (getD j "group")).map AccKind.store
  | some "count" => (str? (getD j "name")).map AccKind.count
  | _ => none

/-- a selector description of the harness (`c05.py: build_sel`); `roe` null = the default `True` -/
partial def selOf (j : Json) : Option SelArg :=
  let items : Option (List SelArg) := do (← arr? (getD j "xs")).toList.mapM selOf
  let roe : Bool := (bool? (getD j "roe")).getD true
  match str? (getD j "s") with
  | some "pred" => do some (.pred (← predOf (← str? (getD j "p"))))
  | some "cls" =>
    match str? (getD j "c") with
    | some "int" => some (.cls .int) | some "str" => some (.cls .str) | some "list" => some (.cls .list) | _ => none
  | some "str" => do some (.key (← str? (getD j "v")))
  | some "list" => items.map SelArg.list
  | some "tuple" => items.map SelArg.tuple
  | some "S" => do some (.selector (← selOf (getD j "x")) roe)
  | some "Not" => do some (.not (← selOf (getD j "x")) roe)
  | some "Or" => items.map (SelArg.or · roe)
  | some "And" => items.map (SelArg.and · roe)
  | _ => none

partial def specOf (j : Json) : Option Spec :=
  let specs (k : String) : Option (List Spec) := do (← arr? (getD j k)).toList.mapM specOf
  match str? (getD j "k") with
  | some "call" => do some (.call (← fnOf (← str? (getD j "f"))))
  | some "var" => do some (.var (← str? (getD j "name")) (← fnOf (← str? (getD j "f"))))
  | some "filter" => do some (.filter (← predOf (← str? (getD j "p"))))
  | some "slice" => do
    let a ← (← arr? (getD j "args")).toList.mapM optInt
    match a with
    | [b] => some (.slice none b none)
    | [a, b] => some (.slice a b none)
    | [a, b, s] => some (.slice a b s)
    | _ => none
  | some "count" => do some (.count (← str? (getD j "name")))
  | some "runif" =>
    if (getD j "bad").getBool?.toOption == some true then (specs "inner").map Spec.runIfBad
    else do some (.runIf (← predOf (← str? (getD j "p"))) (← specs "inner"))
  | some "reverse" => some .reverse
  | some "end" => some .end_
  | some "acc" => (accOfJson j).map Spec.acc
  | some "syn" => do
    some (.syn (← attrsOf (getD j "attrs")) (← bool? (getD j "call")) ((bool? (getD j "nodata")).getD false))
  | some "dup" => some .dup
  | some "filtert" =>
    match str? (getD j "q") with
    | some "odd" => some (.filterT .oddInt)
    | some "data" => some (.filterT .dataSelf)
    | _ => none
  | some "const" => (valueOf (getD j "v")).map Spec.const
  | some "junk" => some .junk
  | some "setctx" => some .setContext
  | _ => none

def specsOf (j : Json) : Option (List Spec) := do (← arr? j).toList.mapM specOf

def initErr (e : Exc) : Json := Json.mkObj [("e", e.name), ("phase", "init")]

def termJson : Option Exc → Json
  | none => Json.null
  | some e => Json.str e.name

def strmJson (s : Strm Value) : Json :=
  Json.mkObj [("r", ofList valueJson s.vals), ("t", termJson s.term)]

def outJson : Outcome → Json
  | .init e => initErr e
  | .ran s => strmJson s

def optNat (j : Json) : Option (Option Nat) :=
  if j.isNull then some none else (nat? j).map some

def splitJson (args : List Spec) (flow : List Value) (b : Option Nat) : Json :=
  match driveSplit [args] b flow with
  | .error e => initErr e
  | .ok s => strmJson (s.map Prod.snd)

def safeJson (args : List Spec) (flow : List Value) : Json :=
  match Spec.toObjs args with
  | .error _ => Json.null
  | .ok os =>
    match mkFillComputeSeq os with
    | .error _ => Json.null
    | .ok c => Json.bool (preSafeB c.pre flow)

def modeCall : CallMode → String
  | .self => "self" | .method n => "method:" ++ n | .iter => "iter"
def modeRun : RunMode → String
  | .method n => "method:" ++ n | .callRun => "callRun" | .fcRun => "fcRun" | .given => "given"
def modeFillInto : FillIntoMode → String
  | .method n => "method:" ++ n | .callDefault => "callDefault" | .runFillInto => "runFillInto"

def modeJson {μ : Type} (f : μ → String) : Except Exc μ → Json
  | .ok m => Json.mkObj [("mode", f m)]
  | .error e => Json.mkObj [("e", e.name)]

def optStr (j : Json) : Option (Option String) :=
  if j.isNull then some none else (str? j).map some

def excOf : String → Option Exc
  | "LenaTypeError" => some .lenaTypeError
  | "LenaValueError" => some .lenaValueError
  | "LenaStopFill" => some .lenaStopFill
  | "Other:TypeError" => some .typeError
  | "Other:ValueError" => some .valueError
  | "Other:IndexError" => some .indexError
  | "Other:AttributeError" => some .attributeError
  | _ => none

def optExc (j : Json) : Option (Option Exc) :=
  if j.isNull then some none else ((str? j).bind excOf).map some

def optIntJ (j : Json) : Option (Option Int) :=
  if j.isNull then some none else (int? j).map some

def taggedJson (r : Except Exc (Strm (Nat × Value))) : Json :=
  match r with
  | .error e => initErr e
  | .ok s =>
    Json.mkObj [("r", ofList (fun (p : Nat × Value) => Json.arr #[ofNat p.1, valueJson p.2]) s.vals),
      ("t", termJson s.term)]

/-- the element descriptions before the first fill/compute data element, and that element -/
def preSpecsOf : List Spec → Option (List Spec × Spec)
  | [] => none
  | s :: ss =>
    match s.toObj with
    | .error _ => none
    | .ok o =>
      if o.hasNoData then preSpecsOf ss
      else if o.caps.isFillComputeEl then some ([], s)
      else (preSpecsOf ss).map (fun (p, a) => (s :: p, a))

def isAccSpec : Spec → Bool
  | .acc _ => true
  | _ => false

/-- `seqRun c flow` of the chain of `FillComputeSeq(*args)`, reported when the chain is within the property
(in-scope pre-processing elements, a pure fill/compute accumulator) -/
def seqChainJson (args : List Spec) (flow : List Value) : Json :=
  match preSpecsOf args with
  | none => Json.null
  | some (pre, a) =>
    if pre.all Spec.inScopeB && isAccSpec a then
      match driveSeqOfChain args flow with
      | none => Json.null
      | some s => strmJson s
    else Json.null

/-- the right-hand sides of `count_dual` for a chain `pre* Count(name)` (in-scope `pre`, nothing after it):
`countRunSpec name ys` and `[(len ys, lastCtx ys + {name: len ys})]` for the delivered values `ys` -/
def dualJson (args : List Spec) (flow : List Value) : Json :=
  match preSpecsOf args with
  | some (pre, .count name) =>
    if pre.all Spec.inScopeB && args.length == pre.length + 1 then
      match Spec.toObjs pre with
      | .error _ => Json.null
      | .ok os =>
        match toPres os with
        | .error _ => Json.null
        | .ok ps =>
          if preSafeB ps flow then
            match composeS (ps.map Pre.run) (.ofList flow) with
            | .ok s =>
              let ys := s.vals
              Json.mkObj [("seq", ofList valueJson (countRunSpec name ys)),
                ("fill", ofList valueJson [.tup [.int ys.length, .dict (dictSet (lastCtx ys) name (.int ys.length))]])]
            | .error _ => Json.null
          else Json.null
    else Json.null
  | _ => Json.null

def inScopeJson (args : List Spec) : Json :=
  match preSpecsOf args with
  | none => Json.null
  | some (pre, _) => Json.arr (pre.map (fun s => Json.bool s.inScopeB)).toArray

def fillResJson : FillRes (List Value) → Json
  | .ok s => Json.mkObj [("got", ofList valueJson s), ("end", "ok")]
  | .stop s => Json.mkObj [("got", ofList valueJson s), ("end", "stop")]
  | .err e => Json.mkObj [("end", e.name)]

def obsVal (v : Value) : Json := Json.mkObj [("v", valueJson v)]
def obsExc (e : Exc) : Json := Json.mkObj [("x", e.name)]
def obsStrm (s : Strm Value) : Json :=
  match s.term with
  | none => Json.mkObj [("v", ofList valueJson s.vals)]
  | some e => obsExc e

/-- `Run(None, run=_given_run)` of the harness: yields `["given", v]` -/
def givenStage : Stage Value := fun s => .ok (mapS (fun v => .ok (.list [.str "given", v])) s)

/-- the behaviour of the adapter's exposed method on the harness's sample (`denCall` … of the model), or `null`
where the model gives the binding no meaning -/
def denJson (ad : String) (sp : Spec) (name name2 : Option String) : Json :=
  match sp.toObj with
  | .error _ => Json.null
  | .ok o =>
    let ms := match sp with
      | .syn attrs _ _ => synMeths attrs o
      | .count _ => { o.meths with fillIntoM := fun _ => none }   -- `Count.fill_into` (counting) is not modelled
      | _ => o.meths
    match ad with
    | "Call" =>
      match mkCall o.caps name with
      | .ok m =>
        match denCall o ms m with
        | some f =>
          (match f (.int 7), f (.int 8), f (.int 9) with
           | .ok a, .ok b, .ok c => obsVal (.list [a, b, c])
           | .error e, _, _ => obsExc e
           | _, .error e, _ => obsExc e
           | _, _, .error e => obsExc e)
        | none => Json.null
      | .error _ => Json.null
    | "Run" =>
      match mkRun o.caps name with
      | .ok m =>
        match denRun o ms givenStage m with
        | some st => obsStrm (observe (st (.ofList [.int 1, .int 2])))
        | none => Json.null
      | .error _ => Json.null
    | "FillInto" =>
      match mkFillInto o.caps name with
      | .ok m =>
        match denFillInto o ms m with
        | some p =>
          match feedList (stageSink p storeSinkV) (p.initState, []) [.int 7, .int 8] with
          | .ok st => Json.mkObj [("v", ofList valueJson st.2)]
          | .stop _ => obsExc .lenaStopFill
          | .err e => obsExc e
        | none => Json.null
      | .error _ => Json.null
    | "FillCompute" =>
      match mkFillCompute o.caps (name.getD "fill") (name2.getD "compute") with
      | .ok b =>
        match denFillCompute ms b with
        | some a => obsStrm (observe (fcRun a (.ofList [.int 1, .int 2])))
        | none => Json.null
      | .error _ => Json.null
    | _ => Json.null

def handle (j : Json) : Json :=
  match str? (getD j "op") with
  | some "chain" =>
    match specsOf (getD j "args"), valuesOf (getD j "flow"), (arr? (getD j "bufsizes")).bind (fun a => a.toList.mapM optNat) with
    | some args, some flow, some bs =>
      Json.mkObj [("seq", outJson (driveSeq args flow)), ("fill", outJson (driveFill args flow)),
        ("split", Json.arr (bs.map (splitJson args flow)).toArray), ("safe", safeJson args flow),
        ("seqchain", seqChainJson args flow), ("inscope", inScopeJson args), ("dual", dualJson args flow)]
    | _, _, _ => err "bad chain args"
  | some "split" =>
    match (arr? (getD j "branches")).bind (fun a => a.toList.mapM specsOf), optIntJ (getD j "bufsize"),
        valuesOf (getD j "flow") with
    | some bs, some b, some flow =>
      let isList := (getD j "islist").getBool?.toOption != some false
      taggedJson (driveSplitI isList bs b flow)
    | _, _, _ => err "bad split args"
  | some "splitfc" =>
    match (arr? (getD j "branches")).bind (fun a => a.toList.mapM specsOf), valuesOf (getD j "flow") with
    | some bs, some flow => taggedJson (driveSplitFill bs flow)
    | _, _ => err "bad splitfc args"
  | some "msplit" =>
    let branchOf (b : Json) : Option BranchSpec :=
      match str? (getD b "ty") with
      | some "source" => do some (.source (← valuesOf (getD b "vals")) (← specsOf (getD b "els")))
      | some _ => (specsOf (getD b "els")).map BranchSpec.tuple
      | none => none
    match (arr? (getD j "branches")).bind (fun a => a.toList.mapM branchOf), optIntJ (getD j "bufsize"),
        valuesOf (getD j "flow") with
    | some bs, some b, some flow => taggedJson (driveSplitM bs b flow)
    | _, _, _ => err "bad msplit args"
  | some "fillseq_init" =>
    match specsOf (getD j "args") with
    | some args =>
      match driveFillSeqInit args with
      | .error e => initErr e
      | .ok () => Json.mkObj [("ok", Json.bool true)]
    | none => err "bad fillseq_init args"
  | some "caps" =>
    match specOf (getD j "spec") with
    | some sp =>
      match sp.toObj with
      | .error e => initErr e
      | .ok o =>
        let names := ["run", "fill", "compute", "fill_into", "request", "_can_break_flow", "__iter__"]
        Json.mkObj ((names.map fun n => (n, ofNat (match o.caps.attr n with | .absent => 0 | .value => 1 | .method => 2)))
          ++ [("callable", Json.bool o.caps.callable), ("nodata", Json.bool o.hasNoData),
              ("stateless", Json.bool sp.stateless)])
    | none => err "bad caps args"
  | some "stage" =>
    if str? (getD (getD j "el") "k") == some "filter" && !(getD (getD j "el") "sel").isNull then
      -- a Filter built from a selector of any form (`Model/C05Sel.lean`)
      match selOf (getD (getD j "el") "sel"), valuesOf (getD j "flow"), optExc (getD j "term") with
      | some x, some flow, some term =>
        match driveStageObj (selFilterObj x) flow term with
        | .error e => initErr e
        | .ok (f, r) => Json.mkObj [("fill", fillResJson f), ("run", strmJson r)]
      | _, _, _ => err "bad stage args (sel)"
    else
    match specOf (getD j "el"), valuesOf (getD j "flow"), optExc (getD j "term") with
    | some sp, some flow, some term =>
      match driveStage sp flow term with
      | .error e => initErr e
      | .ok (f, r) => Json.mkObj [("fill", fillResJson f), ("run", strmJson r)]
    | _, _, _ => err "bad stage args"
  | some "adapter" =>
    match attrsOf (getD j "attrs"), bool? (getD j "callable"), bool? (getD j "split"), bool? (getD j "none"),
        optStr (getD j "name"), optStr (getD j "name2"), str? (getD j "adapter") with
    | some attrs, some callable, some isSplit, some isNone, some name, some name2, some ad =>
      let c := { capsOf attrs callable isSplit isNone with
        givenCallable := (getD j "given_callable").getBool?.toOption != some false }
      let den : Json := match specOf (getD j "el") with
        | some sp => denJson ad sp name name2
        | none => Json.null
      let withSpec (m : Json) (acc : Bool) (bind : String) : Json :=
        m.mergeObj (Json.mkObj [("spec_accepts", Json.bool acc), ("spec_binding", bind), ("den", den)])
      match ad with
      | "Call" => withSpec (modeJson modeCall (mkCall c name)) (callAccepts c name) (modeCall (callBinding name))
      | "SourceEl" =>
        withSpec (modeJson modeCall (mkSourceEl c name)) (sourceElAccepts c name) (modeCall (sourceElBinding c name))
      | "Run" => withSpec (modeJson modeRun (mkRun c name)) (runAccepts c name) (modeRun (runBinding c name))
      | "FillInto" =>
        withSpec (modeJson modeFillInto (mkFillInto c name)) (fillIntoAccepts c name)
          (modeFillInto (fillIntoBinding c name))
      | "FillCompute" =>
        let f := name.getD "fill"
        let cp := name2.getD "compute"
        withSpec (modeJson (fun (p : String × String) => p.1 ++ "," ++ p.2) (mkFillCompute c f cp))
          (fillComputeAccepts c f cp) ((fillComputeBinding c f cp).1 ++ "," ++ (fillComputeBinding c f cp).2)
      | _ => err "unknown adapter"
    | _, _, _, _, _, _, _ => err "bad adapter args"
  | _ => err "unknown op"

def main : IO Unit := run handle
