import LenaModel.DriverUtil
import LenaModel.Model.C06
import LenaModel.Model.C06Spec
import LenaModel.Model.C06Compute
/-! Model driver for C06.  Edge values / coordinates are integers (an order-embedding of the
case's numbers), bin contents / weights are integers (exactly scaled).  The float interpolation
guess of the search is supplied by the harness as a finite table; a missing entry is a guess
outside the range (`unmodelled`).

Requests:
  {"op":"bin1d","arr":[ints],"val":int,"g":[lo,hi,guess, lo,hi,guess, ..]}            -> {"r":int} | {"e":name}
  {"op":"hist","edges":{"f":[ints]}|{"n":[[ints],..]},"bins":null|nested,"init":int,
   "fills":[{"c":{"s":int}|{"t":[ints]},"w":int,"g":[axis,lo,hi,guess, axis,lo,hi,guess, ..]},..]}
      -> {"e":name,"phase":"init"}
       | {"steps":[{"idx":[ints]|{"e":name}, "e":name}                     (fill raised; state kept)
                 |{"idx":.., "chg":[[[index],new],..], "oor":int},..],
          "bins":nested, "oor":int,
          "all":{"e":name}|{"bins":nested,"oor":int}}        (`fillAll`: the whole sequence, first exception ends it)
  {"op":"elem","edges":..,"bins":..,"init":int,"one":int,
   "vals":[{"c":..,"ctx":int|null,"g":..},..]}
      -> {"e":name,"phase":"init"} | {"e":name,"phase":"fill"}
       | {"bins":nested,"oor":int,"ctx":int|null,"lctx":lastCtx,"sumw":sumW (toOps ..),"tot":total+nOut}

Extension round (every definition of `Model/C06Spec.lean` is executed here):
  bin1d also accepts "full":bool (the table holds the guess of EVERY pair lo+1<hi with arr[lo]<val<arr[hi]),
   "arrf":[u64 bit patterns],"valf":u64 (all numbers are doubles), "arri":[ints],"vali":int (all numbers are ints)
   and adds to the reply "vis":visitedInRange, "okat":guessOKAtB (if full), "cnt":countLE, "inc":StrictInc,
   "fr"/"fvis"/"fokat"/"fg" (result, predicates and guesses at the table's states with `floatGuess`),
   "ir"/"rr" (result with `interpGuess` / `roundedGuessArr id`), "trace":[lo,hi,g,..] visited states
  hist also accepts per fill "pc":[cell]|null (the cell found by the harness) and adds "spec":{..} (see `specJson`)
  {"op":"initbins","edges":..,"init":int,"deep":bool}                     -> {"bins":nested} | {"e":name}
  {"op":"elem2","edges":..,"bins":..,"mk":null|nested,"init":int,"one":int,
   "ops":[{"c":..,"ctx":int|null,"g":..} | {"reset":true} | {"compute":true},..]}
      -> {"e":name,"phase":"init"} | {"e":name,"phase":"run"}
       | {"bins":nested,"oor":int,"ctx":int|null,"tot":int,"ssum":int|null,"fresh":bool,
          "ys":[{"bins":nested,"oor":int,"ctx":int|null},..] | {"e":name},   (`HistEl2.run3`: everything `compute()` yielded)
          "bins3":nested,"oor3":int,"ctx3":..                                (final state of `HistEl2.run3`)
          "syields":[ints]}                                                  (`specYields`)
     ("bins".."fresh" come from `HistEl2.run` on `stripComputes ops`, the history without its computes) -/
open Lean Lena Lena.Drv Lena.C06

partial def parseNArr (j : Json) : Option (NArr Int) :=
  match j with
  | .arr a => (a.toList.mapM parseNArr).map NArr.node
  | _ => (int? j).map NArr.leaf

partial def narrJson : NArr Int → Json
  | .leaf v => ofInt v
  | .node xs => Json.arr (xs.map narrJson).toArray

def parseEdges (j : Json) : Option (Edges Int) :=
  match intList? (getD j "f") with
  | some l => some (.flat l)
  | none => ((arr? (getD j "n")).bind (fun a => a.toList.mapM intList?)).map Edges.nested

def parseCoord (j : Json) : Option (Coord Int) :=
  match int? (getD j "s") with
  | some x => some (.scalar x)
  | none => (intList? (getD j "t")).map Coord.tuple

/-- flat table `lo, hi, g, lo, hi, g, …` (first entry of a state wins) -/
def guess1L : List Int → Nat → Nat → Int
  | l :: h :: g :: rest, lo, hi => if l == (lo : Int) && h == (hi : Int) then g else guess1L rest lo hi
  | _, _, _ => -1

/-- the same table bucketed by `lo + hi` (long searches visit hundreds of states) -/
def bucketTab (size : Nat) : List Int → Array (List Int) → Array (List Int)
  | l :: h :: g :: rest, a =>
    let k := (l + h).toNat % size
    bucketTab size rest (a.set! k (a[k]! ++ [l, h, g]))
  | _, a => a

def guess1 (tab : List Int) : Nat → Nat → Int :=
  if tab.length ≤ 60 then guess1L tab
  else
    let size := tab.length / 3 + 1
    let a := bucketTab size tab (Array.replicate size [])
    fun lo hi => guess1L (a[(lo + hi) % size]!) lo hi

/-- flat table `axis, lo, hi, g, axis, lo, hi, g, …` -/
def guessN : List Int → Nat → Nat → Nat → Int
  | a :: l :: h :: g :: rest, k, lo, hi =>
    if a == (k : Int) && l == (lo : Int) && h == (hi : Int) then g else guessN rest k lo hi
  | _, _, _, _ => -1

def parseTab (j : Json) : Option (List Int) :=
  if j.isNull then some [] else intList? j

def exc (e : Err) : Json := Json.str e.name

def parseBins (j : Json) : Option (Option (NArr Int)) :=
  if j.isNull then some none else (parseNArr j).map some

mutual
/-- cells that differ between two arrays of the same shape: (index, new content) -/
partial def diffN (pre : List Nat) : NArr Int → NArr Int → List (List Nat × Int)
  | .leaf a, .leaf b => if a != b then [(pre.reverse, b)] else []
  | .node xs, .node ys => diffL pre 0 xs ys
  | _, _ => [(pre.reverse, -1)]
partial def diffL (pre : List Nat) (k : Nat) : List (NArr Int) → List (NArr Int) → List (List Nat × Int)
  | x :: xs, y :: ys => diffN (k :: pre) x y ++ diffL pre (k + 1) xs ys
  | [], [] => []
  | _, _ => [(pre.reverse, -1)]
end

def diffCells (a b : NArr Int) : Json :=
  ofList (fun (p : List Nat × Int) => Json.arr #[ofList ofNat p.1, ofInt p.2]) (diffN [] a b)

def idxJson : Except Err (List Int) → Json
  | .ok l => ofIntList l
  | .error e => Json.mkObj [("e", exc e)]

def parseOps : List Json → Option (List ((Nat → Nat → Nat → Int) × Coord Int × Int))
  | [] => some []
  | f :: rest => do
    let c ← parseCoord (getD f "c")
    let w ← int? (getD f "w")
    let tab ← parseTab (getD f "g")
    let r ← parseOps rest
    some ((guessN tab, c, w) :: r)

def runFills (h : Hist Int Int) : List ((Nat → Nat → Nat → Int) × Coord Int × Int) → List Json × Hist Int Int
  | [] => ([], h)
  | (g, c, w) :: rest =>
    let idx := idxJson (getBinOnValue g c h.edges)
    match fill g h c w with
    | .error e =>
      let (steps, hf) := runFills h rest
      (Json.mkObj [("idx", idx), ("e", exc e)] :: steps, hf)
    | .ok h' =>
      let (steps, hf) := runFills h' rest
      -- `NArr.get?` at the reported indices (when they are all non-negative): the content of the addressed cell
      let got := match getBinOnValue g c h.edges with
        | .ok is => if is.all (fun i => 0 ≤ i) then
            (match NArr.get? h'.bins (is.map Int.toNat) with
             | some (.leaf v) => ofInt v
             | _ => Json.null) else Json.null
        | .error _ => Json.null
      (Json.mkObj [("idx", idx), ("chg", diffCells h.bins h'.bins), ("oor", ofInt h'.nOut), ("get", got)] :: steps, hf)

def parseVals : List Json → Option (List ((Nat → Nat → Nat → Int) × Coord Int × Option Int))
  | [] => some []
  | f :: rest => do
    let c ← parseCoord (getD f "c")
    let ctx ← optInt (getD f "ctx")
    let tab ← parseTab (getD f "g")
    let r ← parseVals rest
    some ((guessN tab, c, ctx) :: r)


/-- visited guess states of the search (driver-side diagnostic, mirrors `bin1dLoop`) -/
partial def traceLoop (guess : Nat → Nat → Int) (val : Int) (arr : Array Int) (lo hi : Nat) : List Int :=
  if hi - lo ≤ 1 then []
  else
    let a := arr.getD lo 0
    let b := arr.getD hi 0
    if val == a || val < a || b ≤ val then []
    else
      let g := guess lo hi
      let here := [(lo : Int), (hi : Int), g]
      if g < lo || (hi : Int) < g then here
      else if (lo : Int) == g then here ++ traceLoop guess val arr (lo + 1) hi
      else if (hi : Int) == g then here ++ traceLoop guess val arr lo (hi - 1)
      else if val < arr.getD g.toNat 0 then here ++ traceLoop guess val arr lo g.toNat
      else here ++ traceLoop guess val arr g.toNat hi

def resJson : Except Err Int → Json
  | .ok r => ofInt r
  | .error e => Json.mkObj [("e", exc e)]

def tabStates : List Int → List (Nat × Nat)
  | l :: h :: _ :: rest => (l.toNat, h.toNat) :: tabStates rest
  | _ => []

def floatList? (j : Json) : Option (Array Float) := do
  let a ← arr? j
  let l ← a.toList.mapM nat?
  some (l.map (fun n => Float.ofBits n.toUInt64)).toArray

def bin1dExtra (j : Json) (arr : List Int) (v : Int) (tab : List Int) : List (String × Json) :=
  let g := guess1 tab
  let base : List (String × Json) :=
    [("vis", Json.bool (visitedInRange g v arr)), ("cnt", ofNat (countLE arr v)),
     ("inc", if arr.length ≤ 40 then Json.bool (decide (StrictInc arr)) else Json.null), ("trace", ofIntList (traceLoop g v arr.toArray 0 (arr.length - 1)))]
  let full := match bool? (getD j "full") with
    | some true => [("okat", Json.bool (guessOKAtB arr v g))]
    | _ => []
  let fl := match floatList? (getD j "arrf"), nat? (getD j "valf") with
    | some af, some vb =>
      let fg := floatGuess af (Float.ofBits vb.toUInt64)
      [("fr", resJson (bin1d fg v arr)), ("fvis", Json.bool (visitedInRange fg v arr)),
       ("fokat", if arr.length ≤ 40 then Json.bool (guessOKAtB arr v fg) else Json.null),
       ("fg", ofIntList ((tabStates tab).flatMap (fun (p : Nat × Nat) => [(p.1 : Int), (p.2 : Int), fg p.1 p.2])))]
    | _, _ => []
  let it := match intList? (getD j "arri"), int? (getD j "vali") with
    | some ai, some vi =>
      [("ir", resJson (bin1d (interpGuess ai vi) v arr)),
       ("rr", if arr.length ≤ 40 then
          resJson (bin1d (roundedGuessArr id (ai.map (fun (i : Int) => (i : Rat))) (vi : Rat)) v arr) else Json.null)]
    | _, _ => []
  base ++ full ++ fl ++ it

def optCell (j : Json) : Option (Option (List Nat)) :=
  if j.isNull then some none else ((arr? j).bind (fun a => a.toList.mapM nat?)).map some

/-- the specification side of a histogram case: every spec definition evaluated on the case -/
def specJson (full : Bool) (edges : Edges Int) (h0 : Hist Int Int) (fills : List Json)
    (ops : List ((Nat → Nat → Nat → Int) × Coord Int × Int)) : Json :=
  let axes := edges.axes
  let perFill := (List.zip fills ops).map fun (f, (g, c, _)) =>
    match properList? edges c with
    | none => Json.mkObj [("proper", Json.bool false)]
    | some xs =>
      let pc := match optCell (getD f "pc") with
        | some (some idx) => Json.bool (decide (InCell axes xs idx))
        | _ => Json.null
      Json.mkObj [("proper", Json.bool true), ("ind", ofIntList (indices axes xs)),
                  ("inr", Json.bool (decide (InRange (indices axes xs) (dimsOf axes)))),
                  ("cell", ofOpt (ofList ofNat) (cellOf? axes xs)), ("pc_incell", pc),
                  ("gokat", if full then Json.bool (guessesOKAtB axes xs g) else Json.null)]
  let pts : List (List Int × Int) := ops.filterMap fun (_, c, w) => (properList? edges c).map (fun xs => (xs, w))
  let wf := wfB h0
  let fin := specFillAll axes (h0.bins, h0.nOut) pts
  Json.mkObj [("valid", Json.bool (decide (ValidEdges edges))), ("dim", ofNat (edgesDim edges)),
              ("dims", ofList ofNat (dimsOf axes)), ("wf0", Json.bool wf), ("fills", Json.arr perFill.toArray),
              ("total0", ofInt (total h0.bins)),
              ("sbins", if wf then narrJson fin.1 else Json.null), ("soor", if wf then ofInt fin.2 else Json.null),
              ("stotal", if wf then ofInt (total fin.1) else Json.null),
              ("sumw", ofInt (sumW (pts.map (·.2))))]

def parseElOps : List Json → Option (List (ElOp Int (Option Int)))
  | [] => some []
  | f :: rest => do
    let r ← parseElOps rest
    match bool? (getD f "reset") with
    | some true => some (ElOp.reset :: r)
    | _ =>
      let c ← parseCoord (getD f "c")
      let ctx ← optInt (getD f "ctx")
      let tab ← parseTab (getD f "g")
      some (ElOp.fill (guessN tab) c (ctx.map some) :: r)

def parseElOps3 : List Json → Option (List (ElOp3 Int (Option Int)))
  | [] => some []
  | f :: rest => do
    let r ← parseElOps3 rest
    match bool? (getD f "reset"), bool? (getD f "compute") with
    | some true, _ => some (ElOp3.reset :: r)
    | _, some true => some (ElOp3.compute :: r)
    | _, _ =>
      let c ← parseCoord (getD f "c")
      let ctx ← optInt (getD f "ctx")
      let tab ← parseTab (getD f "g")
      some (ElOp3.fill (guessN tab) c (ctx.map some) :: r)

def handle (j : Json) : Json :=
  match str? (getD j "op") with
  | some "bin1d" =>
    match intList? (getD j "arr"), int? (getD j "val"), parseTab (getD j "g") with
    | some arr, some v, some tab =>
      let extra := bin1dExtra j arr v tab
      match bin1d (guess1 tab) v arr with
      | .ok r => Json.mkObj (("r", ofInt r) :: extra)
      | .error e => Json.mkObj (("e", exc e) :: extra)
    | _, _, _ => err "bad bin1d args"
  | some "hist" =>
    match parseEdges (getD j "edges"), parseBins (getD j "bins"), int? (getD j "init"), arr? (getD j "fills") with
    | some edges, some bins, some init, some fills =>
      match mkHist edges bins init with
      | .error e => Json.mkObj [("e", exc e), ("phase", "init")]
      | .ok h =>
        match parseOps fills.toList with
        | some ops =>
          let (steps, hf) := runFills h ops
          let all := match fillAll h ops with
            | .error e => Json.mkObj [("e", exc e)]
            | .ok ha => Json.mkObj [("bins", narrJson ha.bins), ("oor", ofInt ha.nOut)]
          Json.mkObj [("steps", Json.arr steps.toArray), ("bins", narrJson hf.bins), ("oor", ofInt hf.nOut),
                      ("all", all), ("spec", specJson ((bool? (getD j "full")).getD false) edges h fills.toList ops)]
        | none => err "bad fills"
    | _, _, _, _ => err "bad hist args"
  | some "elem" =>
    match parseEdges (getD j "edges"), parseBins (getD j "bins"), int? (getD j "init"), int? (getD j "one"),
          (arr? (getD j "vals")).bind (fun a => parseVals a.toList) with
    | some edges, some bins, some init, some one, some vals =>
      match HistEl.new (none : Option Int) edges bins init with
      | .error e => Json.mkObj [("e", exc e), ("phase", "init")]
      | .ok el =>
        match HistEl.fillAll (none : Option Int) one el (vals.map (fun (g, c, ctx) => (g, c, ctx.map some))) with
        | .error e => Json.mkObj [("e", exc e), ("phase", "fill")]
        | .ok el' =>
          let vals' := vals.map (fun (g, c, ctx) => (g, c, ctx.map some))
          Json.mkObj [("bins", narrJson el'.hist.bins), ("oor", ofInt el'.hist.nOut),
                      ("ctx", ofOpt ofInt el'.curContext),
                      ("lctx", ofOpt ofInt (lastCtx (none : Option Int) none vals')),
                      ("sumw", ofInt (sumW ((toOps one vals').map (·.2.2)))),
                      ("tot", ofInt (total el'.hist.bins + el'.hist.nOut))]
    | _, _, _, _, _ => err "bad elem args"
  | some "initbins" =>
    match parseEdges (getD j "edges"), int? (getD j "init"), bool? (getD j "deep") with
    | some edges, some init, some deep =>
      let chk : Json := match checkEdgesIncreasing edges with
        | .ok _ => "ok"
        | .error e => exc e
      match initBinsD deep init edges with
      | .ok b => Json.mkObj [("bins", narrJson b), ("full", narrJson (NArr.full (dimsOf edges.axes) init)),
                             ("valid", Json.bool (decide (ValidEdges edges))), ("chk", chk)]
      | .error e => Json.mkObj [("e", exc e), ("chk", chk)]
    | _, _, _ => err "bad initbins args"
  | some "elem2" =>
    match parseEdges (getD j "edges"), parseBins (getD j "bins"), parseBins (getD j "mk"), int? (getD j "init"),
          int? (getD j "one"), (arr? (getD j "ops")).bind (fun a => parseElOps3 a.toList) with
    | some edges, some bins, some mk, some init, some one, some ops3 =>
      let ops := stripComputes ops3
      match HistEl2.new (none : Option Int) edges bins mk init with
      | .error e => Json.mkObj [("e", exc e), ("phase", "init")]
      | .ok el =>
        match HistEl2.run (none : Option Int) one el ops with
        | .error e => Json.mkObj [("e", exc e), ("phase", "run")]
        | .ok el' =>
          let s0 := total el.hist.bins + el.hist.nOut
          -- `reset()` of the final state against a newly constructed element (`histEl2_reset_fresh`)
          let fresh := match HistEl2.reset (none : Option Int) el', HistEl2.new (none : Option Int) edges bins mk init with
            | .ok a, .ok b => narrJson a.hist.bins == narrJson b.hist.bins && a.hist.nOut == b.hist.nOut
            | .error a, .error b => a == b
            | _, _ => false
          -- the same history with its `compute()` calls
          let r3 : List (String × Json) := match HistEl2.run3 (none : Option Int) one el ops3 with
            | .error e => [("ys", Json.mkObj [("e", exc e)])]
            | .ok (e3, ys) =>
              [("ys", ofList (fun (y : Hist Int Int × Option Int) =>
                  Json.mkObj [("bins", narrJson y.1.bins), ("oor", ofInt y.1.nOut), ("ctx", ofOpt ofInt y.2)]) ys),
               ("bins3", narrJson e3.hist.bins), ("oor3", ofInt e3.hist.nOut), ("ctx3", ofOpt ofInt e3.curContext)]
          Json.mkObj ([("bins", narrJson el'.hist.bins), ("oor", ofInt el'.hist.nOut),
                      ("ctx", ofOpt ofInt el'.curContext), ("tot", ofInt (total el'.hist.bins + el'.hist.nOut)),
                      ("ssum", ofInt (specSum s0 one s0 ops)), ("fresh", Json.bool fresh),
                      ("syields", ofIntList (specYields s0 one s0 ops3))] ++ r3)
    | _, _, _, _, _, _ => err "bad elem2 args"
  | _ => err "unknown op"

def main : IO Unit := run handle
