import LenaModel.DriverUtil
import LenaModel.Model.C06
/-! Model driver for C06.  Edge values / coordinates are integers (an order-embedding of the
case's numbers), bin contents / weights are integers (exactly scaled).  The float interpolation
guess of the search is supplied by the harness as a finite table; a missing entry is a guess
outside the range (`unmodelled`).

Requests:
  {"op":"bin1d","arr":[ints],"val":int,"g":[lo,hi,guess, lo,hi,guess, ..]}            -> {"r":int} | {"e":name}
  {"op":"hist","edges":{"f":[ints]}|{"n":[[ints],..]},"bins":null|nested,"init":int,
   "fills":[{"c":{"s":int}|{"t":[ints]},"w":int,"g":[axis,lo,hi,guess, axis,lo,hi,guess, ..]},..]}
      -> {"e":name,"phase":"init"}
       | {"steps":[{"idx":[ints]|{"e":name}, "e":name}                     (fill raised; state kept)
                 |{"idx":.., "chg":[[[index],new],..], "oor":int},..],
          "bins":nested, "oor":int,
          "all":{"e":name}|{"bins":nested,"oor":int}}        (`fillAll`: the whole sequence, first exception ends it)
  {"op":"elem","edges":..,"bins":..,"init":int,"one":int,
   "vals":[{"c":..,"ctx":int|null,"g":..},..]}
      -> {"e":name,"phase":"init"} | {"e":name,"phase":"fill"} | {"bins":nested,"oor":int,"ctx":int|null} -/
open Lean Lena Lena.Drv Lena.C06

partial def parseNArr (j : Json) : Option (NArr Int) :=
  match j with
  | .arr a => (a.toList.mapM parseNArr).map NArr.node
  | _ => (int? j).map NArr.leaf

partial def narrJson : NArr Int → Json
  | .leaf v => ofInt v
  | .node xs => Json.arr (xs.map narrJson).toArray

def parseEdges (j : Json) : Option (Edges Int) :=
  match intList? (getD j "f") with
  | some l => some (.flat l)
  | none => ((arr? (getD j "n")).bind (fun a => a.toList.mapM intList?)).map Edges.nested

def parseCoord (j : Json) : Option (Coord Int) :=
  match int? (getD j "s") with
  | some x => some (.scalar x)
  | none => (intList? (getD j "t")).map Coord.tuple

/-- flat table `lo, hi, g, lo, hi, g, …` -/
def guess1 : List Int → Nat → Nat → Int
  | l :: h :: g :: rest, lo, hi => if l == (lo : Int) && h == (hi : Int) then g else guess1 rest lo hi
  | _, _, _ => -1

/-- flat table `axis, lo, hi, g, axis, lo, hi, g, …` -/
def guessN : List Int → Nat → Nat → Nat → Int
  | a :: l :: h :: g :: rest, k, lo, hi =>
    if a == (k : Int) && l == (lo : Int) && h == (hi : Int) then g else guessN rest k lo hi
  | _, _, _, _ => -1

def parseTab (j : Json) : Option (List Int) :=
  if j.isNull then some [] else intList? j

def exc (e : Err) : Json := Json.str e.name

def parseBins (j : Json) : Option (Option (NArr Int)) :=
  if j.isNull then some none else (parseNArr j).map some

mutual
/-- cells that differ between two arrays of the same shape: (index, new content) -/
partial def diffN (pre : List Nat) : NArr Int → NArr Int → List (List Nat × Int)
  | .leaf a, .leaf b => if a != b then [(pre.reverse, b)] else []
  | .node xs, .node ys => diffL pre 0 xs ys
  | _, _ => [(pre.reverse, -1)]
partial def diffL (pre : List Nat) (k : Nat) : List (NArr Int) → List (NArr Int) → List (List Nat × Int)
  | x :: xs, y :: ys => diffN (k :: pre) x y ++ diffL pre (k + 1) xs ys
  | [], [] => []
  | _, _ => [(pre.reverse, -1)]
end

def diffCells (a b : NArr Int) : Json :=
  ofList (fun (p : List Nat × Int) => Json.arr #[ofList ofNat p.1, ofInt p.2]) (diffN [] a b)

def idxJson : Except Err (List Int) → Json
  | .ok l => ofIntList l
  | .error e => Json.mkObj [("e", exc e)]

def parseOps : List Json → Option (List ((Nat → Nat → Nat → Int) × Coord Int × Int))
  | [] => some []
  | f :: rest => do
    let c ← parseCoord (getD f "c")
    let w ← int? (getD f "w")
    let tab ← parseTab (getD f "g")
    let r ← parseOps rest
    some ((guessN tab, c, w) :: r)

def runFills (h : Hist Int Int) : List ((Nat → Nat → Nat → Int) × Coord Int × Int) → List Json × Hist Int Int
  | [] => ([], h)
  | (g, c, w) :: rest =>
    let idx := idxJson (getBinOnValue g c h.edges)
    match fill g h c w with
    | .error e =>
      let (steps, hf) := runFills h rest
      (Json.mkObj [("idx", idx), ("e", exc e)] :: steps, hf)
    | .ok h' =>
      let (steps, hf) := runFills h' rest
      (Json.mkObj [("idx", idx), ("chg", diffCells h.bins h'.bins), ("oor", ofInt h'.nOut)] :: steps, hf)

def parseVals : List Json → Option (List ((Nat → Nat → Nat → Int) × Coord Int × Option Int))
  | [] => some []
  | f :: rest => do
    let c ← parseCoord (getD f "c")
    let ctx ← optInt (getD f "ctx")
    let tab ← parseTab (getD f "g")
    let r ← parseVals rest
    some ((guessN tab, c, ctx) :: r)

def handle (j : Json) : Json :=
  match str? (getD j "op") with
  | some "bin1d" =>
    match intList? (getD j "arr"), int? (getD j "val"), parseTab (getD j "g") with
    | some arr, some v, some tab =>
      match bin1d (guess1 tab) v arr with
      | .ok r => Json.mkObj [("r", ofInt r)]
      | .error e => Json.mkObj [("e", exc e)]
    | _, _, _ => err "bad bin1d args"
  | some "hist" =>
    match parseEdges (getD j "edges"), parseBins (getD j "bins"), int? (getD j "init"), arr? (getD j "fills") with
    | some edges, some bins, some init, some fills =>
      match mkHist edges bins init with
      | .error e => Json.mkObj [("e", exc e), ("phase", "init")]
      | .ok h =>
        match parseOps fills.toList with
        | some ops =>
          let (steps, hf) := runFills h ops
          let all := match fillAll h ops with
            | .error e => Json.mkObj [("e", exc e)]
            | .ok ha => Json.mkObj [("bins", narrJson ha.bins), ("oor", ofInt ha.nOut)]
          Json.mkObj [("steps", Json.arr steps.toArray), ("bins", narrJson hf.bins), ("oor", ofInt hf.nOut),
                      ("all", all)]
        | none => err "bad fills"
    | _, _, _, _ => err "bad hist args"
  | some "elem" =>
    match parseEdges (getD j "edges"), parseBins (getD j "bins"), int? (getD j "init"), int? (getD j "one"),
          (arr? (getD j "vals")).bind (fun a => parseVals a.toList) with
    | some edges, some bins, some init, some one, some vals =>
      match HistEl.new (none : Option Int) edges bins init with
      | .error e => Json.mkObj [("e", exc e), ("phase", "init")]
      | .ok el =>
        match HistEl.fillAll (none : Option Int) one el (vals.map (fun (g, c, ctx) => (g, c, ctx.map some))) with
        | .error e => Json.mkObj [("e", exc e), ("phase", "fill")]
        | .ok el' =>
          Json.mkObj [("bins", narrJson el'.hist.bins), ("oor", ofInt el'.hist.nOut),
                      ("ctx", ofOpt ofInt el'.curContext)]
    | _, _, _, _, _ => err "bad elem args"
  | _ => err "unknown op"

def main : IO Unit := run handle
