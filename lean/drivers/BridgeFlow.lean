import LenaModel.DriverUtil
import LenaModel.Bridge.Flow
/-! Driver of the executable cross-check of `LenaModel/Bridge/Flow.lean`: every Lean transcription of
`Sequence(*args).run(flow)` evaluated on the same case.
Values: int | "str" | [list] | {"t":[tuple]} | {"d":{dict}} | {"q":[n,d]}.  Element specs: the JSON of
`harness/props/c01.py` restricted to the common vocabulary (see `specOf`).  Request:
  {"op":"seq","args":[spec..],"flow":[v..]}
Reply:
  {"c05": out,                 `Lena.C05.driveSeq args flow`
   "c01": out,                 `Lena.Bridge.Flow.drive1 (specs1 args) flow`   (= what drivers/C01.lean computes)
   "common": bool,             `commonLB args`      \  the hypotheses of `driveSeq_agree_checked`
   "floatsafe": bool,          `floatSafeB args flow` /
   "c02": null | {"den":[v..],"machine":[v..],"ending":str,"fuelok":bool},
                               the C02 program `stages2 args` (if it exists and the flow consists of (int, {name:int})
                               pairs): list semantics `seqDen`, and the values pulled out of the generator machines
   "c17": null | out}          for a program that is a single Slice: `Lena.C17.sliceRun` on the flow
out = {"e":<exception>,"phase":"init"} | {"r":[v..],"t":null|<exception>} -/
open Lean Lena.Drv Lena.Flow Lena.Bridge.Flow

namespace BridgeFlowDrv

partial def valueOf (j : Json) : Option Value :=
  match j with
  | .num _ => (int? j).map Value.int
  | .str s => some (.str s)
  | .arr a => (a.toList.mapM valueOf).map Value.list
  | .obj _ =>
    match j.getObjVal? "t", j.getObjVal? "d", j.getObjVal? "q" with
    | .ok (.arr a), _, _ => (a.toList.mapM valueOf).map Value.tup
    | _, .ok (.obj kvs), _ =>
      (kvs.toList.mapM fun (kv : String × Json) => (valueOf kv.2).map fun w => (kv.1, w)).map Value.dict
    | _, _, .ok (.arr #[n, d]) => do some (.quot (← int? n) (← int? d))
    | _, _, _ => none
  | _ => none

partial def valueJson : Value → Json
  | .int i => ofInt i
  | .str s => Json.str s
  | .quot n d => Json.mkObj [("q", Json.arr #[ofInt n, ofInt d])]
  | .list xs => Json.arr (xs.map valueJson).toArray
  | .tup xs => Json.mkObj [("t", Json.arr (xs.map valueJson).toArray)]
  | .dict kvs => Json.mkObj [("d", Json.mkObj (kvs.map fun (k, v) => (k, valueJson v)))]

def valuesOf (j : Json) : Option (List Value) := do (← arr? j).toList.mapM valueOf

def fnOf : String → Option Fn
  | "inc" => some .inc | "neg" => some .neg | "mod3" => some .mod3
  | "ident" => some .ident | "wrap" => some .wrap | "boom" => some .boom | _ => none

def predOf : String → Option Pred
  | "even" => some .even | "pos" => some .pos | "lt5" => some .lt5
  | "all" => some .all | "none" => some .none | _ => none

def attrOf (j : Json) : Option Lena.C05.Attr :=
  match nat? j with
  | some 0 => some .absent | some 1 => some .value | some 2 => some .method | _ => none

def accOfJson (j : Json) : Option AccKind :=
  match str? (getD j "a") with
  | some "sum" => some .sum
  | some "mean" => some .mean
  | some "store" => (bool? (getD j "group")).map AccKind.store
  | some "count" => (str? (getD j "name")).map AccKind.count
  | _ => none

/-- element descriptions in the JSON format of `harness/props/c01.py` (synthetic classes: the flags
`run`/`fill`/`compute` 0|1|2, `call`, `nodata`) -/
partial def specOf (j : Json) : Option Lena.C05.Spec :=
  let specs (k : String) : Option (List Lena.C05.Spec) := do (← arr? (getD j k)).toList.mapM specOf
  match str? (getD j "k") with
  | some "call" => do some (.call (← fnOf (← str? (getD j "f"))))
  | some "var" => do some (.var (← str? (getD j "name")) (← fnOf (← str? (getD j "f"))))
  | some "filter" => do some (.filter (← predOf (← str? (getD j "p"))))
  | some "slice" => do
    let a ← (← arr? (getD j "args")).toList.mapM optInt
    match a with
    | [b] => some (.slice none b none)
    | [a, b] => some (.slice a b none)
    | [a, b, s] => some (.slice a b s)
    | _ => none
  | some "count" => do some (.count (← str? (getD j "name")))
  | some "runif" => do some (.runIf (← predOf (← str? (getD j "p"))) (← specs "inner"))
  | some "reverse" => some .reverse
  | some "end" => some .end_
  | some "acc" => (accOfJson j).map Lena.C05.Spec.acc
  | some "syn" => do
    some (.syn [("run", ← attrOf (getD j "run")), ("fill", ← attrOf (getD j "fill")),
                ("compute", ← attrOf (getD j "compute"))]
      (← bool? (getD j "call")) (← bool? (getD j "nodata")))
  | some "junk" => some .junk
  | some "setctx" => some .setContext
  | _ => none

def specsOf (j : Json) : Option (List Lena.C05.Spec) := do (← arr? j).toList.mapM specOf

def termJson : Option Exc → Json
  | none => Json.null
  | some e => Json.str e.name

def strmJson (s : Lena.C05.Strm Value) : Json :=
  Json.mkObj [("r", ofList valueJson s.vals), ("t", termJson s.term)]

def outJson : Lena.C05.Outcome → Json
  | .init e => Json.mkObj [("e", e.name), ("phase", "init")]
  | .ran s => strmJson s

/-- a flow value that C02 can represent: `(int, {name: int, …})` -/
def toV : Value → Option Lena.C02.V
  | .tup [.int d, .dict kvs] =>
    (kvs.mapM fun (kv : String × Value) => match kv.2 with
      | .int i => some (kv.1, i)
      | _ => none).map fun ctx => ⟨d, ctx⟩
  | _ => none

def endingStr : Lena.C02.Ending → String
  | .stoppedByConsumer => "stoppedByConsumer"
  | .exhausted => "exhausted"
  | .fuel => "fuel"
  | .error _ => "error"

def c02Json (args : List Lena.C05.Spec) (flow : List Value) : Json :=
  match stages2 args, flow.mapM toV with
  | some els, some xs =>
    let fu := 8 * xs.length + 64
    let k := 2 * xs.length + 8
    let r := (Lena.C02.seqRun els (Lena.C02.Pipe.ofList xs)).take fu k
    Json.mkObj [("den", ofList (fun v => valueJson (vToValue v)) (Lena.C02.seqDen els xs)),
      ("machine", ofList (fun (p : Lena.C02.V × Nat) => valueJson (vToValue p.1)) r.1),
      ("ending", endingStr r.2.1)]
  | _, _ => Json.null

def c17Json (args : List Lena.C05.Spec) (flow : List Value) : Json :=
  match args with
  | [.slice a b s] =>
    match Lena.C17.sliceRun (Lena.C17.mkSlice a b s) flow with
    | none => Json.mkObj [("e", Exc.lenaValueError.name), ("phase", "init")]
    | some (.ok ys) => Json.mkObj [("r", ofList valueJson ys), ("t", Json.null)]
    | some .indexError => Json.mkObj [("r", Json.arr #[]), ("t", Exc.indexError.name)]
  | _ => Json.null

def handle (j : Json) : Json :=
  match str? (getD j "op") with
  | some "seq" =>
    match specsOf (getD j "args"), valuesOf (getD j "flow") with
    | some args, some flow =>
      Json.mkObj [("c05", outJson (Lena.C05.driveSeq args flow)),
        ("c01", outJson (drive1 (specs1 args) flow)),
        ("common", Json.bool (commonLB args)),
        ("floatsafe", Json.bool (floatSafeB args flow)),
        ("c02", c02Json args flow),
        ("c17", c17Json args flow)]
    | _, _ => err "bad seq args"
  | _ => err "unknown op"

end BridgeFlowDrv

def main : IO Unit := run BridgeFlowDrv.handle
