import LenaModel.DriverUtil
import LenaModel.Model.C20
import LenaModel.Gen.C20Facts
/-! Model driver for C20: runs the resolver of `Model/C20.lean` on the generated facts
(`LenaModel/Gen/C20Facts.lean`, the same `Gen.current` the instance theorem is about).  Requests:

  every request but "meta" carries "env": the environment (bit set of absent third-party modules, see `Gen.ext`)
  {"op":"meta"}                      -> {"hash":..,"modules":[..],"entries":[..],"ext":[..],"envs":[..],"layout":bool,"resolvesAllEnvs":bool}
  {"op":"entry","e":"__main__[lena.flow]"}
        -> {"ok":true,"loaded":{module:"done"|"running"},"ns":{module:{name:"opaque"|"mod:<module>"}},
            "exported":bool,"states":n,"closure":[modules]}  |  {"ok":false,"err":{..}}
  {"op":"call","e":entry,"m":module,"f":qualname,"line":n}
        -> {"r":[per reachable state of the entry: "ok" | {"kind":..,"name":..,..} | "not-callable"],
            "caught":[the failures the function's own handlers catch in the state after the import]}
  any request may carry "tree": {"facts":{..},"names":[..],"ext":[..]} -- the facts of another tree (the harness's
  self-test package, translated by the same translator), decoded here and run through the same definitions
  {"op":"findings"}                  -> {"findings":[{"entry":..,"module":..,"func":..,"line":..,"err":{..}}]}
-/
open Lean Lena.Drv Lena.C20

/-- a tree: its facts and the display strings -/
structure Tree where
  F : Facts
  names : Array String
  ext : Array String
  /-- the certainly-unbound reads of locals of the tree -/
  dead : List DeadLoad := []

/-- the outcome of an entry's import: the state, or the lena error, or the absent third-party
module whose `ImportError` escaped -/
inductive Imported where
  | ok (σ : State)
  | err (e : Err)
  | ext (x : Nat)

/-- the states the per-function verdicts are given for: the closed set `explore` found (the one
`resolver_sound` is about), or, when a call fails, everything reachable by the calls that return -/
def statesOf (G : Facts) (σ : State) : List State :=
  match explore G exploreBound [σ] [σ] with
  | .closed seen => seen
  | _ => reachStates G exploreBound [σ] [σ]

def importedOf (G : Facts) (e : Nat) : Imported × List State :=
  match importEntry G e with
  | .ok (σ, none) => (.ok σ, statesOf G σ)
  | .ok (_, some x) => (.ext x, [])
  | .error err => (.err err, [])

def repo : Tree := ⟨Gen.current, Gen.names, Gen.ext, Gen.currentDeadLoads⟩

/-- per environment and entry of the repository tree: the outcome of the import and the states
reachable by calls (computed once) -/
def entryTable : List (Nat × Nat × Imported × List State) :=
  repo.F.envs.flatMap (fun env =>
    repo.F.entries.map (fun e => let r := importedOf (repo.F.withEnv env) e; (env, e, r.1, r.2)))

/-! ### decoding the facts of another tree -/

def natList? (j : Json) : Option (List Nat) := do (← arr? j).toList.mapM nat?

def ev? (j : Json) : Option Ev := do
  let a ← arr? j
  let k ← str? (a.getD 0 Json.null)
  let n (i : Nat) : Option Nat := nat? (a.getD i Json.null)
  match k with
  | "bind" => return .bind (← n 1)
  | "bindMod" => return .bindMod (← n 1) (← n 2)
  | "unbind" => return .unbind (← n 1)
  | "load" => return .load (← n 1)
  | "attr" => return .attr (← n 1) (← natList? (a.getD 2 Json.null))
  | "ensure" => return .ensure (← n 1)
  | "from" => return .fromName (← n 1) (← n 2) (← n 3)
  | "star" => return .star (← n 1)
  | "nomodule" => return .noModule (← n 1)
  | "enter" => return .enter
  | "leave" => return .leave
  | "ext" => return .ext (← n 1)
  | "tryBegin" => return .tryBegin
  | "tryExcept" => return .tryExcept (← n 1)
  | "alias" => return .alias (← n 1) (← n 2) (← natList? (a.getD 3 Json.null))
  | "tryEnd" => return .tryEnd
  | "tryElse" => return .tryElse
  | "gbind" => return .gbind (← n 1)
  | "gunbind" => return .gunbind (← n 1)
  | _ => none

def evs? (j : Json) : Option (List Ev) := do (← arr? j).toList.mapM ev?

def func? (j : Json) : Option Func := do
  return ⟨← nat? (getD j "name_id"), ← nat? (getD j "line"), ← evs? (getD j "evs")⟩

def module? (j : Json) : Option Lena.C20.Module := do
  let parent := nat? (getD j "parent")
  let all := natList? (getD j "all_ids")
  let funcs ← (← arr? (getD j "funcs")).toList.mapM func?
  return ⟨← nat? (getD j "name_id"), parent, ← nat? (getD j "short_id"), all,
    (bool? (getD j "all_dynamic")).getD false, ← evs? (getD j "evs"),
    funcs.filter (fun f => !f.evs.isEmpty)⟩

def ref? (j : Json) : Option ClassRef := do
  let a ← arr? j
  match ← str? (a.getD 0 Json.null) with
  | "cls" => return .cls (← nat? (a.getD 1 Json.null))
  | "builtin" => return .builtin (← nat? (a.getD 1 Json.null))
  | _ => return .unknown

def class? (j : Json) : Option ClassFact := do
  return ⟨← nat? (getD j "mod_id"), ← nat? (getD j "name_id"), ← nat? (getD j "line"),
    ← (← arr? (getD j "base_ids")).toList.mapM ref?, (bool? (getD j "is_lena_exc")).getD false⟩

def raise? (j : Json) : Option RaiseFact := do
  return ⟨← nat? (getD j "mod_id"), ← nat? (getD j "fn_id"), ← nat? (getD j "line"), ← ref? (getD j "what_ids"),
    (bool? (getD j "protocol")).getD false⟩

def unbound? (j : Json) : Option UnboundFact := do
  return ⟨← nat? (getD j "mod_id"), ← nat? (getD j "fn_id"), ← nat? (getD j "var_id"),
    (bool? (getD j "audited")).getD false⟩

def dead? (j : Json) : Option DeadLoad := do
  return ⟨← nat? (getD j "mod_id"), ← nat? (getD j "fn_id"), ← nat? (getD j "var_id"), ← nat? (getD j "line"),
    ← nat? (getD j "cause")⟩

def tree? (j : Json) : Option Tree := do
  let fj := getD j "facts"
  let mods ← (← arr? (getD fj "modules")).toList.mapM module?
  let F : Facts := ⟨mods, ← natList? (getD fj "entries"), ← nat? (getD fj "n_builtins"),
    ← natList? (getD fj "private"), ← nat? (getD fj "n_bindable"), ← nat? (getD fj "slot_bits"),
    ← nat? (getD fj "venv_env"), ← natList? (getD fj "envs"),
    ← (← arr? (getD fj "classes")).toList.mapM class?, nat? (getD fj "exc_root"),
    ← (← arr? (getD fj "raises")).toList.mapM raise?, ← (← arr? (getD fj "maybe_unbound")).toList.mapM unbound?⟩
  let names ← (← arr? (getD fj "names")).toList.mapM str?
  let ext ← (← arr? (getD fj "ext")).toList.mapM str?
  let dead := ((arr? (getD fj "dead_loads")).bind (fun a => a.toList.mapM dead?)).getD []
  return ⟨F, names.toArray, ext.toArray, dead⟩

/-! ### answers -/

def nameStr (T : Tree) (n : Nat) : String := T.names.getD n s!"?{n}"
def modStr (T : Tree) (m : Nat) : String :=
  match T.F.modOf m with | some M => nameStr T M.name | none => s!"?mod{m}"

def modIdOf (T : Tree) (s : String) : Option Nat :=
  (zipIdx T.F.mods 0).findSome? (fun (i, M) => if nameStr T M.name == s then some i else none)

def fnStr (T : Tree) : Option Nat → Json
  | none => Json.null
  | some q => Json.str (nameStr T q)

def errJson (T : Tree) : Err → Json
  | .nameError m fn n => Json.mkObj [("kind", "NameError"), ("module", modStr T m), ("func", fnStr T fn), ("name", nameStr T n)]
  | .attrError m fn root on a => Json.mkObj [("kind", "AttributeError"), ("module", modStr T m), ("func", fnStr T fn),
      ("root", nameStr T root), ("on", modStr T on), ("name", nameStr T a)]
  | .importError m fn src n => Json.mkObj [("kind", "ImportError"), ("module", modStr T m), ("func", fnStr T fn),
      ("on", modStr T src), ("name", nameStr T n)]
  | .noModule m fn n => Json.mkObj [("kind", "ModuleNotFoundError"), ("module", modStr T m), ("func", fnStr T fn),
      ("name", nameStr T n)]
  | .outOfFuel => Json.mkObj [("kind", "outOfFuel")]
  | .malformed => Json.mkObj [("kind", "malformed")]

def extJson (T : Tree) (x : Nat) : Json :=
  Json.mkObj [("kind", "ThirdPartyImportError"), ("name", T.ext.getD x s!"?ext{x}")]

def valStr (T : Tree) : Val → String
  | .obj => "opaque"
  | .mod m => "mod:" ++ modStr T m

/-- the tree a request is about, whether it is the repository's, and (environment, entry, outcome) -/
def entryOf (j : Json) : Option (Tree × Nat × Imported × List State) := do
  let other := tree? (getD j "tree")
  let T := other.getD repo
  let s ← str? (getD j "e")
  let env ← nat? (getD j "env")
  let e ← modIdOf T s
  let TE : Tree := { T with F := T.F.withEnv env }
  match other with
  | some _ => let r := importedOf TE.F e; pure (TE, e, r.1, r.2)
  | none =>
    let t ← entryTable.find? (fun t => t.1 == env && t.2.1 == e)
    pure (TE, t.2.1, t.2.2.1, t.2.2.2)

def handle (j : Json) : Json :=
  match str? (getD j "op") with
  | some "meta" =>
    let T := (tree? (getD j "tree")).getD repo
    let F := T.F
    Json.mkObj [("hash", Gen.sourceHash), ("modules", ofList (fun M => Json.str (nameStr T M.name)) F.mods),
      ("entries", ofList (fun e => Json.str (modStr T e)) F.entries), ("layout", F.layoutOk),
      ("ext", ofList Json.str T.ext.toList), ("envs", ofList ofNat F.envs),
      ("resolvesAllEnvs", resolvesAllEnvs F), ("closuresOk", closuresOk F),
      ("exceptionsOk", exceptionsOk F), ("localsOk", localsOk F), ("deadLoadsOk", deadLoadsOk T.dead),
      ("orderIndependent", ofList (fun env => Json.bool (orderIndependent (F.withEnv env))) F.envs),
      ("handlers", ofNat ((F.mods.flatMap (·.funcs)).filter hasHandler).length),
      ("lenaExceptions", Json.mkObj ((zipIdx F.classes 0).filterMap (fun (i, C) =>
        if C.isLenaExc then some (nameStr T C.name, Json.bool (match F.excRoot with
          | some r => derivesB F F.classes.length i r | none => false)) else none))),
      ("allDynamic", ofList (fun M => Json.str (nameStr T M.name)) (F.mods.filter (·.allDynamic)))]
  | some "entry" =>
    match entryOf j with
    | none => err "unknown entry"
    | some (T, _, .err e, _) => Json.mkObj [("ok", false), ("err", errJson T e)]
    | some (T, _, .ext x, _) => Json.mkObj [("ok", false), ("err", extJson T x)]
    | some (T, e, .ok σ, states) =>
      let F := T.F
      let loaded := loadedMods F σ
      Json.mkObj [("ok", true),
        ("loaded", Json.mkObj (loaded.map (fun m => (modStr T m, Json.str (match σ.statusOf m with | .done => "done" | .running => "running" | .absent => "absent" | .failed => "failed"))))),
        ("ns", Json.mkObj (loaded.map (fun m => (modStr T m, Json.mkObj ((boundIn F σ m).map (fun (n, v) => (nameStr T n, Json.str (valStr T v)))))))),
        ("exported", exportedB F e σ),
        ("starNames", ofList (fun n => Json.str (nameStr T n)) (match F.modOf e with
          | some M => M.evs.flatMap (fun ev => match ev with | .star p => starNames F σ p | _ => [])
          | none => [])),
        ("states", ofNat states.length),
        ("explore", Json.str (match explore F exploreBound [σ] [σ] with
          | .closed seen => s!"closed:{seen.length}"
          | .failed w => s!"failed:{modStr T w.mod}:{nameStr T w.func.name}"
          | .bound => "bound")),
        ("callables", ofNat (callables F σ).length),
        ("attrInv", (loaded.all fun p => (boundIn F σ p).all fun (_, v) =>
          match v with
          | .mod c => σ.statusOf c != .absent
          | .obj => true)),
        ("resolves", resolvesEntry F e),
        ("closure", ofList (fun m => Json.str (modStr T m)) (setToList F (importClosure F e))),
        ("closureClosed", closedSetB F (importClosure F e))]
  | some "call" =>
    match entryOf j with
    | none => err "bad call args"
    | some (T, _, .err e, _) => Json.mkObj [("r", Json.arr #[]), ("import", errJson T e)]
    | some (T, _, .ext x, _) => Json.mkObj [("r", Json.arr #[]), ("import", extJson T x)]
    | some (T, _, .ok _, states) =>
      let F := T.F
      match (str? (getD j "m")).bind (modIdOf T), str? (getD j "f"), nat? (getD j "line") with
      | some m, some q, some line =>
        match (F.modOf m).bind (fun M => M.funcs.find? (fun f => nameStr T f.name == q && f.line == line)) with
        | none => Json.mkObj [("r", Json.arr #[]), ("missing", true),
            ("badRaises", ofList (fun (r : RaiseFact) => ofNat r.line)
              (F.raises.filter (fun r => r.mod == m && nameStr T r.fn == q && !raiseOkB F r))),
            ("unaudited", ofList (fun (u : UnboundFact) => Json.str (nameStr T u.var))
              (F.maybeUnbound.filter (fun u => u.mod == m && nameStr T u.fn == q && !u.audited))),
            -- reads of locals that are certainly unbound (`deadLoadsOf`, by the function's display name)
            ("dead", ofList (fun (d : DeadLoad) => Json.arr #[Json.str (nameStr T d.var), ofNat d.line])
              (T.dead.filter (fun d => d.mod == m && nameStr T d.fn == q)))]
        | some f =>
          Json.mkObj [("r", ofList (fun s =>
            match s.statusOf m with
            | .done => match callFn F m f s with
              | .ok _ => Json.str "ok"
              | .error e => errJson T e
            | _ => Json.str "not-callable") states),
            -- the failures that handlers of the function catch when it is called right after the import
            ("caught", match states.head? with
              | some s => (match s.statusOf m, hasHandler f with
                | .done, true => ofList (errJson T) (callCaught F m f s)
                | _, _ => Json.arr #[])
              | none => Json.arr #[]),
            -- the traced interpreter returns what `callFn` returns (theorem `callFn_eq_traced`, executed)
            ("tracedAgrees", match (if hasHandler f then states.head? else none) with
              | some s => Json.bool (match callFn F m f s,
                    (execEvsT F (importMod F F.depth) ⟨m, some f.name⟩ f.evs .run [] [] s []).1 with
                  | .ok a, .ok out => decide (a = out.σ)
                  | .error a, .error b => decide (a = b)
                  | _, _ => false)
              | none => Json.bool true),
            ("badRaises", ofList (fun (r : RaiseFact) => ofNat r.line)
              (F.raises.filter (fun r => r.mod == m && nameStr T r.fn == q && !raiseOkB F r))),
            ("unaudited", ofList (fun (u : UnboundFact) => Json.str (nameStr T u.var))
              (F.maybeUnbound.filter (fun u => u.mod == m && nameStr T u.fn == q && !u.audited))),
            -- reads of locals that are certainly unbound (`deadLoadsOf`, by the function's display name)
            ("dead", ofList (fun (d : DeadLoad) => Json.arr #[Json.str (nameStr T d.var), ofNat d.line])
              (T.dead.filter (fun d => d.mod == m && nameStr T d.fn == q)))]
      | _, _, _ => err "bad call args"
  | some "findings" =>
    let T := (tree? (getD j "tree")).getD repo
    Json.mkObj [("findings", ofList (fun (ef : Nat × Finding) =>
      let fd := ef.2
      Json.mkObj [("env", ofNat ef.1), ("entry", modStr T fd.entry),
        ("module", match fd.func with | some (m, _, _) => Json.str (modStr T m) | none => Json.null),
        ("func", match fd.func with | some (_, q, _) => Json.str (nameStr T q) | none => Json.null),
        ("line", match fd.func with | some (_, _, l) => ofNat l | none => Json.null),
        ("err", match fd.err, fd.ext with
          | some e, _ => errJson T e
          | none, some x => extJson T x
          | none, none => Json.null)])
      (T.F.envs.flatMap (fun env => (diagnose (T.F.withEnv env)).map (fun fd => (env, fd)))))]
  | _ => err "unknown op"

def main : IO Unit := run handle
