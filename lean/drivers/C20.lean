import LenaModel.DriverUtil
import LenaModel.Model.C20
import LenaModel.Gen.C20Facts
/-! Model driver for C20: runs the resolver of `Model/C20.lean` on the generated facts
(`LenaModel/Gen/C20Facts.lean`, the same `Gen.current` the instance theorem is about).  Requests:

  every request but "meta" carries "env": the environment (bit set of absent third-party modules, see `Gen.ext`)
  {"op":"meta"}                      -> {"hash":..,"modules":[..],"entries":[..],"ext":[..],"envs":[..],"layout":bool,"resolvesAllEnvs":bool}
  {"op":"entry","e":"__main__[lena.flow]"}
        -> {"ok":true,"loaded":{module:"done"|"running"},"ns":{module:{name:"opaque"|"mod:<module>"}},
            "exported":bool,"states":n,"closure":[modules]}  |  {"ok":false,"err":{..}}
  {"op":"call","e":entry,"m":module,"f":qualname,"line":n}
        -> {"r":[per reachable state of the entry: "ok" | {"kind":..,"name":..,..} | "not-callable"]}
  {"op":"findings"}                  -> {"findings":[{"entry":..,"module":..,"func":..,"line":..,"err":{..}}]}
-/
open Lean Lena.Drv Lena.C20

def F : Facts := Gen.current

def nameStr (n : Nat) : String := Gen.names.getD n s!"?{n}"
def modStr (m : Nat) : String := match F.modOf m with | some M => nameStr M.name | none => s!"?mod{m}"

def modIdOf (s : String) : Option Nat :=
  (zipIdx F.mods 0).findSome? (fun (i, M) => if nameStr M.name == s then some i else none)

def fnStr : Option Nat → Json
  | none => Json.null
  | some q => Json.str (nameStr q)

def errJson : Err → Json
  | .nameError m fn n => Json.mkObj [("kind", "NameError"), ("module", modStr m), ("func", fnStr fn), ("name", nameStr n)]
  | .attrError m fn root on a => Json.mkObj [("kind", "AttributeError"), ("module", modStr m), ("func", fnStr fn),
      ("root", nameStr root), ("on", modStr on), ("name", nameStr a)]
  | .importError m fn src n => Json.mkObj [("kind", "ImportError"), ("module", modStr m), ("func", fnStr fn),
      ("on", modStr src), ("name", nameStr n)]
  | .noModule m fn n => Json.mkObj [("kind", "ModuleNotFoundError"), ("module", modStr m), ("func", fnStr fn),
      ("name", nameStr n)]
  | .outOfFuel => Json.mkObj [("kind", "outOfFuel")]
  | .malformed => Json.mkObj [("kind", "malformed")]

/-- the outcome of an entry's import: the state, or the lena error, or the absent third-party
module whose `ImportError` escaped -/
inductive Imported where
  | ok (σ : State)
  | err (e : Err)
  | ext (x : Nat)

/-- per environment and entry: the outcome of the import and the states reachable by calls -/
def entryTable : List (Nat × Nat × Imported × List State) :=
  F.envs.flatMap (fun env =>
    let G := F.withEnv env
    F.entries.map (fun e =>
      match importEntry G e with
      | .ok (σ, none) => (env, e, .ok σ, reachStates G exploreBound [σ] [σ])
      | .ok (_, some x) => (env, e, .ext x, [])
      | .error err => (env, e, .err err, [])))

def entryOf (j : Json) : Option (Facts × Nat × Imported × List State) := do
  let s ← str? (getD j "e")
  let env ← nat? (getD j "env")
  let e ← modIdOf s
  let t ← entryTable.find? (fun t => t.1 == env && t.2.1 == e)
  pure (F.withEnv env, t.2.1, t.2.2.1, t.2.2.2)

def extJson (x : Nat) : Json :=
  Json.mkObj [("kind", "ThirdPartyImportError"), ("name", Gen.ext.getD x s!"?ext{x}")]

def valStr : Val → String
  | .obj => "opaque"
  | .mod m => "mod:" ++ modStr m

def handle (j : Json) : Json :=
  match str? (getD j "op") with
  | some "meta" =>
    Json.mkObj [("hash", Gen.sourceHash), ("modules", ofList (fun M => Json.str (nameStr M.name)) F.mods),
      ("entries", ofList (fun e => Json.str (modStr e)) F.entries), ("layout", F.layoutOk),
      ("ext", ofList Json.str Gen.ext.toList), ("envs", ofList ofNat F.envs),
      ("resolvesAllEnvs", resolvesAllEnvs F)]
  | some "entry" =>
    match entryOf j with
    | none => err "unknown entry"
    | some (_, _, .err e, _) => Json.mkObj [("ok", false), ("err", errJson e)]
    | some (_, _, .ext x, _) => Json.mkObj [("ok", false), ("err", extJson x)]
    | some (F, e, .ok σ, states) =>
      let loaded := loadedMods F σ
      Json.mkObj [("ok", true),
        ("loaded", Json.mkObj (loaded.map (fun m => (modStr m, Json.str (match σ.statusOf m with | .done => "done" | .running => "running" | .absent => "absent" | .failed => "failed"))))),
        ("ns", Json.mkObj (loaded.map (fun m => (modStr m, Json.mkObj ((boundIn F σ m).map (fun (n, v) => (nameStr n, Json.str (valStr v)))))))),
        ("exported", exportedB F e σ),
        ("states", ofNat states.length),
        ("resolves", resolvesEntry F e),
        ("closure", ofList (fun m => Json.str (modStr m)) (setToList F (importClosure F e))),
        ("closureClosed", closedSetB F (importClosure F e))]
  | some "call" =>
    match entryOf j, (str? (getD j "m")).bind modIdOf, str? (getD j "f"), nat? (getD j "line") with
    | some (F, _, .ok _, states), some m, some q, some line =>
      match (F.modOf m).bind (fun M => M.funcs.find? (fun f => nameStr f.name == q && f.line == line)) with
      | none => Json.mkObj [("r", Json.arr #[]), ("missing", true)]
      | some f =>
        Json.mkObj [("r", ofList (fun s =>
          match s.statusOf m with
          | .done => match callFn F m f s with
            | .ok _ => Json.str "ok"
            | .error e => errJson e
          | _ => Json.str "not-callable") states)]
    | some (_, _, .err e, _), _, _, _ => Json.mkObj [("r", Json.arr #[]), ("import", errJson e)]
    | some (_, _, .ext x, _), _, _, _ => Json.mkObj [("r", Json.arr #[]), ("import", extJson x)]
    | _, _, _, _ => err "bad call args"
  | some "findings" =>
    Json.mkObj [("findings", ofList (fun (ef : Nat × Finding) =>
      let fd := ef.2
      Json.mkObj [("env", ofNat ef.1), ("entry", modStr fd.entry),
        ("module", match fd.func with | some (m, _, _) => Json.str (modStr m) | none => Json.null),
        ("func", match fd.func with | some (_, q, _) => Json.str (nameStr q) | none => Json.null),
        ("line", match fd.func with | some (_, _, l) => ofNat l | none => Json.null),
        ("err", match fd.err, fd.ext with
          | some e, _ => errJson e
          | none, some x => extJson x
          | none, none => Json.null)])
      (F.envs.flatMap (fun env => (diagnose (F.withEnv env)).map (fun fd => (env, fd)))))]
  | _ => err "unknown op"

def main : IO Unit := run handle
