import LenaModel.DriverUtil
import LenaModel.Model.C20
import LenaModel.Gen.C20Facts
/-! Model driver for C20: runs the resolver of `Model/C20.lean` on the generated facts
(`LenaModel/Gen/C20Facts.lean`, the same `Gen.current` the instance theorem is about).  Requests:

  {"op":"meta"}                      -> {"hash":..,"modules":[..],"entries":[..],"layout":bool,"resolvesAll":bool}
  {"op":"entry","e":"__main__[lena.flow]"}
        -> {"ok":true,"loaded":{module:"done"|"running"},"ns":{module:{name:"opaque"|"mod:<module>"}},
            "exported":bool,"states":n,"closure":[modules]}  |  {"ok":false,"err":{..}}
  {"op":"call","e":entry,"m":module,"f":qualname,"line":n}
        -> {"r":[per reachable state of the entry: "ok" | {"kind":..,"name":..,..} | "not-callable"]}
  {"op":"findings"}                  -> {"findings":[{"entry":..,"module":..,"func":..,"line":..,"err":{..}}]}
-/
open Lean Lena.Drv Lena.C20

def F : Facts := Gen.current

def nameStr (n : Nat) : String := Gen.names.getD n s!"?{n}"
def modStr (m : Nat) : String := match F.modOf m with | some M => nameStr M.name | none => s!"?mod{m}"

def modIdOf (s : String) : Option Nat :=
  (zipIdx F.mods 0).findSome? (fun (i, M) => if nameStr M.name == s then some i else none)

def fnStr : Option Nat → Json
  | none => Json.null
  | some q => Json.str (nameStr q)

def errJson : Err → Json
  | .nameError m fn n => Json.mkObj [("kind", "NameError"), ("module", modStr m), ("func", fnStr fn), ("name", nameStr n)]
  | .attrError m fn root on a => Json.mkObj [("kind", "AttributeError"), ("module", modStr m), ("func", fnStr fn),
      ("root", nameStr root), ("on", modStr on), ("name", nameStr a)]
  | .importError m fn src n => Json.mkObj [("kind", "ImportError"), ("module", modStr m), ("func", fnStr fn),
      ("on", modStr src), ("name", nameStr n)]
  | .noModule m fn n => Json.mkObj [("kind", "ModuleNotFoundError"), ("module", modStr m), ("func", fnStr fn),
      ("name", nameStr n)]
  | .outOfFuel => Json.mkObj [("kind", "outOfFuel")]
  | .malformed => Json.mkObj [("kind", "malformed")]

/-- per entry: the state after the import (or the error) and the states reachable by calls -/
def entryTable : List (Nat × Except Err State × List State) :=
  F.entries.map (fun e =>
    match importEntry F e with
    | .ok σ => (e, .ok σ, reachStates F exploreBound [σ] [σ])
    | .error err => (e, .error err, []))

def entryOf (j : Json) : Option (Nat × Except Err State × List State) := do
  let s ← str? (getD j "e")
  let e ← modIdOf s
  entryTable.find? (fun t => t.1 == e)

def valStr : Val → String
  | .obj => "opaque"
  | .mod m => "mod:" ++ modStr m

def handle (j : Json) : Json :=
  match str? (getD j "op") with
  | some "meta" =>
    Json.mkObj [("hash", Gen.sourceHash), ("modules", ofList (fun M => Json.str (nameStr M.name)) F.mods),
      ("entries", ofList (fun e => Json.str (modStr e)) F.entries), ("layout", F.layoutOk),
      ("resolvesAll", resolvesAll F)]
  | some "entry" =>
    match entryOf j with
    | none => err "unknown entry"
    | some (_, .error e, _) => Json.mkObj [("ok", false), ("err", errJson e)]
    | some (e, .ok σ, states) =>
      let loaded := loadedMods F σ
      Json.mkObj [("ok", true),
        ("loaded", Json.mkObj (loaded.map (fun m => (modStr m, Json.str (match σ.statusOf m with | .done => "done" | .running => "running" | .absent => "absent"))))),
        ("ns", Json.mkObj (loaded.map (fun m => (modStr m, Json.mkObj ((boundIn F σ m).map (fun (n, v) => (nameStr n, Json.str (valStr v)))))))),
        ("exported", exportedB F e σ),
        ("states", ofNat states.length),
        ("resolves", resolvesEntry F e),
        ("closure", ofList (fun m => Json.str (modStr m)) (setToList F (importClosure F e))),
        ("closureClosed", closedSetB F (importClosure F e))]
  | some "call" =>
    match entryOf j, (str? (getD j "m")).bind modIdOf, str? (getD j "f"), nat? (getD j "line") with
    | some (_, .ok _, states), some m, some q, some line =>
      match (F.modOf m).bind (fun M => M.funcs.find? (fun f => nameStr f.name == q && f.line == line)) with
      | none => Json.mkObj [("r", Json.arr #[]), ("missing", true)]
      | some f =>
        Json.mkObj [("r", ofList (fun s =>
          match s.statusOf m with
          | .done => match callFn F m f s with
            | .ok _ => Json.str "ok"
            | .error e => errJson e
          | _ => Json.str "not-callable") states)]
    | some (_, .error e, _), _, _, _ => Json.mkObj [("r", Json.arr #[]), ("import", errJson e)]
    | _, _, _, _ => err "bad call args"
  | some "findings" =>
    Json.mkObj [("findings", ofList (fun (fd : Finding) =>
      Json.mkObj [("entry", modStr fd.entry),
        ("module", match fd.func with | some (m, _, _) => Json.str (modStr m) | none => Json.null),
        ("func", match fd.func with | some (_, q, _) => Json.str (nameStr q) | none => Json.null),
        ("line", match fd.func with | some (_, _, l) => ofNat l | none => Json.null),
        ("err", errJson fd.err)]) (diagnose F))]
  | _ => err "unknown op"

def main : IO Unit := run handle
