import LenaModel.DriverUtil
import LenaModel.Model.C08
import LenaModel.Model.C08Spec
import LenaModel.Model.C08Heap
/-! Model driver for C08.  Values: a scalar is the JSON scalar (`null`, booleans, integers, strings), a
dictionary is `{"d":[[key,value],…]}` in insertion order, a list `{"L":[…]}`, a float `{"f":repr}`, an object
of another class `{"o":str|null}` (its `str()`, `null` when that raises).  Exceptions: `{"e":"LenaKeyError"}` etc.,
`{"e":"unmodelled"}` when the model declines.  Requests:
  {"op":"get","d":V,"keys":[K,…],"default":V?}   K = {"s":str} | {"l":[V,…]} | {"k":V} | {"o":0}
        -> {"r":[{"r":V}|{"e":..},…]}
  {"op":"addr","d":V,"alpha":[str,…],"maxlen":n,"alpha4":[str,…]?,"default":V}
        -> {"r":[str,…]}   one string per key path (all paths over alpha of length 0..maxlen in the order of
           itertools.product, then the paths of length 4 over alpha4): for each notation of the path (dotted string,
           list, dictionary ending in {}, and for >= 2 keys dictionary ending in the last key) the outcome without
           and with default, then contains(dotted), then the reference getPath; fields separated by "|":
           "=" the value getPath names, "D" the default, an exception name, "T"/"F", "-" absent, else the JSON
  {"op":"path","d":V,"paths":[[str,…],…]}          -> {"r":[V|{"absent":true},…]}       (reference `getPath`)
  {"op":"str_to_dict","s":str,"value":V?}          -> {"r":V}|{"e":..}
  {"op":"str_to_list","s":str}                     -> {"r":[str,…]}
  {"op":"contains","d":V,"ss":[str,…]}             -> {"r":[bool,…]}
  {"op":"format","t":str|null,"ctxs":[V,…]}        -> {"init":"ok"|exc,"fstr":str,"args":[..],"calls":[{"r":str}|{"e":..},…]}
  {"op":"to_string","vs":[V,…]}                    -> {"r":[str,…]}
  {"op":"update_recursively","d":V,"other":{"s":str}|{"v":V},"value":V?} -> {"r":V}|{"e":..}
  {"op":"fuw","key":str,"value":V,"d":V}           -> {"r":V}|{"e":..}
  {"op":"uc","args":{"subcontext":str|null,"update":{"v":V}|{"s":str},"value":b,"default":V?,"skip":b,"raise":b,
        "recursively":b},"items":[V|null,…]}       -> {"init":"ok"|exc,"calls":[{"r":V|null}|{"e":..},…]}
  {"op":"dc","key":{"s":str}|{"l":[str,…]},"items":[V|null,…]} -> {"calls":[{"r":V|null},…]}
  {"op":"setctx","key":str,"value":V,"ctxs":[V,…]} -> {"init":"ok"|exc,"get0":…,"steps":[{"set":"ok"|exc,"get":{"r":V}|{"e":..}},…]}
  {"op":"pyeq","vs":[V,…]}                         -> {"r":[[bool,…],…]}   (pyEq of every pair)
  {"op":"to_string_j","vs":[J,…]}                  -> {"r":[{"r":str}|{"e":..},…]}   J: as V, and {"D":[[scalar,J],…]} a dictionary with any scalar keys
  {"op":"jinja","t":str}                           -> {"r":[["lit",s]|["field",[..]],…]}|{"e":"syntax"|"foreign"}
Heap model (Model/C08Heap.lean); H: as V, and {"T":[H,…]} a tuple, {"S":[H,…]} a set, {"FS":[H,…]} a frozenset, {"BA":[int,…]} a
bytearray, {"box":H} an object of a user class with state.  Addresses are given in reading order.
  {"op":"to_string_h","vs":[H,…]}                  -> {"r":[{"r":str}|{"e":..},…],"eq":[[bool,…],…],"jeq":[[bool,…],…]}
        (toStringH; pyEqH of every pair; pyEq of the values with tuples read as lists)
  {"op":"alias","sub":[str,…],"rec":b,"src":{"simple":H}|{"key":[str,…],"default":H?},"srcpath":[str,…]|null,"items":[H|null,…]}
        -> {"calls":[{"skip":true}|{"ctx":H,"leaks":[str,…]},…]}   UpdateContext.__call__ with identities (ucCallH), then every
           object reachable from the addressed item is changed in place (pokeH) and the update argument, the default and the item at
           srcpath are read again: "update-argument" / "default" / "source-item" is listed when it changed -/
open Lean Lena.Drv Lena.C08

partial def toVal (j : Json) : Option Val :=
  match j with
  | .null => some (.leaf .none)
  | .bool b => some (.leaf (.bool b))
  | .str s => some (.leaf (.str s))
  | .num _ => (int? j).map (fun i => .leaf (.int i))
  | .obj _ =>
    match arr? (getD j "d"), arr? (getD j "L"), str? (getD j "f"), j.getObjVal? "o" with
    | some a, _, _, _ => (a.toList.mapM toEntry).map Val.dict
    | _, some a, _, _ => (a.toList.mapM toVal).map Val.list
    | _, _, some r, _ => some (.leaf (.float r))
    | _, _, _, .ok o => some (.leaf (.obj (str? o)))
    | _, _, _, _ => none
  | _ => none
where toEntry (j : Json) : Option (String × Val) :=
  match arr? j with
  | some #[k, v] =>
    match str? k, toVal v with
    | some k, some v => some (k, v)
    | _, _ => none
  | _ => none

partial def ofVal : Val → Json
  | .leaf .none => Json.null
  | .leaf (.bool b) => Json.bool b
  | .leaf (.int i) => ofInt i
  | .leaf (.str s) => Json.str s
  | .leaf (.float r) => Json.mkObj [("f", Json.str r)]
  | .leaf (.obj o) => Json.mkObj [("o", match o with | some s => Json.str s | none => Json.null)]
  | .list xs => Json.mkObj [("L", Json.arr (xs.map ofVal).toArray)]
  | .dict es => Json.mkObj [("d", Json.arr (es.map (fun (k, v) => Json.arr #[Json.str k, ofVal v])).toArray)]

partial def toJVal (j : Json) : Option JVal :=
  match j with
  | .obj _ =>
    match arr? (getD j "D"), arr? (getD j "d"), arr? (getD j "L") with
    | some a, _, _ => (a.toList.mapM (fun e => match arr? e with
        | some #[k, v] =>
          match toVal k, toJVal v with
          | some (.leaf kl), some jv => some (kl, jv)
          | _, _ => none
        | _ => none)).map JVal.dict
    | _, some a, _ => (a.toList.mapM (fun e => match arr? e with
        | some #[k, v] =>
          match str? k, toJVal v with
          | some ks, some jv => some (Leaf.str ks, jv)
          | _, _ => none
        | _ => none)).map JVal.dict
    | _, _, some a => (a.toList.mapM toJVal).map JVal.list
    | _, _, _ =>
      match toVal j with
      | some (.leaf a) => some (.leaf a)
      | _ => none
  | _ =>
    match toVal j with
    | some (.leaf a) => some (.leaf a)
    | _ => none

def excName : Exc → String
  | .lenaTypeError => "LenaTypeError"
  | .lenaValueError => "LenaValueError"
  | .lenaKeyError => "LenaKeyError"
  | .valueError => "Other:ValueError"
  | .indexError => "Other:IndexError"
  | .lenaAttributeError => "LenaAttributeError"
  | .attributeError => "Other:AttributeError"
  | .unmodelled => "unmodelled"

def ofExc (e : Exc) : Json := Json.mkObj [("e", Json.str (excName e))]

def ofRes {α} (f : α → Json) : Except Exc α → Json
  | .ok a => Json.mkObj [("r", f a)]
  | .error e => ofExc e

/-- an optional field: `none` = absent, `some none` = present but malformed -/
def optVal (j : Json) (k : String) : Option (Option Val) :=
  match j.getObjVal? k with
  | .ok v => some (toVal v)
  | .error _ => none

/-- present but malformed -/
def isBad : Option (Option Val) → Bool
  | some none => true
  | _ => false

def strList? (j : Json) : Option (List String) := do
  let a ← arr? j
  a.toList.mapM str?

def valList? (j : Json) : Option (List Val) := do
  let a ← arr? j
  a.toList.mapM toVal

def toKeyArg (j : Json) : Option KeyArg :=
  match j.getObjVal? "s", j.getObjVal? "l", j.getObjVal? "k", j.getObjVal? "o" with
  | .ok s, _, _, _ => (str? s).map KeyArg.str
  | _, .ok l, _, _ => (valList? l).map KeyArg.list
  | _, _, .ok k, _ =>
    match toVal k with
    | some (.dict es) => some (.dict es)
    | _ => none
  | _, _, _, .ok _ => some .other
  | _, _, _, _ => none

/-- a flow value: `null` = bare data, otherwise the context of a `(data, context)` pair -/
def toItem (j : Json) : Option (Item Unit) :=
  if j.isNull then some (.bare ()) else
    match toVal j with
    | some (.dict es) => some (.pair () es)
    | _ => none

def ofItem : Item Unit → Json
  | .bare _ => Json.null
  | .pair _ c => ofVal (.dict c)

def ofPiece : Piece → Json
  | .lit s => Json.arr #[Json.str "lit", Json.str s]
  | .field p => Json.arr #[Json.str "field", ofList Json.str p]

def boolD (j : Json) (k : String) (d : Bool) : Bool := (bool? (getD j k)).getD d

/-- all key paths over `alpha` of length `n`, in the order of `itertools.product(alpha, repeat=n)` -/
def pathsOfLen (alpha : List String) : Nat → List (List String)
  | 0 => [[]]
  | n + 1 => alpha.flatMap (fun a => (pathsOfLen alpha n).map (a :: ·))

def pathsUpTo (alpha : List String) (n : Nat) : List (List String) :=
  (List.range (n + 1)).flatMap (pathsOfLen alpha)

/-- the notations of a key path, as the harness builds them -/
def variants (p : List String) : List KeyArg :=
  [.str (joinDots p), .list (p.map (fun k => .leaf (.str k))), .dict (pathEntries p (.dict []))] ++
  (if p.length ≥ 2 then [.dict (pathEntries p.dropLast (.leaf (.str (p.getLastD ""))))] else [])

def codeOf (ref : Option Val) (dflt : Val) : Except Exc Val → String
  | .error e => excName e
  | .ok v =>
    let js := (ofVal v).compress
    if (ref.map (fun r => (ofVal r).compress)) == some js then "="
    else if js == (ofVal dflt).compress then "D"
    else "r:" ++ js

def addrLine (d : Val) (dflt : Val) (p : List String) : String :=
  let ref := getPath d p
  let gets := (variants p).flatMap (fun k => [codeOf ref dflt (getRec d k none), codeOf ref dflt (getRec d k (some dflt))])
  let c := match d with
    | .dict es =>
      if !(p == [] || containsModelled d p) then "?"          -- a list whose repr is not modelled is compared
      else if contains es (joinDots p) then "T" else "F"
    | _ => "?"
  let pr := match ref with
    | some v => (ofVal v).compress
    | none => "-"
  String.intercalate "|" (gets ++ [c, pr])

def parseUCArgs (a : Json) : Option UCArgs :=
  let sub : Option (Option String) :=
    let s := getD a "subcontext"
    match str? s with
    | some x => some (some x)
    | none => some none
  let upd : Option UpdArg :=
    match (getD a "update").getObjVal? "s", (getD a "update").getObjVal? "v" with
    | .ok s, _ => (str? s).map UpdArg.str
    | _, .ok v => (toVal v).map UpdArg.simple
    | _, _ => none
  let dflt := optVal a "default"
  match sub, upd with
  | some sub, some upd =>
    if isBad dflt then none else
    some (UCArgs.mk sub upd (boolD a "value" false) dflt.join (boolD a "skip" false)
      (boolD a "raise" false) (boolD a "recursively" true))
  | _, _ => none

def toPiece (j : Json) : Option Piece :=
  match arr? j with
  | some #[k, x] =>
    match str? k with
    | some "lit" => (str? x).map Piece.lit
    | some "field" => (strList? x).map Piece.field
    | _ => none
  | _ => none

def keyOpt (j : Json) : Option String := str? j

/-- the specification-side definitions, executed: see `Model/C08Spec.lean` -/
def handleSpec (j : Json) : Json :=
  match str? (getD j "what") with
  | some "wfpath" =>
    match (arr? (getD j "paths")).bind (fun a => a.toList.mapM strList?) with
    | some ps => Json.mkObj [("r", ofList (fun p => Json.bool (wfPathB p)) ps)]
    | none => err "bad wfpath args"
  | some "wf" =>
    match valList? (getD j "vs") with
    | some vs => Json.mkObj [("r", ofList (fun v => Json.bool (valWFB v)) vs)]
    | none => err "bad wf args"
  | some "template" =>
    match (arr? (getD j "pieces")).bind (fun a => a.toList.mapM toPiece), valList? (getD j "ctxs") with
    | some ps, some ctxs =>
      Json.mkObj [("template", Json.str (templateString ps)), ("wf", Json.bool (ps.all pieceWFB)),
        ("ctxs", ofList (fun c => match c with
          | .dict es => Json.mkObj [("present", Json.bool (fieldsPresent es ps)), ("str", Json.bool (strFieldsB es ps)),
                                    ("text", Json.str (renderSpec es ps))]
          | _ => Json.null) ctxs)]
    | _, _ => err "bad template args"
  | some "illformed" =>
    match parseUCArgs (getD j "args") with
    | some a => Json.mkObj [("r", Json.bool (illFormedB a)), ("n", ofNat (nActive a))]
    | none => err "bad illformed args"
  | some "nottemplate" =>
    match valList? (getD j "vs") with
    | some vs => Json.mkObj [("r", ofList (fun v => Json.bool (notTemplateB v)) vs)]
    | none => err "bad nottemplate args"
  | some "ucset" =>
    match toVal (getD j "d"), strList? (getD j "path"), toVal (getD j "u") with
    | some (.dict d), some p, some u =>
      Json.mkObj [("rec", ofVal (.dict (ucSet true d p u))), ("plain", ofVal (.dict (ucSet false d p u))),
        ("del", ofVal (.dict (delPath d p))), ("nest", ofVal (nestPath p u)),
        ("sub", ofVal (.dict (match p with | k :: _ => subDict d k | [] => [])))]
    | _, _, _ => err "bad ucset args"
  | some "str" =>
    match valList? (getD j "vs") with
    | some vs => Json.mkObj [("r", ofList (fun v => match pyStrVal v with
        | some s => Json.str s
        | none => Json.null) vs)]
    | none => err "bad str args"
  | _ => err "unknown spec"

def handleUC (j : Json) : Json :=
  match parseUCArgs (getD j "args"), (arr? (getD j "items")).bind (fun x => x.toList.mapM toItem) with
  | some args, some items =>
    match ucInit args with
    | .error e => Json.mkObj [("init", Json.str (excName e))]
    | .ok uc =>
      match uc.upd with
      | .foreign => Json.mkObj [("init", "unmodelled")]      -- jinja2 syntax outside the modelled fragment
      | _ =>
        Json.mkObj [("init", "ok"),
          ("calls", ofList (fun it => ofRes ofItem (ucCall uc it)) items)]
  | _, _ => err "bad uc args"

/-! ### the heap model -/

mutual
partial def toHVal (n : Nat) (j : Json) : Option (HVal × Nat) :=
  match j with
  | .obj _ =>
    match arr? (getD j "d"), arr? (getD j "L"), arr? (getD j "T") with
    | some a, _, _ => (toHEntries (n + 1) a.toList).map (fun r => (HVal.dict n r.1, r.2))
    | _, some a, _ => (toHList (n + 1) a.toList).map (fun r => (HVal.list n r.1, r.2))
    | _, _, some a => (toHList n a.toList).map (fun r => (HVal.tuple r.1, r.2))
    | _, _, _ =>
      match arr? (getD j "S"), arr? (getD j "FS"), arr? (getD j "BA"), j.getObjVal? "box" with
      | some a, _, _, _ => (toHList (n + 1) a.toList).map (fun r => (HVal.cell "set" n (.tuple r.1), r.2))
      | _, some a, _, _ => (toHList (n + 1) a.toList).map (fun r => (HVal.cell "frozenset" n (.tuple r.1), r.2))
      | _, _, some a, _ => (toHList (n + 1) a.toList).map (fun r => (HVal.cell "bytearray" n (.tuple r.1), r.2))
      | _, _, _, .ok b => (toHVal (n + 1) b).map (fun r => (HVal.cell "box" n r.1, r.2))
      | _, _, _, _ =>
        match toVal j with
        | some (.leaf a) => some (.leaf a, n)
        | _ => none
  | _ =>
    match toVal j with
    | some (.leaf a) => some (.leaf a, n)
    | _ => none
partial def toHEntries (n : Nat) : List Json → Option (HEntries × Nat)
  | [] => some ([], n)
  | e :: r =>
    match arr? e with
    | some #[k, v] =>
      match str? k, toHVal n v with
      | some k, some (hv, m) => (toHEntries m r).map (fun x => ((k, hv) :: x.1, x.2))
      | _, _ => none
    | _ => none
partial def toHList (n : Nat) : List Json → Option (List HVal × Nat)
  | [] => some ([], n)
  | v :: r =>
    match toHVal n v with
    | some (hv, m) => (toHList m r).map (fun x => (hv :: x.1, x.2))
    | none => none
end

partial def ofHVal : HVal → Json
  | .leaf a => ofVal (.leaf a)
  | .dict _ es => Json.mkObj [("d", Json.arr (es.map (fun (k, v) => Json.arr #[Json.str k, ofHVal v])).toArray)]
  | .list _ xs => Json.mkObj [("L", Json.arr (xs.map ofHVal).toArray)]
  | .tuple xs => Json.mkObj [("T", Json.arr (xs.map ofHVal).toArray)]
  | .cell k _ x =>
    let members : List Json := match x with
      | .tuple xs => xs.map ofHVal
      | y => [ofHVal y]
    if k = "set" then Json.mkObj [("S", Json.arr members.toArray)]
    else if k = "frozenset" then Json.mkObj [("FS", Json.arr members.toArray)]
    else if k = "bytearray" then Json.mkObj [("BA", Json.arr members.toArray)]
    else Json.mkObj [("box", ofHVal x)]

def pokeAll (ts : List Nat) (v : HVal) : HVal := ts.foldl (fun v t => pokeH t v) v

def sameH (a b : HVal) : Bool := (ofHVal a).compress == (ofHVal b).compress

def handleAlias (j : Json) : Json :=
  let src := getD j "src"
  let srcpath : Option (List String) := strList? (getD j "srcpath")
  match strList? (getD j "sub"), bool? (getD j "rec"), arr? (getD j "items") with
  | some sub, some rec, some items =>
    let one (it : Json) : Json :=
      -- the context (object 0) first, then the default / the update argument
      let ctx? : Option (HEntries × Nat) :=
        if it.isNull then some ([], 1) else
          match toHVal 0 it with
          | some (.dict _ es, m) => some (es, m)
          | _ => none
      match ctx? with
      | none => err "alias: bad item"
      | some (ctx, m) =>
        let parsed : Option (SrcH × Option HVal × Option HVal × Nat) :=
          match src.getObjVal? "simple" with
          | .ok u => (toHVal m u).map (fun r => (SrcH.simple r.1, some r.1, none, r.2))
          | .error _ =>
            match strList? (getD src "key"), src.getObjVal? "default" with
            | some key, .ok d => (toHVal m d).map (fun r => (SrcH.ctxValue key (some r.1), none, some r.1, r.2))
            | some key, .error _ => some (SrcH.ctxValue key none, none, none, m)
            | none, _ => none
        match parsed with
        | none => err "alias: bad src"
        | some (s, upd, dflt, n) =>
          match ucCallH rec sub s n ctx with
          | none => Json.mkObj [("skip", true)]
          | some (c', _) =>
            let item := getPathH (.dict 0 c') sub
            let ts := match item with
              | some v => v.ids
              | none => []
            let changed (o : Option HVal) : Bool := match o with
              | some v => !sameH (pokeAll ts v) v
              | none => false
            let srcChanged : Bool := match srcpath with
              | some sp =>
                (match getPathH (.dict 0 c') sp, getPathH (pokeAll ts (.dict 0 c')) sp with
                 | some a, some b => !sameH a b
                 | none, none => false
                 | _, _ => true)
              | none => false
            let leaks := (if changed upd then ["update-argument"] else []) ++ (if changed dflt then ["default"] else []) ++
              (if srcChanged then ["source-item"] else [])
            Json.mkObj [("ctx", ofHVal (.dict 0 c')), ("leaks", ofList Json.str leaks)]
    Json.mkObj [("calls", ofList one items.toList)]
  | _, _, _ => err "bad alias args"

def handleToStringH (j : Json) : Json :=
  match (arr? (getD j "vs")).bind (fun a => a.toList.mapM (fun v => (toHVal 0 v).map (·.1))) with
  | some vs =>
    let sp := fun (t : List Tok) => Json.str (String.join (t.map Tok.spell))
    Json.mkObj [("r", ofList (fun v => ofRes sp (toStringH v)) vs),
                ("eq", ofList (fun a => ofList (fun b => Json.bool (pyEqH a b)) vs) vs),
                ("jeq", ofList (fun (a : HVal) => ofList (fun (b : HVal) => Json.bool (pyEq a.toVal b.toVal)) vs) vs)]
  | none => err "bad to_string_h args"

def handle (j : Json) : Json :=
  match str? (getD j "op") with
  | some "alias" => handleAlias j
  | some "to_string_h" => handleToStringH j
  | some "get" =>
    match toVal (getD j "d"), (arr? (getD j "keys")).bind (fun a => a.toList.mapM toKeyArg), optVal j "default" with
    | some d, some ks, dflt =>
      if isBad dflt then err "get: bad default" else
      Json.mkObj [("r", ofList (fun k => ofRes ofVal (getRec d k dflt.join)) ks)]
    | _, _, _ => err "bad get args"
  | some "addr" =>
    match toVal (getD j "d"), strList? (getD j "alpha"), nat? (getD j "maxlen"), toVal (getD j "default") with
    | some d, some alpha, some n, some dflt =>
      let ps := pathsUpTo alpha n ++ (match strList? (getD j "alpha4") with
        | some a4 => pathsOfLen a4 4
        | none => [])
      Json.mkObj [("r", ofList (fun p => Json.str (addrLine d dflt p)) ps)]
    | _, _, _, _ => err "bad addr args"
  | some "path" =>
    match toVal (getD j "d"), (arr? (getD j "paths")).bind (fun a => a.toList.mapM strList?) with
    | some d, some ps =>
      Json.mkObj [("r", ofList (fun p => match getPath d p with
        | some v => ofVal v
        | none => Json.mkObj [("absent", true)]) ps)]
    | _, _ => err "bad path args"
  | some "str_to_dict" =>
    let v := optVal j "value"
    if isBad v then err "str_to_dict: bad value" else ofRes ofVal (strToDictE (keyOpt (getD j "s")) v.join)
  | some "str_to_list" =>
    ofRes (ofList Json.str) (strToListE (keyOpt (getD j "s")))
  | some "contains" =>
    match toVal (getD j "d"), strList? (getD j "ss") with
    | some (.dict es), some ss => Json.mkObj [("r", ofList (fun s => Json.bool (contains es s)) ss)]
    | _, _ => err "bad contains args"
  | some "format" =>
    let t : Option (Option String) := if (getD j "t").isNull then some none else (str? (getD j "t")).map some
    match t, valList? (getD j "ctxs") with
    | some t, some ctxs =>
      match formatInit t with
      | .error e => Json.mkObj [("init", Json.str (excName e))]
      | .ok f =>
        Json.mkObj [("init", "ok"), ("fstr", Json.str (String.ofList f.fstr)), ("args", ofList Json.str f.args),
          ("calls", ofList (fun c => ofRes Json.str (formatCall f c)) ctxs)]
    | _, _ => err "bad format args"
  | some "to_string" =>
    match valList? (getD j "vs") with
    | some vs =>
      let sp := fun (t : List Tok) => Json.str (String.join (t.map Tok.spell))
      Json.mkObj [("r", ofList (fun v => ofRes sp (toStringE v)) vs),
                  ("j", ofList (fun (v : Val) => ofRes sp (jTokens v.toJ)) vs)]     -- the general encoder on the same value
    | none => err "bad to_string args"
  | some "to_string_j" =>
    match (arr? (getD j "vs")).bind (fun a => a.toList.mapM toJVal) with
    | some vs => Json.mkObj [("r", ofList (fun v => ofRes (fun t => Json.str (String.join (t.map Tok.spell))) (jTokens v)) vs)]
    | none => err "bad to_string_j args"
  | some "spec" => handleSpec j
  | some "context" =>
    match (arr? (getD j "items")).bind (fun x => x.toList.mapM toItem), strList? (getD j "names") with
    | some items, some names =>
      Json.mkObj [("calls", ofList (fun it => ofRes ofItem (contextCall it)) items),
        ("attrs", ofList (fun (it : Item Unit) => ofList (fun n => ofRes ofVal (contextGetAttr it.context n)) names) items),
        ("reprs", ofList (fun (it : Item Unit) => ofRes Json.str (contextRepr it.context)) items)]
    | _, _ => err "bad context args"
  | some "pyeq" =>
    match valList? (getD j "vs") with
    | some vs => Json.mkObj [("r", ofList (fun a => ofList (fun b => Json.bool (pyEq a b)) vs) vs)]
    | none => err "bad pyeq args"
  | some "update_recursively" =>
    let o := getD j "other"
    let other : Option UpdOther :=
      match o.getObjVal? "s", o.getObjVal? "v" with
      | .ok s, _ => (str? s).map UpdOther.str
      | _, .ok v => (toVal v).map UpdOther.val
      | _, _ => none
    match toVal (getD j "d"), other, optVal j "value" with
    | some d, some other, v =>
      if isBad v then err "update_recursively: bad value" else ofRes ofVal (updateRecursively d other v.join)
    | _, _, _ => err "bad update_recursively args"
  | some "fuw" =>
    match toVal (getD j "value"), toVal (getD j "d") with
    | some v, some d => ofRes ofVal (formatUpdateWith (keyOpt (getD j "key")) v d)
    | _, _ => err "bad fuw args"
  | some "uc" => handleUC j
  | some "dc" =>
    let k := getD j "key"
    let key : Option DelKey :=
      match k.getObjVal? "s", k.getObjVal? "l", k.getObjVal? "o" with
      | .ok s, _, _ => (str? s).map DelKey.str
      | _, .ok l, _ => (valList? l).map DelKey.list
      | _, _, .ok _ => some DelKey.other
      | _, _, _ => none
    match key, (arr? (getD j "items")).bind (fun x => x.toList.mapM toItem) with
    | some key, some items =>
      match dcInit key with
      | .error e => Json.mkObj [("init", Json.str (excName e))]
      | .ok keyl =>
        Json.mkObj [("init", "ok"), ("calls", ofList (fun it => Json.mkObj [("r", ofItem (dcCall keyl it))]) items)]
    | _, _ => err "bad dc args"
  | some "setctx" =>
    match toVal (getD j "value"), valList? (getD j "ctxs") with
    | some v, some ctxs =>
      match setCtxInit (keyOpt (getD j "key")) v with
      | .error e => Json.mkObj [("init", Json.str (excName e))]
      | .ok s0 =>
        let (_, steps) := ctxs.foldl (fun (acc : SetCtx × List Json) c =>
          let (s, out) := acc
          let (s', e) := s.setContext c
          (s', out ++ [Json.mkObj [("set", Json.str (match e with | none => "ok" | some e => excName e)),
                                   ("get", ofRes ofVal s'.getContext)]])) (s0, [])
        Json.mkObj [("init", "ok"), ("get0", ofRes ofVal s0.getContext), ("steps", Json.arr steps.toArray)]
    | _, _ => err "bad setctx args"
  | some "jinja" =>
    match str? (getD j "t") with
    | some t =>
      match jinjaParse t with
      | .ok ps => Json.mkObj [("r", ofList ofPiece ps)]
      | .syntaxError => Json.mkObj [("e", "syntax")]
      | .foreign => Json.mkObj [("e", "foreign")]
    | none => err "bad jinja args"
  | _ => err "unknown op"

def main : IO Unit := run handle
