import LenaModel.DriverUtil
import LenaModel.Model.C18
import LenaModel.Model.C18Split
import LenaModel.Model.C18Multi
import LenaModel.Model.C18Ctx
import LenaModel.Model.C18Spec
import LenaModel.Model.C18Exc
/-! Model driver for C18.  One request per case (a history), one reply:
  {"nc":n, "hist":[op,…]}  ->  {"ops":[obs,…]}
  op  = {"op":"run","mode":"source"|"sequence"|"hoist"|"hoist_src"|"meta"|"bare_hoist"|"bare_meta",
         "src":{"vals":[ints],"raise":k|null}, "els":[el,…], "take":k|null, "fin":"close"|"leak"}
      | {"op":"drop","c":id,"rc":bool} | {"op":"finalize"}
  el  = {"k":"map","a":int,"raise":k|null} | {"k":"cache","c":id,"rc":bool}
      | {"k":"setctx","key":k,"v":v} | {"k":"tcache","t":t,"key":k,"rc":bool}   (case fields "nb","V": see `nameId`)
  obs = run:  {"out":[ints],"end":…,"ev":["s0","m1:0","s$",…],"snaps":["0101…" (final0 tmp0 final1 tmp1 …),…],"fs":[{"final":[ints]|null,"tmp":bool},…],
               "ref":{"vals":[ints],"exc":name|null}}      (ref = `pipeFlow` on the file system before the run)
        drop: {"r":"ok"|name,"fs":…}     finalize: {"fs":…}
  op  = {"op":"splitrun","src":…,"outer":[el,…],"branch":[el,…],"bufsize":n|null,"take":k|null,"fin":…}
        (Source(src, *outer, Split([Sequence(*branch)], bufsize))())  ->  like run, without "ref"
  src and map elements may carry "rk": "exc"|"kbd"|"sysexit"|"base"|"genexit" (class of the exception they raise);
  {"op":"plant","c":id,"what":"empty"|"tmp"}: a foreign empty cache file / a stale temporary file
  a splitrun may carry "pre","post": further members of the Split before / after Sequence(*branch):
    {"k":"seq","els":[el,…]} | {"k":"fc","a":a} | {"k":"fr","a":a}   (Model/C18Multi.lean; the Split must read the whole flow)
  bufrule trees: "FC" / "FR" are members of type fill_compute / fill_request (leaves)
`take = null` becomes a demand that exceeds every flow the pipeline can produce. -/
open Lean Lena.Drv Lena.C18

def optNat (j : Json) : Option (Option Nat) :=
  if j.isNull then some none else (nat? j).map some

def parseEl (j : Json) : Option ElSpec :=
  match str? (getD j "k") with
  | some "map" => do
    let a ← int? (getD j "a")
    let r ← optNat (getD j "raise")
    pure (.map a r)
  | some "cache" => do
    let c ← nat? (getD j "c")
    let rc ← bool? (getD j "rc")
    pure (.cache c rc)
  | _ => none

/-- elements with templated cache names (`Model/C18Ctx.lean`): {"k":"setctx","key":k,"v":v}, {"k":"tcache","t":t,"key":k,"rc":b} -/
def parseTEl (j : Json) : Option TEl :=
  match str? (getD j "k") with
  | some "setctx" => do
    let k ← nat? (getD j "key")
    let v ← nat? (getD j "v")
    pure (.setctx k v)
  | some "tcache" => do
    let t ← nat? (getD j "t")
    let k ← nat? (getD j "key")
    let rc ← bool? (getD j "rc")
    pure (.tcache t k rc)
  | _ => (parseEl j).map .el

def parseMode : String → Option Mode
  | "source" => some .source
  | "sequence" => some .sequence
  | "hoist" => some .hoist
  | "hoist_src" => some .hoist
  | "meta" => some .viaMeta
  | "bare_hoist" => some .bare
  | "bare_meta" => some .bare
  | _ => none

def excName : Exc → String
  | .srcBoom => "Other:SrcBoom"
  | .elBoom => "Other:ElBoom"
  | .fileNotFound => "Other:FileNotFoundError"

def endName : End → String
  | .stopped => "stopped"
  | .exhausted => "exhausted"
  | .raised e => excName e

def parseClass (j : Json) : ExcClass :=
  match str? j with
  | some "kbd" => .keyboardInterrupt
  | some "sysexit" => .systemExit
  | some "base" => .baseException
  | some "genexit" => .generatorExit
  | _ => .exception

/-- the classes the source and the data elements (numbered as the map elements are) raise: field "rk" -/
def parseClasses (src : Json) (els : List Json) : RaiseClasses :=
  let data := els.filter (fun e => str? (getD e "k") != some "setctx")
  ⟨parseClass (getD src "rk"), fun j => match data[j]? with | some e => parseClass (getD e "rk") | none => .exception⟩

/-- the name of the end of a run, with the class of the exception that leaves it -/
def endNameC (rc : RaiseClasses) (evs : List Ev) : End → String
  | .stopped => "stopped"
  | .exhausted => "exhausted"
  | .raised e =>
    match leavingClass rc evs e with
    | .exception => (match raiserOf evs with | some none => "Other:SrcBoom" | _ => "Other:ElBoom")
    | .keyboardInterrupt => "Other:KeyboardInterrupt"
    | .systemExit => "Other:SystemExit"
    | .baseException => "Other:BaseBoom"
    | .generatorExit => "Other:GeneratorExit"
    | .osError => "Other:FileNotFoundError"

def evJson : Ev → Json
  | .srcYield i => Json.str s!"s{i}"
  | .srcRaise i => Json.str s!"s!{i}"
  | .srcEnd => Json.str "s$"
  | .step j i => Json.str s!"m{j}:{i}"
  | .stepRaise j i => Json.str s!"m!{j}:{i}"

def fsJson (nc : Nat) (fs : FS) : Json :=
  ofList (fun c => Json.mkObj [("final", ofOpt ofIntList (fs c).final), ("tmp", Json.bool (fs c).tmp.isSome)])
    (List.range nc)

def bitsJson (nc : Nat) (fs : FS) : Json :=
  Json.str (String.join ((List.range nc).map (fun c =>
    (if (fs c).final.isSome then "1" else "0") ++ (if (fs c).tmp.isSome then "1" else "0"))))

/-- a demand no flow of this pipeline can reach -/
def bigDemand (nc : Nat) (fs : FS) (s : SrcSpec) : Nat :=
  (List.range nc).foldl (fun n c => n + ((fs c).final.getD []).length) (s.vals.length + 1)

def parseRun (nb V nc : Nat) (fs : FS) (j : Json) : Option RunSpec := do
  let mode ← (str? (getD j "mode")).bind parseMode
  let sj := getD j "src"
  let vals ← intList? (getD sj "vals")
  let r ← optNat (getD sj "raise")
  let tels ← (arr? (getD j "els")).bind (fun a => a.toList.mapM parseTEl)
  let els := resolve nb V [] tels          -- `Cache._set_context` through `LenaSequence._set_context`
  let take ← optNat (getD j "take")
  let fin ← str? (getD j "fin")
  let s : SrcSpec := ⟨vals, r⟩
  pure ⟨mode, s, els, take.getD (bigDemand nc fs s), fin == "leak"⟩

def runObs (rcl : RaiseClasses) (nc : Nat) (w : World) (r : RunSpec) : World × Json :=
  let d := (runOp w r).2
  let w' := step w (.run r)               -- the world the theorems about `exec` speak of
  let ref := pipeFlow w.fs r.src r.els
  (w', Json.mkObj [
    ("out", ofIntList (d.outs.map (·.1))),
    ("end", Json.str (endNameC rcl d.evs d.end_)),
    ("ev", ofList evJson d.evs),
    ("snaps", ofList (fun o => bitsJson nc o.2) d.outs),
    ("fs", fsJson nc w'.fs),
    ("ids", ofList ofNat (cacheIds r.els)),
    -- the specification-side vocabulary of the theorems, evaluated on this run (Model/C18Spec.lean)
    ("spec", Json.mkObj [
      ("distinct", Json.bool (distinctB r.els)),
      ("nofilled", Json.bool (noFilledB w.fs r.els)),
      ("modeok", Json.bool (modeOkB r.mode r.els)),
      ("erased", let f := pipeFlow w.fs r.src (eraseCaches r.els)
                 Json.mkObj [("vals", ofIntList f.vals), ("exc", ofOpt (fun e => Json.str (excName e)) f.exc)]),
      ("endof", Json.str (endName (endOf ref r.demand))),
      ("stored", ofList (fun (cx : Nat × List Val) => Json.arr #[ofNat cx.1, ofIntList cx.2]) (storedByList w.fs r)),
      ("replay", ofOpt (fun (pc : Nat × Nat) => ofNat pc.1) (lastFilled w.fs 0 r.els)),
      ("evafter", ofOpt (fun (pc : Nat × Nat) => Json.bool (d.evs.all (evAfterB pc.1))) (lastFilled w.fs 0 r.els))]),
    ("ref", Json.mkObj [("vals", ofIntList ref.vals), ("exc", ofOpt (fun e => Json.str (excName e)) ref.exc)])])

def parseSplitRun (nb V nc : Nat) (fs : FS) (j : Json) (extra : Nat := 0) : Option SplitRunSpec := do
  let sj := getD j "src"
  let vals ← intList? (getD sj "vals")
  let r ← optNat (getD sj "raise")
  let touter ← (arr? (getD j "outer")).bind (fun a => a.toList.mapM parseTEl)
  let tbranch ← (arr? (getD j "branch")).bind (fun a => a.toList.mapM parseTEl)
  -- the static context of the outer elements reaches the members of the Split (`LenaSplit._set_context`)
  let outer := resolve nb V [] touter
  let branch := resolve nb V (ctxAfter [] touter) tbranch
  let bufsize ← optNat (getD j "bufsize")
  let take ← optNat (getD j "take")
  let fin ← str? (getD j "fin")
  let s : SrcSpec := ⟨vals, r⟩
  -- (`extra` = number of further members of the Split: each yields at most as many values as a branch, plus one)
  let big := bigDemand nc fs s + extra
  pure ⟨s, outer, branch, bufsize, take.getD (big * big + 1), fin == "leak"⟩

def parseMember (j : Json) : Option Member :=
  match str? (getD j "k") with
  | some "seq" => do
    let els ← (arr? (getD j "els")).bind (fun a => a.toList.mapM parseEl)
    pure (.seq els)
  | some "fc" => (int? (getD j "a")).map .fc
  | some "fr" => (int? (getD j "a")).map .fr
  | _ => none

def parseMembers (j : Json) (k : String) : Option (List Member) :=
  match arr? (getD j k) with
  | some a => a.toList.mapM parseMember
  | none => some []

def Member.els : Member → List ElSpec
  | .seq els => els
  | _ => []

/-- a Split with several members (it must read the whole flow at once: otherwise the request is refused) -/
def multiObs (rcl : RaiseClasses) (nc : Nat) (w : World) (r : SplitRunSpec) (pre post : List Member) : Option (World × Json) :=
  let members := pre ++ [.seq r.branch] ++ post
  if (effBufsizeMembers r.bufsize members).isSome then none
  else
    let (w', d) := runSplitMultiOp w ⟨r.src, r.outer, members, r.bufsize, r.demand, r.leak⟩
    some (w', Json.mkObj [
      ("out", ofIntList (d.outs.map (·.1))),
      ("end", Json.str (endNameC rcl d.evs d.end_)),
      ("ev", ofList evJson d.evs),
      ("snaps", ofList (fun o => bitsJson nc o.2) d.outs),
      ("ids", ofList ofNat (cacheIds (r.outer ++ (members.map Member.els).flatten))),
      ("fs", fsJson nc w'.fs)])

def splitObs (rcl : RaiseClasses) (patched bare : Bool) (nc : Nat) (w : World) (r : SplitRunSpec) : World × Json :=
  let (w', d) := match bare, r.branch with
    | true, .cache c rc :: _ => runSplitBareOp patched w r c rc      -- Split([Cache(..)])
    | _, _ => runSplitOp patched w r
  (w', Json.mkObj [
    ("out", ofIntList (d.outs.map (·.1))),
    ("end", Json.str (endNameC rcl d.evs d.end_)),
    ("ev", ofList evJson d.evs),
    ("snaps", ofList (fun o => bitsJson nc o.2) d.outs),
    ("ids", ofList ofNat (cacheIds (r.outer ++ r.branch))),
    ("fs", fsJson nc w'.fs)])

/-- container trees: "C" (Cache) | "L" (other element) | {"seq":[…]} | {"tuple":[…]} | {"runif":[…]} (objects with
`_seq`) | {"split":[…]} -/
partial def parseTree (j : Json) : Option CTree :=
  match str? j with
  | some "C" => some .cache
  | some "L" => some .leaf
  | some "FC" => some .leaf
  | some "FR" => some .leaf
  | some _ => none
  | none =>
    let kids (k : String) : Option (List CTree) := (arr? (getD j k)).bind (fun a => a.toList.mapM parseTree)
    match kids "seq", kids "tuple", kids "runif", kids "split" with
    | some ts, _, _, _ => some (.seq ts)
    | _, some ts, _, _ => some (.seq ts)
    | _, _, some ts, _ => some (.seq ts)
    | _, _, _, some ts => some (.split ts)
    | _, _, _, _ => none

def stepObs (patched : Bool) (nb V nc : Nat) (w : World) (j : Json) : Option (World × Json) :=
  match str? (getD j "op") with
  | some "splitrun" => do
    let pre ← parseMembers j "pre"
    let post ← parseMembers j "post"
    let r ← parseSplitRun nb V nc w.fs j (pre.length + post.length)
    let mJ (k : String) : List Json := (((arr? (getD j k)).getD #[]).toList.map (fun m => ((arr? (getD m "els")).getD #[]).toList)).flatten
    let elsJ := ((arr? (getD j "outer")).getD #[]).toList ++ mJ "pre" ++ ((arr? (getD j "branch")).getD #[]).toList ++ mJ "post"
    if pre.isEmpty && post.isEmpty then
      pure (splitObs (parseClasses (getD j "src") elsJ) patched ((bool? (getD j "bare")).getD false) nc w r)
    else multiObs (parseClasses (getD j "src") elsJ) nc w r pre post
  | some "run" => do
    let r ← parseRun nb V nc w.fs j
    pure (runObs (parseClasses (getD j "src") ((arr? (getD j "els")).getD #[]).toList) nc w r)
  | some "drop" => do
    let c ← nat? (getD j "c")
    let rc := (bool? (getD j "rc")).getD false
    let e := (dropOp w c rc).2
    let w' := step w (.drop c rc)
    pure (w', Json.mkObj [("r", Json.str (match e with | none => "ok" | some e => excName e)), ("fs", fsJson nc w'.fs)])
  | some "plant" => do
    -- a file no run of the history made (Model/C18Exc.lean)
    let c ← nat? (getD j "c")
    let fs' := if str? (getD j "what") == some "empty" then w.fs.plantEmpty c else w.fs.plantTmp c
    pure (⟨fs', w.leaked⟩, Json.mkObj [("fs", fsJson nc fs')])
  | some "bufrule" => do
    -- `Split(members, bufsize)._bufsize is None` (`Split.__init__`, `_contains_cache`)
    let mj ← arr? (getD j "members")
    let trees ← mj.toList.mapM parseTree
    let ty (m : Json) : MemberTy := match str? m with
      | some "FC" => .fillCompute
      | some "FR" => .fillRequest
      | _ => .sequence
    let bufsize ← optNat (getD j "bufsize")
    pure (w, Json.mkObj [("none", Json.bool (effBufsizeTyped bufsize ((mj.toList.map ty).zip trees)).isNone),
      ("contains", ofList (fun t => Json.bool (containsCache t)) trees), ("fs", fsJson nc w.fs)])
  | some "dropdir" =>
    let rc := (bool? (getD j "rc")).getD false
    some (w, Json.mkObj [("r", Json.str (match dropBlocked rc with
      | .lenaEnvironmentError => "LenaEnvironmentError" | .osError => "OSError")), ("fs", fsJson nc w.fs)])
  | some "repr" => do
    -- `Cache.__repr__` (cache.py:132-140) shows `cache_exists()`
    let c ← nat? (getD j "c")
    let rc := (bool? (getD j "rc")).getD false
    pure (w, Json.mkObj [("exists", Json.bool (cacheExists w.fs c rc)), ("fs", fsJson nc w.fs)])
  | some "finalize" =>
    let w' := step w .finalize
    some (w', Json.mkObj [("fs", fsJson nc w'.fs)])
  | _ => none

def runHist (patched : Bool) (nb V nc : Nat) : World → List Json → Option (List Json)
  | _, [] => some []
  | w, j :: js => do
    let (w', o) ← stepObs patched nb V nc w j
    let rest ← runHist patched nb V nc w' js
    pure (o :: rest)

def handle (j : Json) : Json :=
  match nat? (getD j "nc"), arr? (getD j "hist") with
  | some nc, some h =>
    -- the buffer-size rule of `Split.__init__` is the one of /repo (7235571): `effBufsize true`; the pinned rule
    -- (`effBufsize false`) is kept in the model only for the counterexample `split_pinned_truncates`
    match runHist true ((nat? (getD j "nb")).getD nc) ((nat? (getD j "V")).getD 0)
        nc World.init h.toList with
    | some obs => Json.mkObj [("ops", Json.arr obs.toArray)]
    | none => err "bad op"
  | _, _ => err "bad case"

def main : IO Unit := run handle
