import LenaModel.DriverUtil
import LenaModel.Model.C04
import LenaModel.Model.C04Spec
import LenaModel.Model.C04Nest
/-! Model driver for C04.

Values in cells and data: int | "str" | [list] | {"t":[tuple]} | {"d":{dict}} | {"q":[n,d]}.
Input item:  {"d": int | {"cell": k}, "c": null | k}     (k: serial of an upstream object, namespace 0)
with "heap": {"<k>": value} giving the content of every upstream object.
Branch spec: {"kind":"source"|"fc"|"fr"|"seq","steps":[step..],"term":acc,"n":k}
  | {"kind":"nest","ctype":"fc"|"fr","copy_buf":bool,"inner":[branch spec (not nested)..]}   a Split given directly as a branch
  step: {"s":"var"|"mkfn"|"tag"|"count","name":..} | {"s":"upd","key":..,"v":i} | {"s":"app"|"touch"|"touchc","v":i}
        | {"s":"setd","key":..,"v":i} | {"s":"stop","n":k} | {"s":"emit"}
  acc:  {"a":"sum"|"dsum"|"histogram"|"nphist"|"store"|"keeplast"|"reqsum"|"reqstore"} | {"a":"count","name":..}
        | {"a":"mean","seq":null|"sum"|{"count":name},"poe":bool} | {"a":"vmc","corrected":bool,"poe":bool}
        | {"a":"vectorize","dim":k} | {"a":"sib","var":..,"lo":i,"hi":i}
Requests:
  {"op":"split","mode":"run"|"fill"|"zip","branches":[..],"bufsize":n|null,"copy_buf":bool,"heap":{..},"flow":[item..]}
     mode "run":  Split(branches, bufsize, copy_buf).run(flow)
     mode "fill": for v in flow: split.fill(v)  (stop at LenaStopFill); then split.compute() / split.request()
     mode "zip":  for v in flow: zip._fill(v); then every sequence's compute()/request() in turn
  {"op":"acc","acc":acc,"heap":{..},"hist":[{"f":item} | {"c":1} | {"my":k,"key":s} | {"mf":k,"key":s} | {"rf":k}]}
     "my": context of the k-th value yielded so far gets key s (in place); "mf": same for the k-th filled value;
     "rf": fill the k-th yielded value again
Replies: {"flow":[ritem..],"outs":[ritem..],"stopped":bool} / {"filled":[ritem..],"outs":[ritem..],"evs":[{"n":k,"err":s|null}..]}
  ritem: {"d": value | {"cell":tok,"v":value}, "c": null | {"t":tok,"v":value}}; tok = canonical number by first appearance
  (flow/filled first, then outs), contents at the end of the run. -/
open Lean Lena.Drv Lena.C04
open Lena.Flow (Value dictSet)
open Lena.C03 (Kind)

partial def valueOf (j : Json) : Option Value :=
  match j with
  | .num _ => (int? j).map Value.int
  | .str s => some (.str s)
  | .arr a => (a.toList.mapM valueOf).map Value.list
  | .obj _ =>
    match j.getObjVal? "t", j.getObjVal? "d", j.getObjVal? "q" with
    | .ok (.arr a), _, _ => (a.toList.mapM valueOf).map Value.tup
    | _, .ok (.obj kvs), _ =>
      (kvs.toList.mapM fun (kv : String × Json) => (valueOf kv.2).map fun w => (kv.1, w)).map Value.dict
    | _, _, .ok (.arr #[n, d]) => do some (.quot (← int? n) (← int? d))
    | _, _, _ => none
  | _ => none

partial def valueJson : Value → Json
  | .int i => ofInt i
  | .str s => Json.str s
  | .quot n d => Json.mkObj [("q", Json.arr #[ofInt n, ofInt d])]
  | .list xs => Json.arr (xs.map valueJson).toArray
  | .tup xs => Json.mkObj [("t", Json.arr (xs.map valueJson).toArray)]
  | .dict kvs => Json.mkObj [("d", Json.mkObj (kvs.map fun (k, v) => (k, valueJson v)))]

def itemOf (j : Json) : Option HItem := do
  let d := getD j "d"
  let c := getD j "c"
  let ctx : Option Tok ← if c.isNull then some none else (nat? c).map (fun k => some (upNs, k))
  match nat? (getD d "cell") with
  | some k => some { skel := { data := none, hasCtx := ctx.isSome }, cells := (upNs, k) :: ctx.toList }
  | none => do
    let v ← valueOf d
    some (mkItem v ctx)

def itemsOf (j : Json) : Option (List HItem) := do (← arr? j).toList.mapM itemOf

/-- the initial heap: upstream object `k` has the content `heap[k]`; everything else `{}` -/
def heapOf (j : Json) : Option (Store Value) :=
  match j with
  | .obj kvs =>
    kvs.toList.foldlM (fun (st : Store Value) (kv : String × Json) => do
      let k ← kv.1.toNat?
      let v ← valueOf kv.2
      some (st.set (upNs, k) v)) (fun _ => .dict [])
  | _ => none

def stepOf (j : Json) : Option Step :=
  match str? (getD j "s") with
  | some "var" => (str? (getD j "name")).map Step.var
  | some "mkfn" => (str? (getD j "name")).map Step.mkfn
  | some "tag" => (str? (getD j "name")).map Step.tag
  | some "count" => (str? (getD j "name")).map Step.count
  | some "upd" => do some (.upd (← str? (getD j "key")) (← int? (getD j "v")))
  | some "app" => (int? (getD j "v")).map Step.app
  | some "setd" => do some (.setd (← str? (getD j "key")) (← int? (getD j "v")))
  | some "stop" => (nat? (getD j "n")).map Step.stop
  | some "emit" => some .emit
  | some "touch" => (int? (getD j "v")).map Step.touch
  | some "touchc" => (int? (getD j "v")).map Step.touchc
  | _ => none

def accOf (j : Json) : Option AccKind :=
  match str? (getD j "a") with
  | some "sum" => some .sum
  | some "dsum" => some .dsum
  | some "histogram" => some .histogram
  | some "nphist" => some .numpyHist
  | some "store" => some .store
  | some "keeplast" => some .keepLast
  | some "reqsum" => some .reqSum
  | some "reqstore" => some .reqStore
  | some "vec_list" => some .vecList
  | some "graph" => some .graph
  | some "store_group" => some .storeGroup
  | some "groupby" => (str? (getD j "key")).map AccKind.groupBy
  | some "mean_counts" => ((arr? (getD j "names")).bind (fun a => a.toList.mapM str?)).map AccKind.meanCounts
  | some "vec_multi" => (nat? (getD j "k")).map AccKind.vecMulti
  | some "sib_multi" => do some (.sibMulti (← str? (getD j "var")) (← int? (getD j "lo")) (← int? (getD j "hi")) (← nat? (getD j "k")))
  | some "count" => (str? (getD j "name")).map AccKind.count
  | some "mean" => do
    let sq := getD j "seq"
    let poe ← bool? (getD j "poe")
    if sq.isNull then some (.mean none poe)
    else match str? sq with
      | some "sum" => some (.mean (some .sum) poe)
      | some "dsum" => some (.mean (some .dsum) poe)
      | _ => do some (.mean (some (.sumCount (← str? (getD sq "count")))) poe)
  | some "vmc" => do some (.vmc (← bool? (getD j "corrected")) (← bool? (getD j "poe")))
  | some "vectorize" => (nat? (getD j "dim")).map AccKind.vectorize
  | some "sib" => do some (.sib (← str? (getD j "var")) (← int? (getD j "lo")) (← int? (getD j "hi")))
  | _ => none

def kindOf : String → Option Kind
  | "source" => some .source
  | "fc" => some .fillCompute
  | "fr" => some .fillRequest
  | "seq" => some .sequence
  | _ => none

def bspecOf (j : Json) : Option BSpec := do
  let kind ← kindOf (← str? (getD j "kind"))
  let steps ← (← arr? (getD j "steps")).toList.mapM stepOf
  let t := getD j "term"
  let term ← if t.isNull then some AccKind.store else accOf t
  let n := (nat? (getD j "n")).getD 0
  some { kind := kind, steps := steps, term := term, srcN := n }

/-! ### rendering with canonical object numbers -/

def numOf (seen : List Tok) (t : Tok) : List Tok × Nat :=
  match seen.idxOf? t with
  | some i => (seen, i)
  | none => (seen ++ [t], seen.length)

def renderPlain (st : Store Value) (seen : List Tok) (x : HItem) : List Tok × Json :=
  let (seen1, dj) : List Tok × Json :=
    match x.skel.data, x.dataTok with
    | some v, _ => (seen, valueJson v)
    | none, some t =>
      let r := numOf seen t
      (r.1, Json.mkObj [("cell", ofNat r.2), ("v", valueJson (st t))])
    | none, none => (seen, Json.null)
  match x.ctxTok with
  | none => (seen1, Json.mkObj [("d", dj), ("c", Json.null)])
  | some c =>
    let r := numOf seen1 c
    (r.1, Json.mkObj [("d", dj), ("c", Json.mkObj [("t", ofNat r.2), ("v", valueJson (st c))])])

/-- the members of a group, from the skeleton parts and the cells that follow the list object -/
def groupMembers : List (Option Value × Bool) → List Tok → List HItem
  | [], _ => []
  | (d, c) :: rest, cells =>
    let n := (if d.isNone then 1 else 0) + (if c then 1 else 0)
    { skel := { data := d, hasCtx := c }, cells := cells.take n } :: groupMembers rest (cells.drop n)

def isGroup (x : HItem) : Bool :=
  match x.skel.data with
  | some (.str "<group>") => true
  | _ => false

def renderItem (st : Store Value) (seen : List Tok) (x : HItem) : List Tok × Json :=
  if isGroup x then
    match x.cells with
    | [] => (seen, Json.null)
    | l :: rest =>
      let r := numOf seen l
      let ms := groupMembers x.skel.parts rest
      let q := ms.foldl (fun (acc : List Tok × List Json) m =>
        let rr := renderPlain st acc.1 m
        (rr.1, acc.2 ++ [rr.2])) (r.1, [])
      (q.1, Json.mkObj [("group", ofNat r.2), ("items", Json.arr q.2.toArray)])
  else renderPlain st seen x

def renderItems (st : Store Value) : List Tok → List HItem → List Tok × List Json
  | seen, [] => (seen, [])
  | seen, x :: xs =>
    let r := renderItem st seen x
    let q := renderItems st r.1 xs
    (q.1, r.2 :: q.2)


/-! ### the specification-side definitions, executed (ties to the real run: see harness/props/c04.py) -/

def tokJson (t : Tok) : Json := Json.arr #[ofNat t.1, ofNat t.2]

def rawItemJson (x : HItem) : Json :=
  Json.mkObj [("d", ofOpt valueJson x.skel.data), ("c", Json.bool x.skel.hasCtx),
    ("cells", Json.arr (x.cells.map tokJson).toArray)]

/-- an event with everything it carries (object names as they are, contents of the snapshots) -/
def evJson : Ev Skel Value → Json
  | .hand i buf c => Json.mkObj [("e", "hand"), ("i", ofNat i), ("buf", ofList rawItemJson buf), ("copied", Json.bool c)]
  | .fill i x st => Json.mkObj [("e", "fill"), ("i", ofNat i), ("x", rawItemJson x), ("stopped", Json.bool st)]
  | .call i => Json.mkObj [("e", "call"), ("i", ofNat i)]
  | .compute i => Json.mkObj [("e", "compute"), ("i", ofNat i)]
  | .request i => Json.mkObj [("e", "request"), ("i", ofNat i)]
  | .run i buf => Json.mkObj [("e", "run"), ("i", ofNat i), ("buf", ofList rawItemJson buf)]
  | .out i v snap => Json.mkObj [("e", "out"), ("i", ofNat i), ("v", rawItemJson v), ("snap", ofList valueJson snap)]
  | .assertFail => Json.mkObj [("e", "assertFail")]

def evsString (tr : List (Ev Skel Value)) : String := (ofList evJson tr).compress

/-- a yielded value as a plain Python value with the contents its objects had at the moment of the yield -/
def plainAtYield (v : HItem) (snap : List Value) : Json :=
  let (dj, rest) : Json × List Value :=
    match v.skel.data with
    | some d => (valueJson d, snap)
    | none => (ofOpt valueJson snap.head?, snap.drop 1)
  if v.skel.hasCtx then Json.mkObj [("t", Json.arr #[dj, ofOpt valueJson rest.getLast?])] else dj

def plainOuts : List (Ev Skel Value) → List Json
  | [] => []
  | .out _ v snap :: r => plainAtYield v snap :: plainOuts r
  | _ :: r => plainOuts r

/-- the buffers handed to branch `i`, in order -/
def handsOf (i : Nat) : List (Ev Skel Value) → List (List HItem × Bool)
  | [] => []
  | .hand j buf c :: r => if j == i then (buf, c) :: handsOf i r else handsOf i r
  | _ :: r => handsOf i r

/-- for every value branch `i` was filled with / run on: was it a copy (none: the value has no object) -/
def fillFlags (i : Nat) : List (Ev Skel Value) → List Json
  | [] => []
  | e :: r =>
    let flag := fun (x : HItem) => match x.cells.head? with
      | none => Json.null
      | some t => Json.bool (t.1 != upNs)
    match e with
    | .fill j x _ => if j == i then flag x :: fillFlags i r else fillFlags i r
    | .run j buf => if j == i then buf.map flag ++ fillFlags i r else fillFlags i r
    | _ => fillFlags i r

/-- equality of skeletons (immutable data): equality of their printed forms -/
def skelEq (a b : Skel) : Bool := toString (repr a) == toString (repr b)

def checkRun {σ : Type} (brs : List (Branch σ Skel Value)) (bufsize : Option Nat) (copyBuf : Bool) (st0 : Store Value)
    (flow : List HItem) : Json :=
  let tr := (Split.runTrace { branches := brs, bufsize := bufsize, copyBuf := copyBuf } st0 flow).1
  let bl := Lena.C03.blocks bufsize flow
  let per := brs.map (fun b =>
    let sched := (bl.zip (handsOf b.id tr)).map (fun p => (p.1, p.2.1, p.2.2))
    let alone := aloneTrace st0 b sched bl.isEmpty
    Json.mkObj [("proj_eq", Json.bool (evsString (proj b.id tr) == evsString alone)),
      ("sched_ok", Json.bool (sched.all (schedOKb skelEq b.id))),
      ("alone", Json.arr (plainOuts alone).toArray), ("fills", Json.arr (fillFlags b.id tr).toArray)])
  Json.mkObj [("disjoint", Json.bool (decide ((tr.map handCells).Pairwise Disj))), ("branches", Json.arr per.toArray)]

def checkFill {σ : Type} (fill1 : HItem → World Value → List (Branch σ Skel Value) → FillAllRes σ Skel Value)
    (brs : List (Branch σ Skel Value)) (st0 : Store Value) (flow : List HItem) (req : Req Skel)
    (ev : Nat → Ev Skel Value) : Json :=
  let f := fillFlow fill1 { st := st0, cc := 0 } brs flow
  let tr := f.evs
  let ctr := (collect req ev f.w.st f.brs).1
  let per := brs.map (fun b =>
    let hands := handsOf b.id tr
    let sched := (flow.zip hands).map (fun p => (p.1, p.2.1.headD p.1, p.2.2))
    let al := aloneFillLife st0 st0 b sched
    -- the conclusion of `split_fill_alone_equiv` / `zip_fill_alone_equiv` about what the branch then yields
    let a := al.2.2.1.ops.act al.2.1 al.2.2.1.st req
    let aloneOuts : List (Ev Skel Value) := outsEv b.id a.1 a.2.2.outs
    Json.mkObj [("proj_eq", Json.bool (evsString (proj b.id tr) == evsString al.1 &&
        evsString (proj b.id ctr) == evsString (ev b.id :: aloneOuts))),
      ("sched_ok", Json.bool (hands.all (fun h => h.1.length == 1) && sched.all (fillOKb skelEq b.id))),
      ("alone", Json.arr (plainOuts aloneOuts).toArray), ("fills", Json.arr (fillFlags b.id tr).toArray)])
  Json.mkObj [("disjoint", Json.bool (decide ((tr.map handCells).Pairwise Disj))), ("branches", Json.arr per.toArray)]

/-- the reserved object in which the driver records the first exception an invocation returns -/
def errTok : Tok := (1, 0)

/-- the same object, with every exception it returns recorded on the heap (the model of `Split` goes on after an
exception; the driver reports it, and the harness compares it with the exception of the real run) -/
def errWrap {σ : Type} (ops : Ops σ Skel Value) : Ops σ Skel Value :=
  { act := fun st s r =>
      let a := ops.act st s r
      match a.2.2.err, st errTok with
      | some e, .dict _ => (a.1.set errTok (.str e), a.2)
      | _, _ => a
    refs := ops.refs }

/-- the run of a split case on the branch list `brs` (branches of the harness, or — `mkBranchesN` — also nested
`Split`s), rendered -/
def runSplitCase {σ : Type} (brs : List (Branch σ Skel Value)) (j : Json) : Json :=
  match heapOf (getD j "heap"), itemsOf (getD j "flow"), bool? (getD j "copy_buf"), str? (getD j "mode") with
  | some st0, some flow, some copyBuf, some mode =>
    let bs := getD j "bufsize"
    let bufsize : Option Nat := if bs.isNull then none else nat? bs
    let allFr := brs.all (fun b => b.kind == .fillRequest)
    let res : List HItem × Store Value × Bool :=
      match mode with
      | "run" =>
        let r := Split.run { branches := brs, bufsize := bufsize, copyBuf := copyBuf } st0 flow
        (r.1, r.2, false)
      | "fill" =>
        let f := fillFlow (splitFill copyBuf) { st := st0, cc := 0 } brs flow
        let c := collect (if allFr then .request else .compute) (if allFr then Ev.request else Ev.compute) f.w.st f.brs
        (outputs c.1, c.2.1, f.stopped)
      | _ =>
        let f := fillFlow zipFill { st := st0, cc := 0 } brs flow
        let c := collect (if allFr then .request else .compute) (if allFr then Ev.request else Ev.compute) f.w.st f.brs
        (outputs c.1, c.2.1, f.stopped)
    let rf := renderItems res.2.1 [] flow
    let ro := renderItems res.2.1 rf.1 res.1
    -- the first exception an invocation of the run returns (the real run ends with it)
    let brsE := brs.map (fun b => { b with ops := errWrap b.ops })
    let stE : Store Value :=
      match mode with
      | "run" => (Split.run { branches := brsE, bufsize := bufsize, copyBuf := copyBuf } st0 flow).2
      | "fill" =>
        let f := fillFlow (splitFill copyBuf) { st := st0, cc := 0 } brsE flow
        (collect (if allFr then .request else .compute) (if allFr then Ev.request else Ev.compute) f.w.st f.brs).2.1
      | _ =>
        let f := fillFlow zipFill { st := st0, cc := 0 } brsE flow
        (collect (if allFr then .request else .compute) (if allFr then Ev.request else Ev.compute) f.w.st f.brs).2.1
    let raised : Json := match stE errTok with
      | .str e => Json.str e
      | _ => Json.null
    let chk : Json :=
      if (bool? (getD j "check")).getD false then
        match mode with
        | "run" => checkRun brs bufsize copyBuf st0 flow
        | "fill" =>
            checkFill (splitFill copyBuf) brs st0 flow (if allFr then .request else .compute) (if allFr then Ev.request else Ev.compute)
        | _ =>
            checkFill zipFill brs st0 flow (if allFr then .request else .compute) (if allFr then Ev.request else Ev.compute)
      else Json.null
    Json.mkObj [("flow", Json.arr rf.2.toArray), ("outs", Json.arr ro.2.toArray), ("stopped", Json.bool res.2.2),
      ("check", chk), ("raised", raised)]
  | _, _, _, _ => err "bad split args"

def nspecOf (j : Json) : Option BSpecN := do
  match str? (getD j "kind") with
  | some "nest" =>
    let kind ← kindOf (← str? (getD j "ctype"))
    let inner ← (← arr? (getD j "inner")).toList.mapM bspecOf
    some (.nest { kind := kind, copyBuf := ← bool? (getD j "copy_buf"), inner := inner })
  | _ => (bspecOf j).map BSpecN.leaf

def handleSplit (j : Json) : Json :=
  match arr? (getD j "branches") with
  | none => err "bad split args"
  | some a =>
    if a.toList.any (fun b => str? (getD b "kind") == some "nest") then
      match a.toList.mapM nspecOf with
      | some specs => runSplitCase (mkBranchesN 0 specs.length specs) j
      | none => err "bad split args"
    else
      match a.toList.mapM bspecOf with
      | some specs => runSplitCase (mkBranches 0 specs) j
      | none => err "bad split args"

structure HistSt (σ : Type) where
  st : Store Value
  s : σ
  filled : List HItem := []
  outs : List HItem := []
  evs : List Json := []
  known : List Tok := []
  /-- the instances of `FreshYield` / `Local` held for every invocation so far -/
  freshOk : Bool := true
  localOk : Bool := true

def setKey (key : String) (v : Value) : Value := .dict (dictSet (ctxOf v) key (.int 1))

/-- one invocation, with the executed instances of `FreshYield` and `Local` -/
def histAct {σ : Type} (ops : Ops σ Skel Value) (ctr : σ → Nat) (ns : Nat) (h : HistSt σ) (r : Req Skel)
    (record : Bool) : HistSt σ :=
  let a := ops.act h.st h.s r
  let known := h.known ++ r.cells ++ cellsOf a.2.2.outs
  let fr := freshInstance ns (ctr h.s) (ctr a.2.1) a.2.2.outs
  let lo := localInstance (fun v w => Value.eqv v w) ns (ops.refs h.s) r.cells (ops.refs a.2.1) a.2.2.outs h.st a.1 known
  { h with st := a.1, s := a.2.1, known := known, freshOk := h.freshOk && fr, localOk := h.localOk && lo,
           outs := if record then h.outs ++ a.2.2.outs else h.outs,
           evs := if record then h.evs ++ [Json.mkObj [("n", ofNat a.2.2.outs.length), ("err", ofOpt Json.str a.2.2.err)]]
                  else h.evs }

def histStep {σ : Type} (ops : Ops σ Skel Value) (ctr : σ → Nat) (ns : Nat) (reset : σ → σ) (h : HistSt σ) (j : Json) :
    Option (HistSt σ) :=
  if !(getD j "f").isNull then do
    let x ← itemOf (getD j "f")
    let h' := histAct ops ctr ns h (.fill x) false
    some { h' with filled := h.filled ++ [x] }
  else if !(getD j "c").isNull then some (histAct ops ctr ns h .compute true)
  else if !(getD j "r").isNull then some (histAct ops ctr ns h .request true)
  else if !(getD j "reset").isNull then some { h with s := reset h.s }
  else if !(getD j "my").isNull then do
    let k ← nat? (getD j "my")
    let key ← str? (getD j "key")
    match (h.outs[k]?).bind HItem.ctxTok with
    | some c => some { h with st := h.st.set c (setKey key (h.st c)) }
    | none => some h
  else if !(getD j "mf").isNull then do
    let k ← nat? (getD j "mf")
    let key ← str? (getD j "key")
    match (h.filled[k]?).bind HItem.ctxTok with
    | some c => some { h with st := h.st.set c (setKey key (h.st c)) }
    | none => some h
  else if !(getD j "ff").isNull then do
    -- the k-th filled value is filled again (the same object)
    let k ← nat? (getD j "ff")
    match h.filled[k]? with
    | some x =>
      let h' := histAct ops ctr ns h (.fill x) false
      some { h' with filled := h.filled ++ [x] }
    | none => some h
  else if !(getD j "rf").isNull then do
    let k ← nat? (getD j "rf")
    match h.outs[k]? with
    | some x =>
      let h' := histAct ops ctr ns h (.fill x) false
      some { h' with filled := h.filled ++ [x] }
    | none => some h
  else none

/-- the history as a static list of `HOp`s, when it has no operation that refers to an earlier result -/
def staticHist {σ : Type} (reset : σ → σ) : List Json → List HItem → Option (List (HOp σ Skel Value))
  | [], _ => some []
  | j :: rest, filled =>
    if !(getD j "f").isNull then do
      let x ← itemOf (getD j "f")
      let r ← staticHist reset rest (filled ++ [x])
      some (.req (.fill x) :: r)
    else if !(getD j "c").isNull then (staticHist reset rest filled).map (fun r => .req .compute :: r)
    else if !(getD j "r").isNull then (staticHist reset rest filled).map (fun r => .req .request :: r)
    else if !(getD j "reset").isNull then (staticHist reset rest filled).map (fun r => .upd reset :: r)
    else if !(getD j "mf").isNull then do
      let k ← nat? (getD j "mf")
      let key ← str? (getD j "key")
      let r ← staticHist reset rest filled
      match (filled[k]?).bind HItem.ctxTok with
      | some c => some (.ext (fun st => st.set c (setKey key (st c))) :: r)
      | none => some r
    else none

def runHistory {σ : Type} (ops : Ops σ Skel Value) (ctr : σ → Nat) (ns : Nat) (reset : σ → σ) (s0 : σ)
    (st0 : Store Value) (known0 : List Tok) (hist : Array Json) : Json :=
  match hist.toList.foldlM (histStep ops ctr ns reset) { st := st0, s := s0, known := known0 } with
  | none => err "bad history"
  | some h =>
    let rf := renderItems h.st [] h.filled
    let ro := renderItems h.st rf.1 h.outs
    -- `runHist` (the definition `acc_yield_fresh` is about) against the step-by-step execution
    let rh : Json :=
      match staticHist reset hist.toList [] with
      | none => Json.null
      | some hops =>
        let evs := (runHist ops ctr st0 s0 hops).filter (fun e => match e.req with | .fill _ => false | _ => true)
        let outs := evs.flatMap (fun e => e.resp.outs)
        let evJ := evs.map (fun e => Json.mkObj [("n", ofNat e.resp.outs.length), ("err", ofOpt Json.str e.resp.err)])
        Json.bool ((Json.arr evJ.toArray).compress == (Json.arr h.evs.toArray).compress &&
          outs.map (·.cells) == h.outs.map (·.cells))
    Json.mkObj [("filled", Json.arr rf.2.toArray), ("outs", Json.arr ro.2.toArray), ("evs", Json.arr h.evs.toArray),
      ("fresh_ok", Json.bool h.freshOk), ("local_ok", Json.bool h.localOk), ("runhist_ok", rh),
      ("outs_cells", Json.arr (h.outs.map (fun y => Json.arr (y.cells.map tokJson).toArray)).toArray)]

/-- `fillAll` (the definition the StoreFilled theorems are about) against the step-by-step execution: for a
history `fill* compute`, what `compute` yields after `fillAll` -/
def fillAllCheck (ops : Ops HSt Skel Value) (s0 : HSt) (st0 : Store Value) (hist : List Json) : Json :=
  let fills := hist.takeWhile (fun j => !(getD j "f").isNull)
  match hist.drop fills.length, fills.mapM (fun j => itemOf (getD j "f")) with
  | [c], some xs =>
    if (getD c "c").isNull then Json.null
    else
      let f := fillAll ops st0 s0 xs
      Json.arr ((ops.act f.1 f.2 .compute).2.2.outs.map (fun y => Json.arr (y.cells.map tokJson).toArray)).toArray
  | _, _ => Json.null

def addField (j : Json) (k : String) (v : Json) : Json :=
  match j with
  | .obj _ => j.setObjVal! k v
  | _ => j

def handleAcc (j : Json) : Json :=
  match heapOf (getD j "heap"), arr? (getD j "hist") with
  | some st0, some hist =>
    let a := getD j "acc"
    let known0 : List Tok := match getD j "heap" with
      | .obj kvs => kvs.toList.filterMap (fun kv => kv.1.toNat?.map (fun k => (upNs, k)))
      | _ => []
    match str? (getD a "a") with
    | some "zip" =>
      -- Zip([acc, …]) as one accumulator
      match (arr? (getD a "subs")).bind (fun s => s.toList.mapM accOf) with
      | some ks => runHistory (zipOps ks) (fun z => z.ctr) (ownNs ks.length) (fun z => z) (zipInit ks) st0 known0 hist
      | none => err "bad zip"
    | some "split_fc" =>
      match (arr? (getD a "subs")).bind (fun s => s.toList.mapM accOf) with
      | some ks => runHistory splitAccOps (fun z => z.ctr) (ownNs ks.length) (fun z => z) (zipInit ks) st0 known0 hist
      | none => err "bad split_fc"
    | some "fcseq" =>
      -- FillComputeSeq(*steps, acc) as one accumulator
      match (arr? (getD a "steps")).bind (fun s => s.toList.mapM stepOf), accOf (getD a "term") with
      | some steps, some k =>
        runHistory (hOps (ownNs 0) { kind := .fillCompute, steps := steps, term := k, srcN := 0 }) (fun s => s.ctr) (ownNs 0)
          (fun s => s) {} st0 known0 hist
      | _, _ => err "bad fcseq"
    | _ =>
      match accOf a with
      | some k =>
        -- Graph(context=ctx): the accumulator starts with a `_cur_context` given by the caller
        let s0 : HSt := match nat? (getD a "ctx") with
          | some c => { acc := { cur := some (upNs, c) } }
          | none => {}
        addField (runHistory (accOps (ownNs 0) k) (fun s => s.ctr) (ownNs 0) (fun s => { s with acc := accReset s.acc }) s0
          st0 known0 hist) "fillall" (fillAllCheck (accOps (ownNs 0) k) s0 st0 hist.toList)
      | none => err "bad acc"
  | _, _ => err "bad acc args"

def handle (j : Json) : Json :=
  match str? (getD j "op") with
  | some "split" => handleSplit j
  | some "acc" => handleAcc j
  | _ => err "unknown op"

def main : IO Unit := run handle
