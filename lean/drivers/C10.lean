import LenaModel.DriverUtil
import LenaModel.Model.C10
/-! Model driver for C10.  One request = one element, a list `A`, a list `B` and an interleaving pattern:
  {"el":EL,"fs":FS,"A":[ITEM,…],"B":[ITEM,…],"pat":[bool,…]}
    -> {"flow":[TOK,…], "run":RUN (on merge pat A B), "a":RUN (on A alone), "pred_ok":b (mergeBlocks … = run.blocks),
        "pickA_ok":b (pick true = a.blocks), "pickB":[[TOK]…], "sel":[bool,…] (selection predicate on the flow),
        "ispattern":b}
  optional "shared":true (reference semantics: sharedStep/finalView; + "local", "plain_equal"),
  optional "second":{"A","B","pat"} (the element object is used again: + "run2","a2","sel2","pred2_ok")
RUN  = {"blocks":[[ITEM,…],…],"tail":[ITEM,…],"fs":FS,"err":null|name}
EL   = {"k":"tocsv","dup":b,"header":b} | {"k":"write","outdir":s,"defname":s,"eu":b,"ow":b}
     | {"k":"render","def":s,"templates":[s,…],"sel":null|SEL} | {"k":"png","format":s,"ow":b}
     | {"k":"pdf","ow":b,"sched":[[finishAt,rc],…]} | {"k":"h2g"} | {"k":"iterbins","bins":[kind,…]}
     | {"k":"mapbins","bins":[kind,…],"inner":CELLINNER,"drop":b} | {"k":"runif","sel":SEL,"inner":INNER}
     | {"k":"mapgroup","inner":INNER} | {"k":"pipe","stages":[EL,…]} (Sequence of the elements above except "pdf")
SEL  = {"cls":name} | {"key":s} | {"or":[SEL,…]} | {"and":[SEL,…]} | {"const":b}
INNER = "id"|"dup"|"drop"|"number"|"first"|"count"|"raise"|"yieldraise"|"dupeven"|"last"|{"write":EL}
CELLINNER = "id"|"dup"|"drop"|"dupfirst"|"raise"|"yieldraise"|"ctx"
ITEM = {"t":TOK,"d":DATA,"c":null|{"t":TOK,"v":CV-dict}} (+ "pass":b on output of "pdf")
TOK  = n (source object) | {"made":[TOK,k]}
DATA = {"k":"int","v":i} | {"k":"str","v":s} | {"k":"text","kind":s,"src":TOK,"lines":n}
     | {"k":"other","cls":s,"id":n,"iter":b} | {"k":"seq","tuple":b,"items":[DATA,…]} | {"k":"writable","id":n}
     | {"k":"rows","id":n,"rk":"ok"|"empty"|"notiter"|"notcallable","upd":b} | {"k":"hist","id":n,"dim":n,"shape":[n,…],"bin":kind}
     | {"k":"graph","src":TOK,"n":n}
CV   = null | bool | int | string | {"l":[CV,…]} | {"d":[[key,CV],…]} | {"o":tag}
FS   = {"files":[[path,CONTENT,mtime],…],"dirs":[s,…],"clock":n}
CONTENT = {"lit":s} | {"text":kind,"src":TOK} | {"obj":id} | {"conv":kind,"src":s} -/
open Lean Lena.Drv Lena.C10

/-! ### decoding -/

partial def toTok (j : Json) : Option Tok :=
  match nat? j with
  | some n => some (.src n)
  | none =>
    match arr? (getD j "made") with
    | some #[p, k] =>
      match toTok p, nat? k with
      | some p, some k => some (.made p k)
      | _, _ => none
    | _ => none

partial def ofTok : Tok → Json
  | .src n => ofNat n
  | .made p k => Json.mkObj [("made", Json.arr #[ofTok p, ofNat k])]

partial def toCV (j : Json) : Option CV :=
  match j with
  | .null => some .none
  | .bool b => some (.bool b)
  | .str s => some (.str s)
  | .num _ => (int? j).map CV.int
  | .obj _ =>
    match j.getObjVal? "l", j.getObjVal? "d", j.getObjVal? "o" with
    | .ok l, _, _ => (arr? l).bind (fun a => (a.toList.mapM toCV).map CV.list)
    | _, .ok d, _ => (arr? d).bind (fun a => (a.toList.mapM toEntry).map CV.dict)
    | _, _, .ok o => (str? o).map CV.opaque
    | _, _, _ => none
  | _ => none
where toEntry (j : Json) : Option (String × CV) :=
  match arr? j with
  | some #[k, v] =>
    match str? k, toCV v with
    | some k, some v => some (k, v)
    | _, _ => none
  | _ => none

partial def ofCV : CV → Json
  | .none => Json.null
  | .bool b => Json.bool b
  | .int i => ofInt i
  | .str s => Json.str s
  | .list l => Json.mkObj [("l", Json.arr (l.map ofCV).toArray)]
  | .dict es => Json.mkObj [("d", Json.arr (es.map (fun (k, v) => Json.arr #[Json.str k, ofCV v])).toArray)]
  | .opaque t => Json.mkObj [("o", Json.str t)]

def toDict (j : Json) : Option Dict :=
  match toCV j with
  | some (.dict d) => some d
  | _ => none

def contFirstName : ContFirst → String
  | .empty => "empty"
  | .num => "num"
  | .hist => "hist"
  | .pair => "pair"
  | .list => "list"
  | .elist => "elist"

def toContFirst : String → Option ContFirst
  | "empty" => some .empty
  | "num" => some .num
  | "hist" => some .hist
  | "pair" => some .pair
  | "list" => some .list
  | "elist" => some .elist
  | _ => none

/-- bins that hold containers: `"<class>:<what stands at index 0>"` -/
def toBinKind (s : String) : Option BinKind :=
  match s with
  | "num" => some .num
  | "hist" => some .hist
  | "vec" => some .vec
  | "pair" => some .pair
  | _ =>
    match s.splitOn ":" with
    | ["list", f] => (toContFirst f).map (BinKind.cont .list)
    | ["tuple", f] => (toContFirst f).map (BinKind.cont .tuple)
    | ["dict", f] => (toContFirst f).map (BinKind.cont .dict)
    | _ => none

def binKindName : BinKind → String
  | .num => "num"
  | .hist => "hist"
  | .vec => "vec"
  | .pair => "pair"
  | .cont .list f => "list:" ++ contFirstName f
  | .cont .tuple f => "tuple:" ++ contFirstName f
  | .cont .dict f => "dict:" ++ contFirstName f

partial def toData (j : Json) : Option Data :=
  match str? (getD j "k") with
  | some "int" => (int? (getD j "v")).map Data.int
  | some "str" => (str? (getD j "v")).map Data.str
  | some "text" =>
    match str? (getD j "kind"), toTok (getD j "src"), nat? (getD j "lines") with
    | some k, some t, some n => some (.text k t n)
    | _, _, _ => none
  | some "other" =>
    match str? (getD j "cls"), nat? (getD j "id"), bool? (getD j "iter") with
    | some c, some n, some b => some (.other c n b)
    | _, _, _ => none
  | some "seq" =>
    match bool? (getD j "tuple"), (arr? (getD j "items")).bind (fun a => a.toList.mapM toData) with
    | some b, some items => some (.seq b items)
    | _, _ => none
  | some "writable" => (nat? (getD j "id")).map Data.writable
  | some "rows" =>
    let rk : Option RowsKind :=
      match str? (getD j "rk") with
      | some "ok" => some .ok
      | some "empty" => some .empty
      | some "notiter" => some .notIterable
      | some "notcallable" => some .notCallable
      | _ => none
    match nat? (getD j "id"), rk, bool? (getD j "upd") with
    | some n, some rk, some u => some (.rows n rk u)
    | _, _, _ => none
  | some "hist" =>
    match nat? (getD j "id"), nat? (getD j "dim"), (arr? (getD j "shape")).bind (fun a => a.toList.mapM nat?),
        (str? (getD j "bin")).bind toBinKind with
    | some id, some dim, some shape, some b => some (.hist ⟨id, dim, shape, b⟩)
    | _, _, _, _ => none
  | some "graph" =>
    match toTok (getD j "src"), nat? (getD j "n") with
    | some t, some n => some (.graph t n)
    | _, _ => none
  | _ => none

partial def ofData : Data → Json
  | .int i => Json.mkObj [("k", "int"), ("v", ofInt i)]
  | .str s => Json.mkObj [("k", "str"), ("v", Json.str s)]
  | .text k t n => Json.mkObj [("k", "text"), ("kind", Json.str k), ("src", ofTok t), ("lines", ofNat n)]
  | .other c n b => Json.mkObj [("k", "other"), ("cls", Json.str c), ("id", ofNat n), ("iter", Json.bool b)]
  | .seq b items => Json.mkObj [("k", "seq"), ("tuple", Json.bool b), ("items", Json.arr (items.map ofData).toArray)]
  | .writable n => Json.mkObj [("k", "writable"), ("id", ofNat n)]
  | .rows n rk u =>
    Json.mkObj [("k", "rows"), ("id", ofNat n),
      ("rk", Json.str (match rk with | .ok => "ok" | .empty => "empty" | .notIterable => "notiter" | .notCallable => "notcallable")),
      ("upd", Json.bool u)]
  | .hist h =>
    Json.mkObj [("k", "hist"), ("id", ofNat h.id), ("dim", ofNat h.dim), ("shape", ofList ofNat h.shape),
      ("bin", Json.str (binKindName h.bin))]
  | .graph t n => Json.mkObj [("k", "graph"), ("src", ofTok t), ("n", ofNat n)]

def toItem (j : Json) : Option Item :=
  match toTok (getD j "t"), toData (getD j "d") with
  | some t, some d =>
    let c := getD j "c"
    if c.isNull then some ⟨t, d, none⟩
    else
      match toTok (getD c "t"), toDict (getD c "v") with
      | some ct, some cd => some ⟨t, d, some ⟨ct, cd⟩⟩
      | _, _ => none
  | _, _ => none

def ofItem (v : Item) : Json :=
  Json.mkObj [("t", ofTok v.tok), ("d", ofData v.data),
    ("c", match v.ctx with
          | none => Json.null
          | some c => Json.mkObj [("t", ofTok c.tok), ("v", ofCV (.dict c.d))])]

def ofEmit (e : Emit) : Json :=
  (ofItem e.item).mergeObj (Json.mkObj [("pass", Json.bool e.isPass)])

def toContent (j : Json) : Option Content :=
  match j.getObjVal? "lit", j.getObjVal? "text", j.getObjVal? "obj", j.getObjVal? "conv" with
  | .ok s, _, _, _ => (str? s).map Content.lit
  | _, .ok k, _, _ =>
    match str? k, toTok (getD j "src") with
    | some k, some t => some (.text k t)
    | _, _ => none
  | _, _, .ok n, _ => (nat? n).map Content.byObj
  | _, _, _, .ok k =>
    match str? k, str? (getD j "src") with
    | some k, some s => some (.conv k s)
    | _, _ => none
  | _, _, _, _ => none

def ofContent : Content → Json
  | .lit s => Json.mkObj [("lit", Json.str s)]
  | .text k t => Json.mkObj [("text", Json.str k), ("src", ofTok t)]
  | .byObj n => Json.mkObj [("obj", ofNat n)]
  | .conv k s => Json.mkObj [("conv", Json.str k), ("src", Json.str s)]

def toFile (j : Json) : Option File :=
  match arr? j with
  | some #[p, c, t] =>
    match str? p, toContent c, nat? t with
    | some p, some c, some t => some ⟨p, c, t⟩
    | _, _, _ => none
  | _ => none

def toFS (j : Json) : Option FS :=
  match (arr? (getD j "files")).bind (fun a => a.toList.mapM toFile),
      (arr? (getD j "dirs")).bind (fun a => a.toList.mapM str?), nat? (getD j "clock") with
  | some fs, some ds, some c => some ⟨fs, ds, c⟩
  | _, _, _ => none

def ofFS (fs : FS) : Json :=
  Json.mkObj [("files", ofList (fun f => Json.arr #[Json.str f.path, ofContent f.content, ofNat f.mtime]) fs.files),
    ("dirs", ofList Json.str fs.dirs), ("clock", ofNat fs.clock)]

def excName : Exc → String
  | .lenaRuntimeError => "LenaRuntimeError"
  | .lenaTypeError => "LenaTypeError"
  | .lenaValueError => "LenaValueError"
  | .attributeError => "Other:AttributeError"
  | .typeError => "Other:TypeError"
  | .keyError => "Other:KeyError"
  | .indexError => "Other:IndexError"
  | .assertionError => "Other:AssertionError"
  | .fileNotFoundError => "Other:FileNotFoundError"
  | .templateNotFound => "Other:TemplateNotFound"
  | .valueError => "Other:ValueError"
  | .inner n => "Other:Inner" ++ toString n
  | .unmodelled => "unmodelled"

def ofErr : Option Exc → Json
  | none => Json.null
  | some e => Json.str (excName e)

/-! ### selectors and inner sequences (the menus the harness instantiates on the Python side) -/

partial def toSel (j : Json) : Option SelSpec :=
  match j.getObjVal? "cls", j.getObjVal? "key", j.getObjVal? "or", j.getObjVal? "and", j.getObjVal? "const" with
  | .ok c, _, _, _, _ => (str? c).map SelSpec.cls
  | _, .ok k, _, _, _ => (str? k).map SelSpec.key
  | _, _, .ok l, _, _ => (arr? l).bind (fun a => (a.toList.mapM toSel).map SelSpec.or)
  | _, _, _, .ok l, _ => (arr? l).bind (fun a => (a.toList.mapM toSel).map SelSpec.and)
  | _, _, _, _, .ok b => (bool? b).map SelSpec.const
  | _, _, _, _, _ => none

/-- the inner sequences are `Model/C10.lean`: `innerApply`; here only the names are parsed -/
def innerOf (j : Json) : Option (World → List Item → Step World Item) :=
  let kind : Option InnerKind :=
    match str? j with
    | some "id" => some .id
    | some "dup" => some .dup
    | some "drop" => some .drop
    | some "number" => some .number
    | some "first" => some .first
    | some "count" => some .count
    | some "raise" => some .raise
    | some "yieldraise" => some .yieldraise
    | some "dupeven" => some .dupeven
    | some "last" => some .last
    | _ =>
      let e := getD j "write"
      match str? (getD e "outdir"), str? (getD e "defname"), bool? (getD e "eu"), bool? (getD e "ow") with
      | some od, some dn, some eu, some ow => some (.write ⟨od, dn, eu, ow⟩)
      | _, _, _, _ => none
  kind.map innerApply

def cellInnerOf (j : Json) : Option (Item → CellRes) :=
  let kind : Option CellInnerKind :=
    match str? j with
    | some "id" => some .id
    | some "dup" => some .dup
    | some "drop" => some .drop
    | some "dupfirst" => some .dupfirst
    | some "raise" => some .raise
    | some "yieldraise" => some .yieldraise
    | some "ctx" => some .ctx
    | _ => none
  kind.map cellInnerApply

/-- `select_bins=[classes]`: the classes of the listed kinds (`Selector` tests `isinstance` on the data part of
the example bin) -/
def binSel (j : Json) : Option (BinKind → Bool) :=
  match (arr? j).bind (fun a => a.toList.mapM (fun x => (str? x).bind toBinKind)) with
  | some ks => some (fun k => ks.any (fun k' => k'.cls == k.cls))
  | none => none

/-- `MapBins(seq)` without `select_bins`: `lambda _: True` -/
def mapBinSel (el : Json) : Option (BinKind → Bool) :=
  if (bool? (getD el "default")).getD false then some (fun _ => true) else binSel (getD el "bins")

/-! ### requests -/

def ofBlocks (bs : List (List Item)) : Json := ofList (ofList ofItem) bs

def runJson {σ : Type} (getFS : σ → FS) (r : Run σ Item) : Json :=
  Json.mkObj [("blocks", ofBlocks r.blocks), ("tail", Json.arr #[]), ("fs", ofFS (getFS r.st)), ("err", ofErr r.err)]

def sameBlocks (a b : List (List Item)) : Bool := (ofBlocks a).compress == (ofBlocks b).compress

/-- IterateBins / MapBins: per flow value the example bin computed on the nested lists (`exampleOfHist`; null for
a value that holds no histogram), and whether the loop body that tests it (`stepE`) runs like the transcribed one -/
def exBinFields (stepE step : FS → Item → Step FS Item) (fs : FS) (flow : List Item) : List (String × Json) :=
  let ex (v : Item) : Json :=
    match v.data with
    | .hist h =>
      match exampleOfHist h.dim h.binsVal with
      | .ok b => Json.str (binKindName (kindOfPyV b))
      | .lenaIndexError => Json.str "err:LenaIndexError"
      | .indexError => Json.str "err:Other:IndexError"
      | .notAList => Json.str "err:unmodelled"
    | _ => Json.null
  let r := loop step fs flow
  let rE := loop stepE fs flow
  [("exbin", ofList ex flow),
   ("exE_ok", Json.bool (sameBlocks r.blocks rE.blocks && (ofErr r.err).compress == (ofErr rE.err).compress))]

def addFields (j : Json) (extra : List (String × Json)) : Json :=
  match j with
  | .obj _ => extra.foldl (fun acc (k, v) => acc.setObjVal! k v) j
  | _ => j


/-- run on the interleaved flow and on the selected values alone; `pred` is the right-hand side of the
interleaving law, `sel` the selection predicate on every value of the interleaved flow -/
def both {σ : Type} (run : σ → List Item → Run σ Item) (sel : Item → Bool) (getFS : σ → FS) (s : σ)
    (p : List Bool) (A B : List Item) (doc : Option (Item → Bool) := none) : Json :=
  let flow := merge p A B
  let r := run s flow
  let rA := run s A
  Json.mkObj [("flow", ofList (fun v => ofTok v.tok) flow), ("run", runJson getFS r), ("a", runJson getFS rA),
    -- the right-hand side of the interleaving law, and its two readings, against the run (compared here:
    -- the reply stays small)
    ("pred_ok", Json.bool (sameBlocks (mergeBlocks rA.err.isSome p rA.blocks B) r.blocks)),
    ("pickA_ok", Json.bool (sameBlocks (pick true p r.blocks) rA.blocks)),
    ("pickB", ofList (ofList (fun v => ofTok v.tok)) (pick false p r.blocks)),
    ("sel", ofList Json.bool (flow.map sel)),
    -- the documented selection rule (`…Doc`), where the element has one of its own
    ("seldoc", match doc with
      | some d => ofList Json.bool (flow.map d)
      | none => Json.null),
    -- how many unselected values the law lets through (`consumedB`)
    ("consumed", ofNat (consumedB rA.err.isSome p rA.blocks.length)),
    ("ispattern", Json.bool (decide (p.count true = A.length ∧ p.count false = B.length)))]

def toSched (j : Json) : Option Sched :=
  match (arr? j).bind (fun a => a.toList.mapM (fun x =>
      match arr? x with
      | some #[f, r] =>
        match nat? f, int? r with
        | some f, some r => some (f, r)
        | _, _ => none
      | _ => none)) with
  | some l => some ⟨fun pid => (l[pid]?.map (·.1)).getD 1000000, fun pid => (l[pid]?.map (·.2)).getD 0⟩
  | none => none

def pdfJson (r : PdfRun) : Json :=
  Json.mkObj [("blocks", ofList (ofList ofEmit) r.blocks), ("tail", ofList ofEmit r.tail), ("fs", ofFS r.fs),
    ("err", ofErr r.err)]

def itemList? (j : Json) : Option (List Item) := (arr? j).bind (fun a => a.toList.mapM toItem)

/-- `{"k":"tocsv","dup":b,"header":b}` (defaults: `duplicate_last_bin=True`, no header) -/
def csvCfg (el : Json) : CsvCfg := ⟨(bool? (getD el "dup")).getD true, (bool? (getD el "header")).getD false⟩

/-- `select_template` given as a callable (`Model/C10.lean`: `selTemplateApply`) -/
def selTemplateOf (j : Json) : Option (Option (Item → Except Exc String)) :=
  if j.isNull then some none else
  match str? j with
  | some "t2" => some (some (selTemplateApply .t2))
  | some "bycls" => some (some (selTemplateApply .bycls))
  | some "missing" => some (some (selTemplateApply .missing))
  | some "raise" => some (some (selTemplateApply .raise))
  | _ => none

def renderCfgOf (el : Json) : Option RenderCfg :=
  let selJ := getD el "sel"
  let sel : Option (Option (Item → Bool)) :=
    if selJ.isNull then some none else (toSel selJ).map (fun s => some (evalSel s))
  match str? (getD el "def"), (arr? (getD el "templates")).bind (fun a => a.toList.mapM str?), sel,
      selTemplateOf (getD el "seltemplate") with
  | some d, some ts, some sel, some st => some ⟨d, ts, sel, st, (bool? (getD el "fromdata")).getD false⟩
  | _, _, _, _ => none

/-- `{"k":"h2g","mv":"default"|"first"|"witherr","nfields":n,"scale":b}` -/
def h2gCfgOf (el : Json) : H2GCfg :=
  ⟨match str? (getD el "mv") with
    | some "first" => .first
    | some "witherr" => .withErr
    | _ => .default,
   (nat? (getD el "nfields")).getD 2, (bool? (getD el "scale")).getD false⟩

def liftW (f : FS → Item → Step FS Item) : World → Item → Step World Item :=
  liftFS World.fs (fun w fs => { w with fs := fs }) f

/-- one stage of a pipeline: its loop body and its selection predicate -/
def stageOf (el : Json) : Option ((World → Item → Step World Item) × (Item → Bool)) :=
  match str? (getD el "k") with
  | some "tocsv" => some (toCSVStep (csvCfg el), toCSVSel)
  | some "write" =>
    match str? (getD el "outdir"), str? (getD el "defname"), bool? (getD el "eu"), bool? (getD el "ow") with
    | some od, some dn, some eu, some ow => some (liftW (writeStep ⟨od, dn, eu, ow⟩), writeSel)
    | _, _, _, _ => none
  | some "render" => (renderCfgOf el).map (fun cfg => (renderStep cfg, renderSel cfg))
  | some "png" =>
    match str? (getD el "format"), bool? (getD el "ow") with
    | some f, some ow => some (liftW (pngStep ⟨f, ow⟩), pngSel)
    | _, _ => none
  | some "h2g" => some (histToGraphStep (h2gCfgOf el), histToGraphSel)
  | some "iterbins" => (binSel (getD el "bins")).map (fun sb => (iterateBinsStep sb, iterateBinsSel sb))
  | some "mapbins" =>
    match mapBinSel el, cellInnerOf (getD el "inner") with
    | some sb, some inner => some (mapBinsStep sb inner ((bool? (getD el "drop")).getD true), mapBinsSel sb)
    | _, _ => none
  | some "runif" =>
    match toSel (getD el "sel"), innerOf (getD el "inner") with
    | some s, some inner => some (runIfStep (evalSel s) inner, evalSel s)
    | _, _ => none
  | some "mapgroup" => (innerOf (getD el "inner")).map (fun inner => (mapGroupStep inner, mapGroupSel))
  | _ => none

/-- any element but `pdf`/`groupplots` as a loop body in `World` (a pipeline is the composite body) -/
def elemOf (el : Json) : Option ((World → Item → Step World Item) × (Item → Bool)) :=
  match str? (getD el "k") with
  | some "pipe" =>
    match (arr? (getD el "stages")).bind (fun a => a.toList.mapM stageOf) with
    | some stages => some (pipeAll (stages.map (·.1)), fun v => stages.any (fun st => st.2 v))
    | none => none
  | _ => stageOf el

def sameJson (a b : Json) : Bool := a.compress == b.compress

/-- reference semantics (`sharedStep`): what an observer sees after the run (`finalView`) -/
def sharedJson (step : World → Item → Step World Item) (w0 : World) (flow : List Item) : Json :=
  let r := loop (sharedStep step) (w0, []) flow
  Json.mkObj [("blocks", ofBlocks (finalView r.st.2 r.blocks)), ("tail", Json.arr #[]), ("fs", ofFS r.st.1.fs),
    ("err", ofErr r.err)]

def handleShared (el : Json) (w0 : World) (p : List Bool) (A B : List Item) : Json :=
  match elemOf el with
  | some (step, sel) =>
    let flow := merge p A B
    let plain := loop step w0 flow
    let sh := loop (sharedStep step) (w0, []) flow
    Json.mkObj [("flow", ofList (fun v => ofTok v.tok) flow), ("run", sharedJson step w0 flow),
      ("a", sharedJson step w0 A), ("sel", ofList Json.bool (flow.map sel)),
      ("local", Json.bool (localB flow)),
      -- does the value-passing loop predict what the reference semantics shows?
      ("plain_equal", Json.bool (sameJson (ofBlocks plain.blocks) (ofBlocks (finalView sh.st.2 sh.blocks))
        && sameJson (ofErr plain.err) (ofErr sh.err) && sameJson (ofFS plain.st.fs) (ofFS sh.st.1.fs)))]
  | none => err "bad element for shared mode"

/-- one element object used for two flows one after the other: the second run starts from the state the
first one left -/
def handleSecond (el : Json) (w0 : World) (p : List Bool) (A B : List Item) (p2 : List Bool) (A2 B2 : List Item) :
    Json :=
  match elemOf el with
  | some (step, sel) =>
    let flow := merge p A B
    let flow2 := merge p2 A2 B2
    let r1 := loop step w0 flow
    let r2 := loop step r1.st flow2
    let a1 := loop step w0 A
    let a2 := loop step a1.st A2
    Json.mkObj [("flow", ofList (fun v => ofTok v.tok) flow), ("run", runJson World.fs r1),
      ("a", runJson World.fs a1), ("run2", runJson World.fs r2), ("a2", runJson World.fs a2),
      ("sel", ofList Json.bool (flow.map sel)), ("sel2", ofList Json.bool (flow2.map sel)),
      ("pred_ok", Json.bool (sameBlocks (mergeBlocks a1.err.isSome p a1.blocks B) r1.blocks)),
      ("pred2_ok", Json.bool (sameBlocks (mergeBlocks a2.err.isSome p2 a2.blocks B2) r2.blocks)),
      ("pickA_ok", Json.bool (sameBlocks (pick true p r1.blocks) a1.blocks)),
      ("pickB", ofList (ofList (fun v => ofTok v.tok)) (pick false p r1.blocks))]
  | none => err "bad element for second mode"

/-- `group_by` given as a callable (`Model/C10.lean`: `keyApply`) -/
def keyOf (j : Json) : Option (Item → Except Exc String) :=
  match str? j with
  | some "parity" => some (keyApply .parity)
  | some "cls" => some (keyApply .cls)
  | some "ctxn" => some (keyApply .ctxn)
  | some "const" => some (keyApply .const)
  | _ => none

def trunJson (fs : FS) (r : TRun Groups Item) : Json :=
  Json.mkObj [("blocks", ofBlocks r.blocks), ("tail", ofList ofItem r.tail), ("fs", ofFS fs), ("err", ofErr r.err)]

def handleGroupPlots (el : Json) (fs : FS) (p : List Bool) (A B : List Item)
    (second : Option (List Bool × List Item × List Item)) : Json :=
  let selJ := getD el "sel"
  let sel : Option (Item → Bool) := if selJ.isNull then some (fun _ => true) else (toSel selJ).map evalSel
  match sel, keyOf (getD el "key"), bool? (getD el "ys") with
  | some sel, some key, some ys =>
    let cfg : GPCfg := ⟨sel, key, ys⟩
    let flow := merge p A B
    let r := groupPlotsRun cfg [] flow
    let rA := groupPlotsRun cfg [] A
    let base := [("flow", ofList (fun v => ofTok v.tok) flow), ("run", trunJson fs r), ("a", trunJson fs rA),
      ("pred_ok", Json.bool (sameBlocks (mergeBlocks (loop (groupPlotsStep cfg) [] A).err.isSome p rA.blocks B)
        r.blocks)),
      ("pickA_ok", Json.bool (sameBlocks (pick true p r.blocks) rA.blocks)),
      ("pickB", ofList (ofList (fun v => ofTok v.tok)) (pick false p r.blocks)),
      ("sel", ofList Json.bool (flow.map sel))]
    match second with
    | none => Json.mkObj base
    | some (p2, A2, B2) =>
      let flow2 := merge p2 A2 B2
      let r2 := groupPlotsRun cfg r.st flow2
      let a2 := groupPlotsRun cfg rA.st A2
      Json.mkObj (base ++ [("run2", trunJson fs r2), ("a2", trunJson fs a2),
        ("sel2", ofList Json.bool (flow2.map sel)),
        ("pred2_ok", Json.bool (sameBlocks
          (mergeBlocks (loop (groupPlotsStep cfg) rA.st A2).err.isSome p2 a2.blocks B2) r2.blocks))])
  | _, _, _ => err "bad groupplots spec"

def patOf (j : Json) : Option (List Bool) := (arr? j).bind (fun a => a.toList.mapM bool?)

def handle (j : Json) : Json :=
  let el := getD j "el"
  match toFS (getD j "fs"), itemList? (getD j "A"), itemList? (getD j "B"),
      (arr? (getD j "pat")).bind (fun a => a.toList.mapM bool?) with
  | some fs, some A, some B, some p =>
    let w0 : World := ⟨fs, 0⟩
    let sec := getD j "second"
    let second : Option (List Bool × List Item × List Item) :=
      match patOf (getD sec "pat"), itemList? (getD sec "A"), itemList? (getD sec "B") with
      | some p2, some A2, some B2 => some (p2, A2, B2)
      | _, _, _ => none
    if (bool? (getD j "shared")).getD false then handleShared el w0 p A B
    else if str? (getD el "k") == some "groupplots" then handleGroupPlots el fs p A B second
    else if second.isSome && str? (getD el "k") != some "pdf" then
      match second with
      | some (p2, A2, B2) => handleSecond el w0 p A B p2 A2 B2
      | none => err "unreachable"
    else
    match str? (getD el "k") with
    | some "tocsv" => both (toCSVRun (csvCfg el)) toCSVSel id fs p A B (some toCSVDoc)
    | some "write" =>
      match str? (getD el "outdir"), str? (getD el "defname"), bool? (getD el "eu"), bool? (getD el "ow") with
      | some od, some dn, some eu, some ow => both (writeRun ⟨od, dn, eu, ow⟩) writeSel id fs p A B (some writeDoc)
      | _, _, _, _ => err "bad write spec"
    | some "render" =>
      match renderCfgOf el with
      | some cfg => both (renderRun cfg) (renderSel cfg) id fs p A B
          (if cfg.selectData.isNone then some renderDoc else none)
      | none => err "bad render spec"
    | some "png" =>
      match str? (getD el "format"), bool? (getD el "ow") with
      | some f, some ow => both (pngRun ⟨f, ow⟩) pngSel id fs p A B (some pngDoc)
      | _, _ => err "bad png spec"
    | some "pdf" =>
      match bool? (getD el "ow"), toSched (getD el "sched") with
      | some ow, some sch =>
        let flow := merge p A B
        let r := pdfRun ow sch fs flow
        let st0 : PdfSt := ⟨fs, [], 0, 0⟩
        -- the element object used for a second flow (`pdfRunFrom`: pool and launch counter survive)
        let secondJ : List (String × Json) :=
          match second with
          | none => []
          | some (p2, A2, B2) =>
            let r1 := pdfRunFrom ow sch st0 flow
            let a1 := pdfRunFrom ow sch st0 A
            [("run2", pdfJson (pdfRunFrom ow sch r1.2 (merge p2 A2 B2)).1),
             ("a2", pdfJson (pdfRunFrom ow sch a1.2 A2).1),
             ("sel2", ofList Json.bool ((merge p2 A2 B2).map pdfSel)),
             ("from_ok", Json.bool ((pdfJson r1.1).compress == (pdfJson r).compress))]
        Json.mkObj ([("flow", ofList (fun v => ofTok v.tok) flow), ("run", pdfJson r),
          ("a", pdfJson (pdfRun ow sch fs A)), ("sel", ofList Json.bool (flow.map pdfSel)),
          ("seldoc", ofList Json.bool (flow.map pdfDoc)),
          ("specerr", ofErr (pdfSpecErr ow fs (flow.filter pdfSel))),
          -- the reference notions of the theorems about LaTeXToPDF
          ("spec", ofList ofItem (pdfSpec ow sch.rc fs 0 (flow.filter pdfSel))),
          ("keysok", Json.bool (keysOKb [] flow)),
          ("passed", ofList (fun v => ofTok v.tok) (passedOf r.out)),
          -- what the pool still holds when the flow is exhausted is what the drain yields
          ("pending", ofList ofItem (pending sch.rc (loop (pdfStep ow sch) ⟨fs, [], 0, 0⟩ flow).st.pool)),
          ("prods", ofList ofItem (prodsOf r.out))] ++ secondJ)
      | _, _ => err "bad pdf spec"
    | some "h2g" => both (histToGraphRun (h2gCfgOf el)) histToGraphSel id fs p A B (some histToGraphDoc)
    | some "iterbins" =>
      match binSel (getD el "bins") with
      | some sb => addFields (both (iterateBinsRun sb) (iterateBinsSel sb) id fs p A B)
          (exBinFields (iterateBinsStepE sb) (iterateBinsStep sb) fs (merge p A B))
      | none => err "bad iterbins spec"
    | some "mapbins" =>
      match mapBinSel el, cellInnerOf (getD el "inner") with
      | some sb, some inner =>
        let dc := (bool? (getD el "drop")).getD true
        addFields (both (mapBinsRun sb inner dc) (mapBinsSel sb) id fs p A B)
          (exBinFields (mapBinsStepE sb inner dc) (mapBinsStep sb inner dc) fs (merge p A B))
      | _, _ => err "bad mapbins spec"
    | some "runif" =>
      match toSel (getD el "sel"), innerOf (getD el "inner") with
      | some s, some inner => both (runIfRun (evalSel s) inner) (evalSel s) World.fs w0 p A B
      | _, _ => err "bad runif spec"
    | some "mapgroup" =>
      match innerOf (getD el "inner") with
      | some inner => both (mapGroupRun inner) mapGroupSel World.fs w0 p A B (some mapGroupDoc)
      | none => err "bad mapgroup spec"
    | some "pipe" =>
      match (arr? (getD el "stages")).bind (fun a => a.toList.mapM stageOf) with
      | some stages =>
        both (pipeRun (stages.map (·.1))) (fun v => stages.any (fun st => st.2 v)) World.fs w0 p A B
      | none => err "bad pipe spec"
    | _ => err "unknown element"
  | _, _, _, _ => err "bad fs, A, B or pat"

def main : IO Unit := run handle
