import LenaModel.DriverUtil
import LenaModel.Model.C02
import LenaModel.Model.C02Src
/-! Model driver for C02.  Requests (one JSON object per line):

  {"op":"run","stages":[S..],"n":N|null,"k":K,"fuel":F}
      the pipeline `Sequence(*stages).run(source)` over the instrumented input 0..N-1 (`n` null: the
      infinite input 0,1,2,…), a consumer that takes at most K results
      -> {"built":clock after building, "r":[[d,{ctx},clock]..], "end":"stopped"|"exhausted"|"fuel"|"error:IndexError",
          "clock":clock at the end, "wf":every stage satisfies `Stage.wfb`, "cap":`seqCap`|null}
  {"op":"spec","stages":[S..],"n":N,"fuel":F}   the specification side (`seqSpec` on `SF.ofList` of the first N values)
      -> {"r":[[d,{ctx},stamp]..],"cf":clock,"fuelok":`seqFuelOKb` for F}
  {"op":"den","stages":[S..],"n":N}    list semantics (`seqDen`)
      -> {"r":[[d,{ctx}]..]}

  S = {"t":"map","f":F} | {"t":"filter","p":P} | {"t":"slice","start":i|null,"stop":i|null,"step":i|null}
    | {"t":"count","name":s,"c0":i} | {"t":"runif","p":P,"inner":[S..]}
    | {"t":"split","bufsize":n|null,"copy":bool,"branches":[B..]}   (bufsize as given to the constructor: the driver
      applies `effBufsize`; inside a branch also {"t":"cache"} and a nested split of stateless sequence branches)
  B = {"k":"seq","stages":[S..]} | {"k":"fc","pre":[E..],"name":s,"c0":i,"post":[S..]} | {"k":"src","m":n,"base":i}
    | {"k":"fr","pre":[E..],"stop":n|null,"post":[S..]}
      (the stages of a branch: map, filter, slice, runif — a Count only inside a runif)
  E = {"t":"map","f":F} | {"t":"filter","p":P} | {"t":"slice",..non-negative..} | {"t":"count","name":s,"c0":i}
  F = ["add",b] | ["mul",a] | ["id"];  P = ["mod",m,r] | ["lt",c] | ["ge",c] | ["all"] | ["none"]

  Where the flow comes from (`Model/C02Src.lean`):
    "head":{"parts":[n1,n2,..],"inf":bool} in a request: the input is the chain of instrumented iterables with n1,
      n2, .. values 0,1,2,.. (then an infinite one) — `Pipe.ofHead` instead of `Pipe.ofList`/`Pipe.ofFn`;
    B = {"k":"isrc","m":n|null,"base":i,"tf":F}: a `Source` with an instrumented flow of its own (m null: infinite)
      among the branches of a split: the stage becomes `[.plain (split with srcOps [marker]), .splice markV srcs]`.
    With either of them the request is evaluated with `xseqRun`/`xseqSpec`/`xseqDen`.
    "trunc":n in a spec request: every infinite flow (input, last iterable of the chain, Sources) cut after n values. -/
open Lean Lena.Drv Lena.C02

def fn? (j : Json) : Option Fn := do
  let a ← arr? j
  match str? (a.getD 0 Json.null), a.size with
  | some "add", 2 => (int? a[1]!).map Fn.add
  | some "mul", 2 => (int? a[1]!).map Fn.mul
  | some "id", _ => some .ident
  | _, _ => none

def pred? (j : Json) : Option Pred := do
  let a ← arr? j
  match str? (a.getD 0 Json.null), a.size with
  | some "mod", 3 => do
    let m ← nat? a[1]!
    let r ← int? a[2]!
    pure (.mod m r)
  | some "lt", 2 => (int? a[1]!).map Pred.lt
  | some "ge", 2 => (int? a[1]!).map Pred.ge
  | some "all", _ => some .all
  | some "none", _ => some .none
  | _, _ => none

def sliceKind? (j : Json) : Option Lena.C17.SliceKind :=
  match optInt (getD j "start"), optInt (getD j "stop"), optInt (getD j "step") with
  | some a, some b, some s => some (Lena.C17.mkSlice a b s)
  | _, _, _ => none

def preEl? (j : Json) : Option PreEl :=
  match str? (getD j "t") with
  | some "map" => (fn? (getD j "f")).map PreEl.map
  | some "filter" => (pred? (getD j "p")).map PreEl.filter
  | some "slice" =>
    match sliceKind? j with
    | some (.islice a b s) => some (.slice b s (Lena.C17.fillInit a))
    | _ => none
  | some "count" =>
    match str? (getD j "name"), int? (getD j "c0") with
    | some n, some c => some (.count n c)
    | _, _ => none
  | _ => none

instance : Inhabited CTree := ⟨.leaf⟩

mutual
/-- the element tree `_contains_cache` walks, from the descriptor of a stage -/
partial def cTree (j : Json) : CTree :=
  match str? (getD j "t") with
  | some "cache" => .cache
  | some "runif" => .seq (cTrees (getD j "inner"))
  | some "split" => .split ((arr? (getD j "branches")).getD #[] |>.toList.map branchTree)
  | _ => .leaf
partial def cTrees (j : Json) : List CTree := ((arr? j).getD #[]).toList.map cTree
/-- a converted branch: a `Sequence`/`FillComputeSeq` object (`_seq`: all its elements), or a `Source` -/
partial def branchTree (b : Json) : CTree :=
  match str? (getD b "k") with
  | some "seq" => .seq (cTrees (getD b "stages"))
  | some "fc" => .seq (cTrees (getD b "pre") ++ [.leaf] ++ cTrees (getD b "post"))
  | some "fr" => .seq (cTrees (getD b "pre") ++ [.leaf] ++ cTrees (getD b "post"))
  | _ => .seq []
end

def branchKind (b : Json) : Lena.C03.Kind :=
  match str? (getD b "k") with
  | some "fc" => .fillCompute
  | some "fr" => .fillRequest
  | some "src" => .source
  | some "isrc" => .source
  | _ => .sequence

mutual
/-- the initial counters (`count0`) of the `Count` elements of an inner sequence, depth first -/
partial def iInit (j : Json) : List Int :=
  match arr? j with
  | none => []
  | some a => a.toList.flatMap (fun e =>
      match str? (getD e "t") with
      | some "count" => [(int? (getD e "c0")).getD 0]
      | some "runif" => iInit (getD e "inner")
      | _ => [])
end

mutual
partial def iEl? (j : Json) : Option IEl :=
  match str? (getD j "t") with
  | some "map" => (fn? (getD j "f")).map IEl.map
  | some "filter" => (pred? (getD j "p")).map IEl.filter
  | some "slice" => (sliceKind? j).map IEl.slice
  | some "count" => (str? (getD j "name")).map IEl.count
  | some "cache" => some (.map .ident)          -- `Cache.run` without a cache file: the flow passes through
  | some "split" => (stage? j).map (fun st => IEl.opaque st.den)
  | some "runif" =>
    match pred? (getD j "p"), iEls? (getD j "inner") with
    | some p, some inner => some (.runif p inner)
    | _, _ => none
  | _ => none
partial def iEls? (j : Json) : Option (List IEl) := (arr? j).bind (fun a => a.toList.mapM iEl?)
partial def stage? (j : Json) : Option (Stage V) :=
  match str? (getD j "t") with
  | some "map" => (fn? (getD j "f")).map (fun f => Stage.map f.app)
  | some "filter" => (pred? (getD j "p")).map (fun p => Stage.filter p.eval)
  | some "slice" =>
    match sliceKind? j with
    | some (.islice a b s) => some (.islice a b s)
    | some (.negative a b s) => some (.negslice a b s)
    | _ => none
  | some "count" =>
    match str? (getD j "name"), int? (getD j "c0") with
    | some n, some c => some (.count (markCount n c))
    | _, _ => none
  | some "runif" =>
    match pred? (getD j "p"), iEls? (getD j "inner") with
    | some p, some inner =>
      some (.runIf (List Int) (iInit (getD j "inner")) p.eval (fun st v => iRun inner st [v]))
    | _, _ => none
  | some "split" =>
    let bs : Option (Option Nat) :=
      if (getD j "bufsize").isNull then some none else (nat? (getD j "bufsize")).map some
    match bs, bool? (getD j "copy"), (arr? (getD j "branches")).bind (fun a => a.toList.mapM branch?) with
    | some b, some c, some brs =>
      let bjs := ((arr? (getD j "branches")).getD #[]).toList
      -- a Source with an instrumented flow is represented by its marker: `spliceG` iterates it where it is reached
      let brs' := (List.range brs.length).zip (brs.zip bjs) |>.map (fun (i, br, bj) =>
        if str? (getD bj "k") == some "isrc" then { br with id := i, ops := srcOps [markerV i] } else { br with id := i })
      -- `Split.__init__`: a finite bufsize becomes None if a sequence-type branch contains a Cache
      let trees := ((arr? (getD j "branches")).getD #[]).toList.map (fun bj => (branchKind bj, branchTree bj))
      some (.split BrSt brs' (effBufsize b trees) c)
    | _, _, _ => none
  | _ => none

partial def stages? (j : Json) : Option (List (Stage V)) := (arr? j).bind (fun a => a.toList.mapM stage?)

partial def branch? (j : Json) : Option (Lena.C03.Branch BrSt V) :=
  match str? (getD j "k") with
  | some "seq" =>
    (iEls? (getD j "stages")).map (fun els =>
      { id := 0, kind := .sequence, ops := seqOps (fun cnts buf => iRun els cnts buf),
        st := { pre := [], count := 0, ctx := [], cnts := iInit (getD j "stages") } })
  | some "fc" =>
    match (arr? (getD j "pre")).bind (fun a => a.toList.mapM preEl?), str? (getD j "name"), int? (getD j "c0"),
        iEls? (getD j "post") with
    | some pre, some name, some c0, some post =>
      some { id := 0, kind := .fillCompute,
             ops := fcOps name (fun vs => (iRun post (iInit (getD j "post")) vs).1),
             st := { pre := pre, count := c0, ctx := [] } }
    | _, _, _, _ => none
  | some "fr" =>
    let stop : Option (Option Nat) :=
      if (getD j "stop").isNull then some none else (nat? (getD j "stop")).map some
    match (arr? (getD j "pre")).bind (fun a => a.toList.mapM preEl?), stop, iEls? (getD j "post") with
    | some pre, some stop, some post =>
      some { id := 0, kind := .fillRequest,
             ops := frOps stop (fun vs => (iRun post (iInit (getD j "post")) vs).1),
             st := { pre := pre, count := 0, ctx := [] } }
    | _, _, _ => none
  | some "src" =>
    match nat? (getD j "m"), int? (getD j "base") with
    | some m, some base =>
      some { id := 0, kind := .source,
             ops := srcOps ((List.range m).map (fun (i : Nat) => { d := base + (i : Int), ctx := [] })),
             st := { pre := [], count := 0, ctx := [] } }
    | _, _ => none
  | some "isrc" =>
    some { id := 0, kind := .source, ops := srcOps [markerV 0], st := { pre := [], count := 0, ctx := [] } }
  | _ => none
end

/-- the flow of a `Source` with an instrumented generator -/
def bsrc? (bj : Json) : Option (BSrc V) :=
  match str? (getD bj "k"), int? (getD bj "base"), fn? (getD bj "tf") with
  | some "isrc", some base, some f =>
    let v : Nat → V := fun i => f.app { d := base + (i : Int), ctx := [] }
    if (getD bj "m").isNull then some (.inf v) else (nat? (getD bj "m")).map (fun m => .fin ((List.range m).map v))
  | _, _, _ => none

/-- a stage descriptor as elements of a pipeline with Sources inside -/
def xstage? (j : Json) : Option (List (XStage V)) :=
  (stage? j).map (fun st =>
    let bjs := if str? (getD j "t") == some "split" then ((arr? (getD j "branches")).getD #[]).toList else []
    if bjs.any (fun bj => (bsrc? bj).isSome) then
      [.plain st, .splice markV (fun i => ((bjs[i]?).bind bsrc?).getD (.fin []))]
    else [.plain st])

def xstages? (j : Json) : Option (List (XStage V)) := ((arr? j).bind (fun a => a.toList.mapM xstage?)).map List.flatten

def XStage.isSplice : XStage V → Bool
  | .splice _ _ => true
  | _ => false

def mkV (i : Nat) : V := { d := (i : Int), ctx := [] }

/-- `"head"`: the chained iterables with their values numbered consecutively -/
def head? (j : Json) : Option (Head V) :=
  if (getD j "head").isNull then none
  else
    let h := getD j "head"
    let ns := ((arr? (getD h "parts")).getD #[]).toList.filterMap nat?
    let r := ns.foldl (fun (acc : List (List V) × Nat) n => (acc.1 ++ [(List.range n).map (fun i => mkV (acc.2 + i))], acc.2 + n)) ([], 0)
    some { parts := r.1, tail := if (bool? (getD h "inf")).getD false then some (fun i => mkV (r.2 + i)) else none }

def ctxJson (c : List (String × Int)) : Json := Json.mkObj (c.map (fun (k, v) => (k, ofInt v)))

def vJson (v : V) : Json := Json.arr #[ofInt v.d, ctxJson v.ctx]
def vcJson (p : V × Nat) : Json := Json.arr #[ofInt p.1.d, ctxJson p.1.ctx, ofNat p.2]

def endJson : Ending → Json
  | .stoppedByConsumer => "stopped"
  | .exhausted => "exhausted"
  | .fuel => "fuel"
  | .error .indexError => "error:IndexError"

def srcVals (n : Nat) : List V := (List.range n).map (fun (i : Nat) => { d := (i : Int), ctx := [] })

/-- requests about pipelines whose flow comes from chained iterables or which have Sources inside a Split -/
def handleX (j : Json) (xs : List (XStage V)) : Json :=
  let head := head? j
  let trunc := nat? (getD j "trunc")
  let nn : Option Nat := match nat? (getD j "n") with | some n => some n | none => trunc
  match str? (getD j "op") with
  | some "run" =>
    match nat? (getD j "k"), nat? (getD j "fuel") with
    | some k, some fu =>
      let src : Option (Pipe V) :=
        match head with
        | some h => some (Pipe.ofHead h)
        | none =>
          if (getD j "n").isNull then some (Pipe.ofFn mkV) else (nat? (getD j "n")).map (fun n => Pipe.ofList (srcVals n))
      match src with
      | some src =>
        let p := xseqRun xs src
        let r := p.take fu k
        Json.mkObj [("built", ofNat p.now), ("r", ofList vcJson r.1), ("end", endJson r.2.1), ("clock", ofNat r.2.2),
          ("wf", Json.bool (xs.all XStage.wfb)), ("cap", ofOpt ofNat (xseqCap xs))]
      | none => err "bad n"
    | _, _ => err "bad run args"
  | some "spec" =>
    let xs' := match trunc with | some n => xs.map (XStage.trunc n) | none => xs
    let sf0 : Option (SF V × Bool) :=
      match head with
      | some h =>
        let parts := match trunc with | some n => h.trunc n | none => h.parts
        some (SF.ofChain parts, decide (parts.length < (nat? (getD j "fuel")).getD 0))
      | none => nn.map (fun n => (SF.ofList (srcVals n), true))
    match sf0 with
    | some (sf0, ok) =>
      let sf := xseqSpec xs' sf0
      let fu := (nat? (getD j "fuel")).getD 0
      Json.mkObj [("r", ofList vcJson sf.vals), ("cf", ofNat sf.cf), ("fuelok", Json.bool (ok && xseqFuelOKb xs' sf0 fu))]
    | none => err "bad n"
  | some "den" =>
    match head, nat? (getD j "n") with
    | some h, _ => Json.mkObj [("r", ofList vJson (xseqDen xs h.parts.flatten))]
    | none, some n => Json.mkObj [("r", ofList vJson (xseqDen xs (srcVals n)))]
    | none, none => err "bad n"
  | _ => err "unknown op"

/-- requests about pipelines of streaming elements over one instrumented input (`Model/C02.lean`) -/
def handleOld (j : Json) : Json :=
  match str? (getD j "op"), stages? (getD j "stages") with
  | some "run", some stages =>
    match nat? (getD j "k"), nat? (getD j "fuel") with
    | some k, some fu =>
      let src : Option (Pipe V) :=
        if (getD j "n").isNull then some (Pipe.ofFn (fun (i : Nat) => { d := (i : Int), ctx := [] }))
        else (nat? (getD j "n")).map (fun n => Pipe.ofList (srcVals n))
      match src with
      | some src =>
        let p := seqRun stages src
        let r := p.take fu k
        Json.mkObj [("built", ofNat p.now), ("r", ofList vcJson r.1), ("end", endJson r.2.1), ("clock", ofNat r.2.2),
          ("wf", Json.bool (stages.all Stage.wfb)), ("cap", ofOpt ofNat (seqCap stages))]
      | none => err "bad n"
    | _, _ => err "bad run args"
  | some "spec", some stages =>
    match (match nat? (getD j "n") with | some n => some n | none => nat? (getD j "trunc")) with
    | some n =>
      let sf := seqSpec stages (SF.ofList (srcVals n))
      let fu := (nat? (getD j "fuel")).getD 0
      Json.mkObj [("r", ofList vcJson sf.vals), ("cf", ofNat sf.cf),
        ("fuelok", Json.bool (seqFuelOKb stages (SF.ofList (srcVals n)) fu))]
    | none => err "bad n"
  | some "den", some stages =>
    match nat? (getD j "n") with
    | some n => Json.mkObj [("r", ofList vJson (seqDen stages (srcVals n)))]
    | none => err "bad n"
  | _, none => err "bad stages"
  | _, _ => err "unknown op"

def handle (j : Json) : Json :=
  match xstages? (getD j "stages") with
  | some xs =>
    if !(getD j "head").isNull || xs.any XStage.isSplice then handleX j xs else handleOld j
  | none => handleOld j

def main : IO Unit := run handle
