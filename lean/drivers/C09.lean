import LenaModel.DriverUtil
import LenaModel.Model.C09
import LenaModel.Model.C09Spec
/-! Model driver for C09.  One request = one element and one history:
  {"el": EL, "ops": [OP, ...]}  ->  {"obs": [OBS, ...]} (+ "prec": n for dsum) | {"init_err": "LenaValueError"|...}
  EL:  {"k":"count","name":s,"count0":i} | {"k":"sum","total0":i} | {"k":"dsum","total0":[coef,exp]}
     | {"k":"mean","seq":b,"poe":b} | {"k":"meand","poe":b} (Mean(DSum()), data [m,e]) | {"k":"vmc","corrected":b,"poe":b} | {"k":"store","group":b} | {"k":"groupby"}
     | {"k":"vec","inner":EL(count|sum|mean|vmc|store),"list":b,"nseq":n,"dim":n|null,"mul":k|null}
     | {"k":"hist","edges":[i],"bins":[i]|null,"make_bins":[i]|null,"iv":i}
     | {"k":"graph","scale0":i|null,"sort":b,"reset_scale":b}
  OP:  {"o":"f","v":VALUE} | {"o":"c"} | {"o":"r"}
  VALUE: {"d":DATA,"c":{key:int|null}|null}   (+ "k": int, the group key, for groupby)
  DATA: int | [m,e] (dsum: m·2^e) | [ints] (vec) | [x,y] (graph)
  further EL: {"k":"histnd","edges":[i]|[[i]],"bins":NESTED|null,"make_bins":NESTED|null,"iv":i} (data int | [ints]),
     {"k":"meanover","inner":{"k":"sum","total0":i}|{"k":"count",..}|{"k":"storeitems"},"poe":b},
     {"k":"countrun","name":s,"count0":i} (extra OP {"o":"run","vs":[VALUE]} -> {"run":[OUT]}),
     vec: "construct": null|"variadic"|k, inner also {"k":"meand","poe":b} | {"k":"dsum"} (data [[m,e],..]);
     groupby VALUE "k": null = the key cannot be rendered;
     {"k":"vmcover","corrected":b,"poe":b,"sq0":i,"sm0":i} (VarianceMeanCount(Sum(sq0), Sum(sm0))),
     {"k":"tsum","total0":[i,b]} (the typed Sum: DATA [value, is-float]; the reply carries "typed": true)
  OBS: {"f":null|ERR} | {"c":[OUT,...]} | {"ce":ERR} | "r" -/
open Lean Lena.Drv Lena.C09

def errName : Err → String
  | .zeroDivision => "LenaZeroDivisionError"
  | .indexError => "Other:IndexError"
  | .runtimeError => "LenaRuntimeError"
  | .valueError => "LenaValueError"
  | .typeError => "LenaTypeError"
  | .lenaIndexError => "LenaIndexError"
  | .pyTypeError => "Other:TypeError"
  | .assertionError => "Other:AssertionError"
  | .unmodelled => "unmodelled"

def leafJ : Leaf → Json
  | none => Json.null
  | some i => ofInt i

def ctxJ (c : Ctx) : Json := Json.mkObj (c.map (fun kv => (kv.1, leafJ kv.2)))

def ctx? (j : Json) : Option (Option Ctx) :=
  if j.isNull then some none else
  match j with
  | .obj kvs => (kvs.toList.mapM (fun kv => (optInt kv.2).map (fun l => (kv.1, l)))).map some
  | _ => none

def itemJ {δ : Type} (f : δ → Json) (v : Item δ) : Json :=
  match v.ctx with
  | none => Json.mkObj [("d", f v.data)]
  | some c => Json.mkObj [("d", f v.data), ("c", ctxJ c)]

def item? {δ : Type} (f : Json → Option δ) (j : Json) : Option (Item δ) := do
  let d ← f (getD j "d")
  let c ← ctx? (getD j "c")
  pure ⟨d, c⟩

def ratJ (q : Rat) : Json := Json.arr #[ofInt q.num, ofNat q.den]
def decJ (d : Dec) : Json := Json.arr #[ofInt d.coef, ofInt d.exp]
def pair? (j : Json) : Option (Int × Int) :=
  match intList? j with
  | some [a, b] => some (a, b)
  | _ => none
def ptJ (p : Pt) : Json := Json.arr #[ofInt p.1, ofInt p.2]
def vmcJ (v : Vmc) : Json := Json.mkObj [("var", ratJ v.variance), ("mean", ratJ v.mean), ("count", ofNat v.count)]
def storedJ {ι : Type} (f : ι → Json) : Stored ι → Json
  | .group vs => Json.mkObj [("g", ofList f vs)]
  | .one v => f v
def histJ (h : Hist) : Json := Json.mkObj [("bins", ofIntList h.bins), ("n_out", ofInt h.nOut)]
def graphOutJ (g : GraphOut) : Json :=
  Json.mkObj [("pts", ofList ptJ g.points), ("scale", leafJ g.scale), ("c", ctxJ g.ctx)]


partial def narrJ : Lena.NArr Int → Json
  | .leaf i => ofInt i
  | .node xs => Json.arr (xs.map narrJ).toArray

partial def narr? (j : Json) : Option (Lena.NArr Int) :=
  match int? j with
  | some i => some (.leaf i)
  | none => match arr? j with
    | some a => (a.toList.mapM narr?).map Lena.NArr.node
    | none => none

def edges? (j : Json) : Option (Lena.C06.Edges Int) :=
  match intList? j with
  | some l => some (.flat l)
  | none => ((arr? j).bind (fun a => a.toList.mapM intList?)).map Lena.C06.Edges.nested

def coord? (j : Json) : Option (Lena.C06.Coord Int) :=
  match int? j with
  | some i => some (.scalar i)
  | none => (intList? j).map Lena.C06.Coord.tuple

def histNdJ (h : Lena.C06.Hist Int Int) : Json := Json.mkObj [("bins", narrJ h.bins), ("n_out", ofInt h.nOut)]

def dy? (j : Json) : Option Dy := (pair? j).map (fun p => (⟨p.1, p.2⟩ : Dy))
def dyList? (j : Json) : Option (List Dy) := (arr? j).bind (fun a => a.toList.mapM dy?)

def num? (j : Json) : Option Num :=
  match arr? j with
  | some a => match a.toList with
    | [v, f] => match int? v, bool? f with
      | some v, some f => some ⟨v, f⟩
      | _, _ => none
    | _ => none
  | none => none
def numJ (x : Num) : Json := Json.arr #[ofInt x.val, Json.bool x.isFloat]

def builtJ {ο : Type} (enc : ο → Json) : Built ο → Json
  | .made args => Json.mkObj [("made", ofList (ofOpt enc) args)]
  | .tuple row => ofList (ofOpt enc) row

def construct? (j : Json) : Option Construct :=
  if j.isNull then some .none
  else match str? j with
    | some "variadic" => some .variadic
    | _ => (nat? j).map Construct.arity

def parseOps {ι : Type} (dec : Json → Option ι) (ops : List Json) : Option (List (Op ι)) :=
  ops.mapM (fun j =>
    match str? (getD j "o") with
    | some "f" => (dec (getD j "v")).map Op.fill
    | some "c" => some Op.compute
    | some "r" => some Op.reset
    | _ => none)

def obsJ {ο : Type} (enc : ο → Json) : Obs ο → Json
  | .filled none => Json.mkObj [("f", Json.null)]
  | .filled (some e) => Json.mkObj [("f", errName e)]
  | .computed (.ok ys) => Json.mkObj [("c", ofList enc ys)]
  | .computed (.error e) => Json.mkObj [("ce", errName e)]
  | .wasReset => Json.str "r"

/-- run the history on the newly constructed element; `extra` shows more of the final state -/
def runM {σ ι ο : Type} (m : Machine σ ι ο) (dec : Json → Option ι) (enc : ο → Json)
    (ops : List Json) (extra : σ → List (String × Json) := fun _ => []) : Json :=
  match parseOps dec ops with
  | none => err "bad ops"
  | some h =>
    let r := m.run m.init h
    Json.mkObj ([("obs", ofList (obsJ enc) r.2)] ++ extra r.1)

/-- Vectorize around an inner machine (data of type `δ`, decoded by `decL`) -/
def runVecG {σ δ ο : Type} (m : Machine σ (Item δ) ο) (decL : Json → Option (List δ)) (enc : ο → Json)
    (el : Json) (ops : List Json) : Json :=
  match bool? (getD el "list"), nat? (getD el "nseq"),
      (if (getD el "dim").isNull then some none else (nat? (getD el "dim")).map some), construct? (getD el "construct") with
  | some isList, some nseq, some dim, some c =>
    match mkVectorizeDim isList nseq dim with
    | .error e => Json.mkObj [("init_err", errName e)]
    | .ok n =>
      -- the list form is `vectorizeLM` (exactly `n` components, also for the empty list)
      let vm := if isList then (vectorizeLM m (List.replicate n m.init)).mapOut (fun it => ⟨Vec.build c it.data, it.ctx⟩)
                else vectorizeCM m n c
      runM vm (item? decL) (itemJ (builtJ enc)) ops
  | _, _, _, _ => err "bad vec args"

/-- components over integers; "mul": k = every component is `FillComputeSeq(lambda x: k*x, inner)` -/
def runVec {σ ο : Type} (m : Machine σ (Item Int) ο) (enc : ο → Json) (el : Json) (ops : List Json) : Json :=
  let m := match int? (getD el "mul") with
    | some k => mapDataM (· * k) m
    | none => m
  runVecG m intList? enc el ops

/-- `Vectorize([Sum(), Count(), StoreFilled(False), …])`: a list of different components ("sum" / "count" / "store":
the last yields one value per fill, so the components yield different numbers of values) -/
def runVecHet (el : Json) (ops : List Json) : Json :=
  match (arr? (getD el "comps")).bind (fun a => a.toList.mapM (fun c => str? (getD c "k"))), construct? (getD el "construct") with
  | some kinds, some c =>
    let cfg : CountCfg := ⟨"count", 0⟩
    let m := orM (sumM 0) (orM (countM Int cfg) storeItemsM)
    let inits := kinds.map (fun k =>
      if k == "sum" then Sum.inl (sumM 0).init
      else if k == "count" then Sum.inr (Sum.inl (countM Int cfg).init)
      else Sum.inr (Sum.inr storeItemsM.init))
    let enc : (Item Int ⊕ (Item Int ⊕ Item Int)) → Json := fun o =>
      match o with | .inl x => itemJ ofInt x | .inr (.inl x) => itemJ ofInt x | .inr (.inr x) => itemJ ofInt x
    runM ((vectorizeLM m inits).mapOut (fun it => ⟨Vec.build c it.data, it.ctx⟩)) (item? intList?) (itemJ (builtJ enc)) ops
  | _, _ => err "bad vechet args"

/-- `Vectorize(Vectorize(Sum(), idim), dim)`: a component whose `fill` can raise (a short inner vector) -/
def runVecNested (el : Json) (ops : List Json) : Json :=
  match nat? (getD (getD el "inner") "dim") with
  | some idim =>
    let enc : Item (List (Option (Item Int))) → Json := itemJ (ofList (ofOpt (itemJ ofInt)))
    runVecG (vectorizeM (sumM 0) idim) (fun j => (arr? j).bind (fun a => a.toList.mapM intList?)) enc el ops
  | none => err "bad nested vec args"

/-- `Mean(sum_seq)` around an arbitrary sum sequence -/
def runMeanOver (el : Json) (ops : List Json) : Json :=
  let inner := getD el "inner"
  match bool? (getD el "poe") with
  | none => err "bad meanover args"
  | some poe =>
    match str? (getD inner "k") with
    | some "sum" =>
      match int? (getD inner "total0") with
      | some t => runM (meanOverM (sumM t) poe) (item? int?) (itemJ ratJ) ops
      | none => err "bad meanover sum"
    | some "count" =>
      match str? (getD inner "name"), int? (getD inner "count0") with
      | some n, some c => runM (meanOverM (countM Int ⟨n, c⟩) poe) (item? int?) (itemJ ratJ) ops
      | _, _ => err "bad meanover count"
    | some "storeitems" => runM (meanOverM storeItemsM poe) (item? int?) (itemJ ratJ) ops
    | some "storetag" => runM (meanOverM storeTagM poe) (item? int?) (itemJ ratJ) ops
    | _ => err "unknown sum sequence"

/-- Count driven by `run(flow)` as well as fill / compute / reset: {"o":"run","vs":[VALUE,..]} -> {"run":[OUT,..]} -/
def runCountRun (cfg : CountCfg) (ops : List Json) : Json :=
  let m := countM Int cfg
  let step := fun (acc : Option (CountSt × List Json)) (j : Json) =>
    match acc with
    | none => none
    | some (s, out) =>
      match str? (getD j "o") with
      | some "run" =>
        match (arr? (getD j "vs")).bind (fun a => a.toList.mapM (item? int?)) with
        | some vs => let r := Count.run cfg s vs; some (r.1, out ++ [Json.mkObj [("run", ofList (itemJ ofInt) r.2)]])
        | none => none
      | some "fi" =>
        (item? int? (getD j "v")).map (fun v => let r := Count.fillInto cfg s v; (r.1, out ++ [Json.mkObj [("fi", itemJ ofInt r.2)]]))
      | some "f" => (item? int? (getD j "v")).map (fun v => let r := m.step s (.fill v); (r.1, out ++ [obsJ (itemJ ofInt) r.2]))
      | some "c" => let r := m.step s .compute; some (r.1, out ++ [obsJ (itemJ ofInt) r.2])
      | some "r" => let r := m.step s .reset; some (r.1, out ++ [obsJ (itemJ ofInt) r.2])
      | _ => none
  match ops.foldl step (some (m.init, [])) with
  | none => err "bad countrun ops"
  | some (_, out) => Json.mkObj [("obs", Json.arr out.toArray)]

/-- a context with nested dictionaries: `{key: int | null | {…}}` -/
partial def nvalJ : NVal → Json
  | .leaf l => leafJ l
  | .dict items => Json.mkObj (items.map (fun kv => (kv.1, nvalJ kv.2)))

def nctxJ (c : NCtx) : Json := Json.mkObj (c.map (fun kv => (kv.1, nvalJ kv.2)))

partial def nval? (j : Json) : Option NVal :=
  match j with
  | .obj kvs => (kvs.toList.mapM (fun kv => (nval? kv.2).map (fun x => (kv.1, x)))).map NVal.dict
  | _ => (optInt j).map NVal.leaf

def nctx? (j : Json) : Option NCtx :=
  match nval? j with
  | some (.dict items) => some items
  | _ => none

/-- the specification vocabulary of the theorems (`Model/C09Spec.lean`), executed on the harness's inputs -/
def handleSpec (j : Json) : Json :=
  let items? (k : String) : Option (List (Item Int)) := (arr? (getD j k)).bind (fun a => a.toList.mapM (item? int?))
  match str? (getD j "spec") with
  | some "stats" =>
    match items? "vs" with
    | none => err "bad stats"
    | some vs =>
      let xs := vs.map (·.data)
      let n := vs.length
      let dev : Json := if n == 0 then Json.null else ratJ (sqDev ((isum xs : Rat) / (n : Rat)) xs)
      Json.mkObj [("ctxAfter", ctxJ (ctxAfter [] vs)), ("dataSum", ofInt (dataSum vs)), ("dataSumSq", ofInt (dataSumSq vs)),
        ("isum", ofInt (isum xs)), ("isumSq", ofInt (isumSq xs)), ("sqDev", dev),
        ("bareCtx", ctxJ (ctxAfter [("x", some 1)] (bare vs))), ("bareSum", ofInt (dataSum (bare vs))),
        ("bareSqSum", ofInt (dataSum (bareSq vs))), ("bareSqCtx", ctxJ (ctxAfter [("x", some 1)] (bareSq vs)))]
  | some "tstats" =>
    match (arr? (getD j "vs")).bind (fun a => a.toList.mapM (item? num?)) with
    | some vs =>
      Json.mkObj [("numSum", ofInt (numSum vs)), ("anyFloat", Json.bool (anyFloat vs)),
        ("erased", ofList (itemJ ofInt) (eraseNum vs))]
    | none => err "bad tstats"
  | some "keys" =>
    match intList? (getD j "ks"), int? (getD j "probe") with
    | some ks, some probe =>
      let st := (groupByM Int Nat).fillAll [] (ks.zipIdx)
      Json.mkObj [("firstKeys", ofIntList (firstKeys ks)), ("lookup", ofList ofNat (groupLookup st probe))]
    | _, _ => err "bad keys"
  | some "vec" =>
    match (arr? (getD j "rows")).bind (fun a => a.toList.mapM intList?), nat? (getD j "i") with
    | some rows, some i =>
      let vs : List (Item (List Int)) := rows.map (fun r => ⟨r, none⟩)
      let fe := firstErr (rows.map (fun r => if r.isEmpty then (Except.error Err.zeroDivision : Except Err (List Int)) else .ok r))
      Json.mkObj [("column", ofIntList ((column i vs).map (·.data))),
        ("zip", ofList (ofList (ofOpt ofInt)) (zipLongest rows)),
        ("firstErr", match fe with | .error e => Json.str (errName e) | .ok yss => ofList ofIntList yss)]
    | _, _ => err "bad vec spec"
  | some "bins" =>
    let optList (x : Json) : Option (Option (List Int)) := if x.isNull then some none else (intList? x).map some
    match intList? (getD j "edges"), intList? (getD j "xs"), nat? (getD j "n"), nat? (getD j "j"),
        optList (getD j "bins"), optList (getD j "make_bins"), int? (getD j "iv") with
    | some es, some xs, some n, some jj, some b, some mb, some iv =>
      Json.mkObj [("idx", ofIntList (xs.map (binIndex es))),
        ("in", ofList (fun x => Json.bool (inBin es jj ⟨x, none⟩)) xs),
        ("out", ofList (fun x => Json.bool (outOfRange es n ⟨x, none⟩)) xs),
        ("initBins", ofIntList (HistCfg.initBins ⟨es, b, mb, iv⟩))]
    | _, _, _, _, _, _, _ => err "bad bins spec"
  | some "dsum" =>
    match (arr? (getD j "vs")).bind (fun a => a.toList.mapM dy?) with
    | some ds =>
      let vs : List (Item Dy) := ds.map (fun d => ⟨d, some [("a", some 1)]⟩)
      Json.mkObj [("dySum", ratJ (dySum vs)), ("bareSum", ratJ (dySum (bareDy vs))),
        ("dec", ofList (fun d => ratJ (Dec.ofDy d).toRat) ds), ("dy", ofList (fun d => ratJ d.toRat) ds)]
    | none => err "bad dsum spec"
  | some "ctxadd" =>
    -- `decimal.Context(prec, traps=[Inexact]).add(a, b)`: the value, or Inexact
    match pair? (getD j "a"), pair? (getD j "b"), nat? (getD j "prec") with
    | some a, some b, some p =>
      match ctxAdd p ⟨a.1, a.2⟩ ⟨b.1, b.2⟩ with
      | some r => Json.mkObj [("r", ratJ r.toRat)]
      | none => Json.mkObj [("inexact", Json.bool true)]
    | _, _, _ => err "bad ctxadd spec"
  | some "histel" =>
    let optN (x : Json) : Option (Option (Lena.NArr Int)) := if x.isNull then some none else (narr? x).map some
    match edges? (getD j "edges"), optN (getD j "bins"), int? (getD j "iv"),
        (arr? (getD j "vs")).bind (fun a => a.toList.mapM (item? coord?)) with
    | some edges, some bins, some iv, some vs =>
      match Lena.C06.HistEl.new ([] : Ctx) edges bins iv with
      | .error e => Json.mkObj [("e", errName (ofLenaErr e))]
      | .ok e0 =>
        match Lena.C06.HistEl.fillAll ([] : Ctx) (1 : Int) e0 (toC06 vs) with
        | .error e => Json.mkObj [("e", errName (ofLenaErr e))]
        | .ok e => Json.mkObj [("bins", narrJ e.hist.bins), ("n_out", ofInt e.hist.nOut), ("c", ctxJ e.curContext)]
    | _, _, _, _ => err "bad histel spec"
  | some "nset" =>
    -- {"c": nested context, "name": s, "v": i}: `c.update({name: v})`, `update_recursively(c, name, v)`, and the
    -- flat `Ctx.set` (what the model of Count does) on the top level of `c` with opaque values
    match nctx? (getD j "c"), str? (getD j "name"), int? (getD j "v") with
    | some c, some name, some v =>
      Json.mkObj [("set", nctxJ (c.set name (.leaf (some v)))),
        ("path", match c.updateRecursivelyStr name (some v) with
          | .ok d => nctxJ d
          | .error e => Json.mkObj [("e", errName e)]),
        ("parts", Json.arr ((name.splitOn ".").map Json.str).toArray),
        ("flat", match ctx? (getD j "flat") with
          | some (some f) => nctxJ (f.set name (some v)).toN
          | _ => Json.null)]
    | _, _, _ => err "bad nset spec"
  | _ => err "unknown spec"

def handle (j : Json) : Json :=
  if !(getD j "spec").isNull then handleSpec j else
  let el := getD j "el"
  match arr? (getD j "ops") with
  | none => err "no ops"
  | some opsA =>
  let ops := opsA.toList
  match str? (getD el "k") with
  | some "count" =>
    match str? (getD el "name"), int? (getD el "count0") with
    | some n, some c => runM (countM Int ⟨n, c⟩) (item? int?) (itemJ ofInt) ops
    | _, _ => err "bad count args"
  | some "sum" =>
    match int? (getD el "total0") with
    | some t => runM (sumM t) (item? int?) (itemJ ofInt) ops
    | _ => err "bad sum args"
  | some "tsum" =>
    -- the typed Sum: numbers are [value, is it a float?]
    match num? (getD el "total0") with
    | some t => runM (tsumM t) (item? num?) (itemJ numJ) ops (fun _ => [("typed", Json.bool true)])
    | _ => err "bad tsum args"
  | some "dsum" =>
    match pair? (getD el "total0") with
    | some (c, e) =>
      -- "total0" is the number given to `DSum(total)` as m·2^e: `Decimal(total)` is `Dec.ofDy`
      runM (dsumM (Dec.ofDy ⟨c, e⟩)) (item? (fun j => (pair? j).map (fun p => (⟨p.1, p.2⟩ : Dy)))) (itemJ decJ) ops
        (fun s => [("prec", ofNat s.prec)])
    | _ => err "bad dsum args"
  | some "mean" =>
    match bool? (getD el "seq"), bool? (getD el "poe") with
    | some a, some b => runM (meanM ⟨a, b⟩) (item? int?) (itemJ ratJ) ops
    | _, _ => err "bad mean args"
  | some "vmc" =>
    match bool? (getD el "corrected"), bool? (getD el "poe") with
    | some a, some b => runM (vmcM ⟨a, b⟩) (item? int?) (itemJ vmcJ) ops
    | _, _ => err "bad vmc args"
  | some "vmcover" =>
    -- `VarianceMeanCount(Sum(sq0), Sum(sm0), corrected, pass_on_empty)`
    match bool? (getD el "corrected"), bool? (getD el "poe"), int? (getD el "sq0"), int? (getD el "sm0") with
    | some a, some b, some sq0, some sm0 => runM (vmcOverM (sumM sq0) (sumM sm0) ⟨a, b⟩) (item? int?) (itemJ vmcJ) ops
    | _, _, _, _ => err "bad vmcover args"
  | some "meand" =>
    match bool? (getD el "poe") with
    | some b => runM (meanDM b) (item? (fun j => (pair? j).map (fun p => (⟨p.1, p.2⟩ : Dy)))) (itemJ ratJ) ops
    | _ => err "bad meand args"
  | some "store" =>
    match bool? (getD el "group") with
    | some g => runM (storeFilledM (Item Int) g) (item? int?) (storedJ (itemJ ofInt)) ops
    | _ => err "bad store args"
  | some "groupby" =>
    runM (groupByOptM Int (Item Int)) (fun v => do
      let k ← optInt (getD v "k")        -- null: the key cannot be rendered (`to_string` raises)
      let it ← item? int? v
      pure (k, it)) (storedJ (itemJ ofInt)) ops
  | some "vec" =>
    let inner := getD el "inner"
    match str? (getD inner "k") with
    | some "count" =>
      match str? (getD inner "name"), int? (getD inner "count0") with
      | some n, some c => runVec (countM Int ⟨n, c⟩) (itemJ ofInt) el ops
      | _, _ => err "bad inner count args"
    | some "sum" =>
      match int? (getD inner "total0") with
      | some t => runVec (sumM t) (itemJ ofInt) el ops
      | _ => err "bad inner sum args"
    | some "mean" =>
      match bool? (getD inner "seq"), bool? (getD inner "poe") with
      | some a, some b => runVec (meanM ⟨a, b⟩) (itemJ ratJ) el ops
      | _, _ => err "bad inner mean args"
    | some "vmc" =>
      match bool? (getD inner "corrected"), bool? (getD inner "poe") with
      | some a, some b => runVec (vmcM ⟨a, b⟩) (itemJ vmcJ) el ops
      | _, _ => err "bad inner vmc args"
    | some "store" =>
      match bool? (getD inner "group") with
      | some g => runVec (storeFilledM (Item Int) g) (storedJ (itemJ ofInt)) el ops
      | _ => err "bad inner store args"
    | some "meand" =>
      match bool? (getD inner "poe") with
      | some b => runVecG (meanDM b) dyList? (itemJ ratJ) el ops
      | _ => err "bad inner meand args"
    | some "dsum" => runVecG (dsumM ⟨0, 0⟩) dyList? (itemJ decJ) el ops
    | some "vecsum" => runVecNested el ops
    | _ => err "unknown inner element"
  | some "vechet" => runVecHet el ops
  | some "hist" =>
    let optList (j : Json) : Option (Option (List Int)) := if j.isNull then some none else (intList? j).map some
    match intList? (getD el "edges"), optList (getD el "bins"), optList (getD el "make_bins"), int? (getD el "iv") with
    | some edges, some bins, some mb, some iv =>
      let cfg : HistCfg := ⟨edges, bins, mb, iv⟩
      match Histogram.new cfg with
      | .error e => Json.mkObj [("init_err", errName e)]
      | .ok s0 => runM (histogramM cfg s0) (item? int?) (itemJ histJ) ops
    | _, _, _, _ => err "bad hist args"
  | some "histnd" =>
    let optN (j : Json) : Option (Option (Lena.NArr Int)) := if j.isNull then some none else (narr? j).map some
    match edges? (getD el "edges"), optN (getD el "bins"), optN (getD el "make_bins"), int? (getD el "iv") with
    | some edges, some bins, some mb, some iv =>
      let cfg : HistNdCfg := ⟨edges, bins, mb, iv⟩
      match HistogramNd.new cfg with
      | .error e => Json.mkObj [("init_err", errName e)]
      | .ok s0 => runM (histogramNdM cfg s0) (item? coord?) (itemJ histNdJ) ops
    | _, _, _, _ => err "bad histnd args"
  | some "meanover" => runMeanOver el ops
  | some "countrun" =>
    match str? (getD el "name"), int? (getD el "count0") with
    | some n, some c => runCountRun ⟨n, c⟩ ops
    | _, _ => err "bad countrun args"
  | some "graph" =>
    match optInt (getD el "scale0"), bool? (getD el "sort"), bool? (getD el "reset_scale") with
    | some sc, some so, some rs =>
      let pts0 := if (getD el "points0").isNull then some [] else (arr? (getD el "points0")).bind (fun a => a.toList.mapM pair?)
      match pts0, ctx? (getD el "context0") with
      | some pts, some c0 =>
        if pts.isEmpty && c0.isNone then runM (graphM ⟨sc, so, rs⟩) (item? pair?) graphOutJ ops
        else
          -- `Graph(points, context, scale, sort)`
          match Graph.new ⟨sc, so, rs⟩ pts (c0.getD []) with
          | .error e => Json.mkObj [("init_err", errName e)]
          | .ok s0 => runM (graphFromM ⟨sc, so, rs⟩ s0) (item? pair?) graphOutJ ops
      | _, _ => err "bad graph init args"
    | _, _, _ => err "bad graph args"
  | _ => err "unknown element"

def main : IO Unit := run handle
