import LenaModel.DriverUtil
import LenaModel.Model.Val
import LenaModel.Model.C13
/-! Model driver for C13.  Keys are numbered by the case's sorted key alphabet `names`; contexts travel as
JSON objects (a leaf is an int or a string; `null` = the unmodelled rendering of a dictionary).
Request:
  {"op":"build","names":[..],"out":[output,filename,prefix,suffix,dirname,fileext slots],"tree":T,"flow":[ctx|null (bare data),..]|null,
   "src":[ctx,..],"redeliver":[ctx,..] (optional)}
  T ::= {"k":"seq","kind":"Sequence"|"Source","c":[T..]} | {"k":"split","c":[T..]}
      | {"k":"set","key":[slots],"val":leaf|ctx (a dictionary constant)|null,"tpl":TPL|null} | {"k":"store"|"ucfs"|"data"|"src"}
      | {"k":"mut","key":[slots],"val":leaf}
      | {"k":"write"|"cache","tpl":TPL}
      | {"k":"mkf","methods":[["prefix"|"suffix"|"filename"|"dirname"|"fileext",TPL],..],"overwrite":bool}
  TPL ::= [lit0, [slots of field 1], lit1, …]
Reply: {"nodes":[per node in document order: {"k":..,"get":ctx|{"e":key}} (set, seq, split),
  {"k":..,"seen":ctx} (store, ucfs, mkf), {"name":str|null-if-unformatted} (mkf: the `output` dictionary it gives to
  `(0, {})`; write, cache)], "fold":ctx|{"e":key} (the specification fold of the whole tree),
  (compact: "closed"/"closed_at" are null and an entry of "spec" is "=" when equal to "nodes")
  "closed": the same records for the closed form `final t [{}]`, "closed_at": per node the record of
  `final s (histOfCone (cone t p) [{}])` (both must equal "nodes" on every case — `build_eq_final`, `final_at`),
  "spec":[per node: the same record predicted by `ctxAt`/`leafFinal`/`fold`, or null where the prefix of the node
  has an unresolved key], "toks":[per node: the token `tokOf t p` of the dictionary object handed to it,
  [[path], tag]], "redelivered": null | {"nodes": records after `setCtx` with each context of "redeliver" in turn,
  "raised": per context the key of the LenaKeyError that `_set_context` raised, or null, "covers": `covers t c` for the
  last context `c`, "final_last": null, or (if `covers` and different — `reuse_memoryless` refuted) the records of
  `final t [c]`}, "cones":[per node: [["seq", number of earlier children] | ["split"], ..]],
  "out":{"r":[[data,ctx],..] (`run` on the built state), "ref": `runRef`, "plain": `runPlain`,
  "no_consumer": bool, "linear": `St.linear`, "itemwise": the concatenation of `run` on the one-value flows}
  |{"unmodelled":true}|null} -/
open Lean Lena Lena.Drv Lena.Val Lena.C13

def leafJson : Leaf → Json
  | .int i => ofInt i
  | .str s => Json.str s
  | .bad => Json.null

partial def ctxJson (names : Array String) (c : Ctx) : Json :=
  Json.mkObj ((c.zipIdx.filterMap fun (x, i) =>
    match x with
    | none => none
    | some (.leaf l) => some (names.getD i ("#" ++ toString i), leafJson l)
    | some (.dict d) => some (names.getD i ("#" ++ toString i), ctxJson names d)))

partial def toCtx (names : Array String) (j : Json) : Option Ctx :=
  match j with
  | .obj kvs =>
    let slots := names.toList.map fun nm =>
      match kvs.get? nm with
      | none => some none
      | some (.str s) => some (some (Val.leaf (Leaf.str s)))
      | some (.obj o) => (toCtx names (.obj o)).map fun d => some (Val.dict d)
      | some v => (int? v).map fun i => some (Val.leaf (Leaf.int i))
    if kvs.toList.all (fun kv => names.contains kv.1) then slots.mapM id else none
  | _ => none

def natList? (j : Json) : Option (List Nat) := do
  let a ← arr? j
  a.toList.mapM nat?

def toTpl (j : Json) : Option Tpl := do
  let a ← arr? j
  match a.toList with
  | [] => none
  | h :: rest =>
    let head ← str? h
    let rec go : List Json → Option (List (List Nat × String))
      | [] => some []
      | [_] => none
      | p :: l :: r => do
        let p' ← natList? p
        let l' ← str? l
        let r' ← go r
        pure ((p', l') :: r')
    let parts ← go rest
    pure { head := head, parts := parts }

def toLeaf (j : Json) : Option Leaf :=
  match j with
  | .str s => some (.str s)
  | _ => (int? j).map Leaf.int

partial def toTree (names : Array String) (j : Json) : Option Tree := do
  let k ← str? (getD j "k")
  match k with
  | "seq" =>
    let cs ← (← arr? (getD j "c")).toList.mapM (toTree names)
    let kind ← match str? (getD j "kind") with
      | some "Sequence" => some Kind.sequence
      | some "Source" => some Kind.source
      | _ => none
    pure (.seq kind cs)
  | "split" =>
    let cs ← (← arr? (getD j "c")).toList.mapM (toTree names)
    pure (.split cs)
  | "set" =>
    match ← natList? (getD j "key") with
    | [] => none
    | k0 :: ks =>
      if (getD j "tpl").isNull then
        match getD j "val" with
        | .obj o => do
          -- a dictionary constant: `SetContext("k", {...})`
          let d ← toCtx names (.obj o)
          pure (.leaf (.set k0 ks (.dictv d)))
        | v => do
          let l ← toLeaf v
          pure (.leaf (.set k0 ks (.const l)))
      else do
        let t ← toTpl (getD j "tpl")
        pure (.leaf (.set k0 ks (.tpl t)))
  | "store" => pure (.leaf .store)
  | "ucfs" => pure (.leaf .ucfs)
  | "data" => pure (.leaf .data)
  | "mut" =>
    match ← natList? (getD j "key") with
    | [] => none
    | k0 :: ks => do
      let l ← toLeaf (getD j "val")
      pure (.leaf (.mut k0 ks l))
  | "src" => pure (.leaf .src)
  | "mkf" => do
    let ms ← (← arr? (getD j "methods")).toList.mapM fun (x : Json) => do
      let a ← arr? x
      let key ← match (a[0]?).bind str? with
        | some "prefix" => some MkfKey.pfx
        | some "suffix" => some MkfKey.sfx
        | some "filename" => some MkfKey.filename
        | some "dirname" => some MkfKey.dirname
        | some "fileext" => some MkfKey.fileext
        | _ => none
      let t ← toTpl (a[1]?.getD Json.null)
      pure (key, t)
    let ow ← bool? (getD j "overwrite")
    pure (.leaf (.mkf { methods := ms, overwrite := ow }))
  | "write" => do pure (.leaf (.write (← toTpl (getD j "tpl"))))
  | "cache" => do pure (.leaf (.cache (← toTpl (getD j "tpl"))))
  | _ => none

def resJson (names : Array String) : Except Nat Ctx → Json
  | .ok c => ctxJson names c
  | .error e => Json.mkObj [("e", Json.str (names.getD e ("#" ++ toString e)))]

def nameJson : Option Leaf → Json
  | none => Json.mkObj [("unformatted", Json.bool true)]
  | some l => leafJson l

partial def observe (n : Nat) (names : Array String) (ok : OutKeys) : St → List Json
  | .set _ _ _ sc => [Json.mkObj [("k", "set"), ("get", resJson names sc.get)]]
  | .store c => [Json.mkObj [("k", "store"), ("seen", ctxJson names c)]]
  | .ucfs c => [Json.mkObj [("k", "ucfs"), ("seen", ctxJson names c)]]
  | .mkf t c =>
    let nm : Json := match mkfCall n ok t c (Val.empty n) with
      | none => Json.str "?unmodelled"
      | some x =>
        match getSlot x ok.output with
        | some (.dict o) => ctxJson names o
        | _ => Json.mkObj []
    [Json.mkObj [("k", "mkf"), ("seen", ctxJson names (c.getD (Val.empty n))), ("name", nm)]]
  | .write _ nm => [Json.mkObj [("k", "write"), ("name", nameJson nm)]]
  | .cache _ nm => [Json.mkObj [("k", "cache"), ("name", nameJson nm)]]
  | .data => [Json.mkObj [("k", "data")]]
  | .mut .. => [Json.mkObj [("k", "mut")]]
  | .src => [Json.mkObj [("k", "src")]]
  | .seq kind cs sc =>
    Json.mkObj [("k", "seq"), ("get", resJson names (getCtx n (.seq kind cs sc)))] ::
      (cs.map (observe n names ok)).flatten
  | .split bs =>
    Json.mkObj [("k", "split"), ("get", resJson names (getCtx n (.split bs)))] ::
      (bs.map (observe n names ok)).flatten

/-- the paths of all nodes in document order -/
partial def allPaths : Tree → List (List Nat)
  | t => [] :: ((t.children.zipIdx.map fun (c, i) => (allPaths c).map (i :: ·)).flatten)

/-- the specification's prediction for the node at `p`: what the element holds if the one top-down fold
delivers a context to it (`ctxAt`, `leafFinal`, `fold`), `null` if the statement defines nothing -/
def specObs (n : Nat) (names : Array String) (ok : OutKeys) (t : Tree) (p : List Nat) : Json :=
  match t.at? p, ctxAt n t p (Val.empty n) with
  | some (.leaf e), some x => (observe n names ok (leafFinal n e x)).headD Json.null
  | some (.seq kind cs), some x => Json.mkObj [("k", "seq"), ("get", resJson names (fold n (.seq kind cs) x))]
  | some (.split bs), some x => Json.mkObj [("k", "split"), ("get", resJson names (fold n (.split bs) x))]
  | _, _ => Json.null

/-- the closed form evaluated locally: the record of the node at `p` in `final s (histOfCone (cone t p) [{}])`
(what `final_at` and `build_eq_final` say the object at `p` is) -/
def closedAt (n : Nat) (names : Array String) (ok : OutKeys) (t : Tree) (p : List Nat) : Json :=
  match t.at? p, cone t p with
  | some s, some k => (observe n names ok (final n s (histOfCone n k [Val.empty n]))).headD Json.null
  | _, _ => Json.null

def coneJson (t : Tree) (p : List Nat) : Json :=
  match cone t p with
  | none => Json.null
  | some k => ofList (fun (st : ConeStep) => match st with
      | .seq earlier => Json.arr #[Json.str "seq", ofNat earlier.length]
      | .split => Json.arr #[Json.str "split"]) k

def flowJson (names : Array String) (r : List Item) : Json :=
  ofList (fun (it : Item) => Json.arr #[ofInt it.1, match it.2 with
    | some c => ctxJson names c
    | none => Json.null]) r

def tokJson (t : Tree) (p : List Nat) : Json :=
  match tokOf t p with
  | none => Json.null
  | some (q, tag) => Json.arr #[ofList ofNat q, ofNat tag]

def toFlow (names : Array String) (j : Json) : Option (List Item) := do
  let a ← arr? j
  let cs ← a.toList.mapM fun (x : Json) => if x.isNull then some none else (toCtx names x).map some
  pure (cs.zipIdx.map fun (c, i) => ((i : Int), c))

def handle (j : Json) : Json :=
  match str? (getD j "op") with
  | some "build" =>
    match (arr? (getD j "names")).bind (fun a => a.toList.mapM str?), natList? (getD j "out"),
        ((arr? (getD j "names")).bind (fun a => a.toList.mapM str?)).bind
          (fun nl => toTree nl.toArray (getD j "tree")) with
    | some nl, some [o, f, p, s, dn, fe], some t =>
      let names := nl.toArray
      let n := names.size
      let ok : OutKeys := { output := o, filename := f, pfx := p, sfx := s, dirname := dn, fileext := fe }
      let st := build n t
      let out : Json :=
        if (getD j "flow").isNull then Json.null
        else
          match toFlow names (getD j "flow"), toFlow names (getD j "src") with
          | some fl, some src =>
            match run n ok src st fl with
            | some r => Json.mkObj [("r", flowJson names r),
                ("ref", match runRef n ok src t (Val.empty n) fl with
                  | some r' => flowJson names r'
                  | none => Json.null),
                ("plain", flowJson names (runPlain n src t fl)), ("no_consumer", Json.bool t.noConsumer),
                ("linear", Json.bool st.linear),
                ("itemwise", match fl.foldl (fun acc it => appendOpt acc (run n ok src st [it])) (some []) with
                  | some r' => flowJson names r'
                  | none => Json.null)]
            | none => Json.mkObj [("unmodelled", Json.bool true)]
          | _, _ => err "bad flow"
      let paths := allPaths t
      let nodes := observe n names ok st
      -- `top._set_context(c)` for the contexts of "redeliver", one after the other, on the constructed program
      let redelivered : Json :=
        match (arr? (getD j "redeliver")).bind (fun a => a.toList.mapM (toCtx names)) with
        | none => Json.null
        | some cs =>
          let (stR, raised) := cs.foldl (fun (acc : St × List Json) c =>
            let r := setCtx n acc.1 c
            (r.1, acc.2 ++ [match r.2 with
              | some e => Json.str (names.getD e ("#" ++ toString e))
              | none => Json.null])) (st, [])
          -- `covers` for the last delivered context, and (when it holds) the state `final t [c]` that
          -- `reuse_memoryless` says the objects are in: `null` = equal to the records of the protocol
          let obsR := observe n names ok stR
          let (cov, fin) : Bool × Json := match cs.getLast? with
            | none => (false, Json.null)
            | some c =>
              let cv := covers n t c
              let f := observe n names ok (final n t [c])
              (cv, if cv && f != obsR then Json.arr f.toArray else Json.null)
          Json.mkObj [("nodes", Json.arr obsR.toArray), ("raised", Json.arr raised.toArray),
                      ("covers", Json.bool cov), ("final_last", fin)]
      -- replies are compact: `null` / "=" stand for "equal to the record in nodes"
      let closed := observe n names ok (final n t [Val.empty n])
      let closedAtL := paths.map (closedAt n names ok t)
      let spec := (paths.map (specObs n names ok t)).zip nodes |>.map fun (sp, nd) =>
        if sp == nd then Json.str "=" else sp
      Json.mkObj [("nodes", Json.arr nodes.toArray),
                  ("spec", Json.arr spec.toArray),
                  ("closed", if closed == nodes then Json.null else Json.arr closed.toArray),
                  ("closed_at", if closedAtL == nodes then Json.null else Json.arr closedAtL.toArray),
                  ("cones", ofList (coneJson t) paths),
                  ("toks", ofList (tokJson t) paths),
                  ("no_bad", Json.bool st.noBad),
                  ("vals_wf", Json.bool (t.valsWF n)),
                  ("redelivered", redelivered),
                  ("fold", resJson names (fold n t (Val.empty n))), ("out", out)]
    | _, _, _ => err "bad build args"
  | _ => err "unknown op"

def main : IO Unit := run handle
