import LenaModel.DriverUtil
import LenaModel.Model.C19
import LenaModel.Model.C19Spec
import LenaModel.Model.C19Ext
/-! Model driver for C19 (contents = `Content`, converters = `stubConv`).  Requests:

  {"op":"mf","args":MF,"name":s|null,"out":O}                      -> {"out":O,"modified":b} | {"e":E,"phase":"init"}
  {"op":"wmf","outdir":s,"out":O}                                  -> {"r":[dirname,filename,fileext,filepath]} | {"e":E}
  {"op":"write","outdir":s,"mode":M,"world":W,"watch":[p],"data":D,"out":O}
  {"op":"latex","overwrite":b,"world":W,"watch":[p],"data":D,"out":O}
  {"op":"png","overwrite":b,"format":s,"world":W,"watch":[p],"data":D,"out":O}
        -> {"files":{p:F|null},"log":[..],"vals":[{"data":D,"out":O}]} | {"e":E}
  {"op":"latexrun","overwrite":b,"verbose":n,"world":W,"watch":[p],"vals":[{"data":D,"out":O,"ok":b,"fin":n}]}
        LaTeXToPDF.run on a flow: per launch whether the command succeeds and after how many polls it is seen terminated
  {"op":"winit","eu":b,"ow":b}                                     -> {"mode":M} | {"e":E}
  {"op":"gp","ms":[b|null]}                                        -> {"changed":b}
  {"op":"uwg","ctx":O,"new":[O],"old":O}                           -> {"out":O}
  {"op":"hist","reuse":b,"watch":[p],"steps":[{"del":[p],"run":R}]} -> {"runs":[{"files":..,"log":..,"vals":..} | {"e":E}]}
        (reuse: one pipeline object for all runs; R then carries "tplm", the modification time of the template file)
  {"op":"render","tpl":n,"data":D,"out":O,"group":[O]|null}          -> {"vals":[{"data":D,"out":O,"group":..}]}   RenderLaTeX.run on one value
  {"op":"render2","tpls":[[t,m],..]}                               -> {"r":[t..]}  templates rendered by ONE RenderLaTeX

  {"op":"mfseq","args":MF,"static":s|null,"vals":[{"name":s|null,"out":O}]} -> {"outs":[{"out":O,"modified":b}]} | {"e":E,"phase":"init"}
        ONE MakeFilename object with a static context called for the values one after the other (mfObjRun)
  {"op":"renderflow","default":s,"runs":[{"dir":{name:[t,m]},"flow":[{"ft":s|null,"path":p,"tpl":s|null}]}]}
        -> {"runs":[{"vals":[CT|null]} | {"e":E}]}   ONE RenderLaTeX object, several runs (renderRun; null: passed unchanged)
  {"op":"tocsv","dup":b,"header":s|null,"flow":[{"to_csv":b|null,"ctx_dup":b|null,"edges":[i],"bins":[i]}]}
        -> {"outs":[null | {"header":s|null,"rows":[[x,b]]}]}   ONE ToCSV object on a flow of 1-dim histograms (toCsvRun)
  "latexrun" values may carry "rc":i (return code of the launch) instead of "ok" (schedOfRc);
  R may carry "static":s|null (the Sequence has the static context {"name": s}: runSpecStatic)

  O = {"filename","dirname","fileext","filetype","prefix","suffix","filepath","changed"} (null = absent)
  MF = {"filename","dirname","fileext","prefix","suffix": T|null, "overwrite":b}; T = [s|null] (null = {{name}})
  M = "normal"|"eu"|"ow";  D = {"text":CT} | {"path":p} | {"many":[p]} | {"writer":CT};  "write" also takes "nowrite":b
  W = {"files":[{"p":p,"c":CT,"m":n}],"clock":n};  F = {"c":CT,"w":b} (w: written during this request)
  CT = {"csv":n} | {"tex":n,"deps":[p]} | {"raw":s} | {"pdf":[CT,[CT|null]]} | {"png":CT}
  R = {"outdir","w1","w2","lo","po","mf","gmf","layout":"separate"|"group","tpl":n,"plots":[{"name":s|null,"data":n}]} -/
open Lean Lena.Drv Lena.C19

def optStr? (j : Json) : Option (Option String) := if j.isNull then some none else (str? j).map some
def optBool? (j : Json) : Option (Option Bool) := if j.isNull then some none else (bool? j).map some
def strList? (j : Json) : Option (List String) := do
  let a ← arr? j
  a.toList.mapM str?

def ofOptStr (s : Option String) : Json := ofOpt Json.str s
def ofOptBool (s : Option Bool) : Json := ofOpt Json.bool s

def outCtx? (j : Json) : Option OutCtx := do
  if j.isNull then return {}
  let fn ← optStr? (getD j "filename")
  let dn ← optStr? (getD j "dirname")
  let fe ← optStr? (getD j "fileext")
  let ft ← optStr? (getD j "filetype")
  let p ← optStr? (getD j "prefix")
  let s ← optStr? (getD j "suffix")
  let fp ← optStr? (getD j "filepath")
  let ch ← optBool? (getD j "changed")
  return { filename := fn, dirname := dn, fileext := fe, filetype := ft, pfx := p, sfx := s, filepath := fp, changed := ch }

def ofOutCtx (o : OutCtx) : Json :=
  Json.mkObj [("filename", ofOptStr o.filename), ("dirname", ofOptStr o.dirname), ("fileext", ofOptStr o.fileext),
    ("filetype", ofOptStr o.filetype), ("prefix", ofOptStr o.pfx), ("suffix", ofOptStr o.sfx),
    ("filepath", ofOptStr o.filepath), ("changed", ofOptBool o.changed)]

def tpl? (j : Json) : Option Tpl := do
  let a ← arr? j
  a.toList.mapM fun x => if x.isNull then some Piece.var else (str? x).map Piece.lit

def optTpl? (j : Json) : Option (Option Tpl) := if j.isNull then some none else (tpl? j).map some

def mfArgs? (j : Json) : Option MFArgs := do
  let fn ← optTpl? (getD j "filename")
  let dn ← optTpl? (getD j "dirname")
  let fe ← optTpl? (getD j "fileext")
  let p ← optTpl? (getD j "prefix")
  let s ← optTpl? (getD j "suffix")
  let ow ← bool? (getD j "overwrite")
  return { filename := fn, dirname := dn, fileext := fe, pfx := p, sfx := s, overwrite := ow }

def excName : Exc → String
  | .lenaRuntimeError => "LenaRuntimeError"
  | .lenaTypeError => "LenaTypeError"
  | .lenaValueError => "LenaValueError"
  | .fileNotFoundError => "Other:FileNotFoundError"
  | .assertionError => "Other:AssertionError"
  | .indexError => "Other:IndexError"
  | .outsideModel => "outside-model"

def ofExc (e : Exc) : Json := Json.mkObj [("e", excName e)]

partial def content? (j : Json) : Option Content :=
  match (j.getObjVal? "csv").toOption with
  | some d => (nat? d).map Content.csv
  | none =>
    match (j.getObjVal? "tex").toOption with
    | some t => do
      let t ← nat? t
      let deps ← strList? (getD j "deps")
      return Content.tex t deps
    | none =>
      match (j.getObjVal? "raw").toOption with
      | some s => (str? s).map Content.raw
      | none =>
        match (j.getObjVal? "png").toOption with
        | some p => (content? p).map Content.png
        | none =>
          match (j.getObjVal? "pdf").toOption with
          | some p => do
            let a ← arr? p
            let t ← content? (a.getD 0 Json.null)
            let ds ← arr? (a.getD 1 Json.null)
            let ds ← ds.toList.mapM fun x => if x.isNull then some (none : Option Content) else (content? x).map some
            return Content.pdf t (Content.ofList ds)
          | none => none

partial def ofContent : Content → Json
  | .csv d => Json.mkObj [("csv", ofNat d)]
  | .tex t deps => Json.mkObj [("tex", ofNat t), ("deps", ofList Json.str deps)]
  | .raw s => Json.mkObj [("raw", s)]
  | .png p => Json.mkObj [("png", ofContent p)]
  | .pdf t ds => Json.mkObj [("pdf", Json.arr #[ofContent t, Json.arr (depList ds).toArray])]
  | .missing => Json.null
  | .nil => Json.mkObj [("nil", Json.null)]
  | .cons a b => Json.mkObj [("cons", Json.arr #[ofContent a, ofContent b])]
where
  depList : Content → List Json
    | .cons a b => ofContent a :: depList b
    | _ => []

def mode? (j : Json) : Option WMode :=
  match str? j with
  | some "normal" => some .normal
  | some "eu" => some .existingUnchanged
  | some "ow" => some .overwrite
  | _ => none

def ofMode : WMode → Json
  | .normal => "normal"
  | .existingUnchanged => "eu"
  | .overwrite => "ow"

def world? (j : Json) : Option (World Content) := do
  let fs ← arr? (getD j "files")
  let clock ← nat? (getD j "clock")
  let files ← fs.toList.mapM fun f => do
    let p ← str? (getD f "p")
    let c ← content? (getD f "c")
    let m ← nat? (getD f "m")
    return (p, (⟨c, m⟩ : File Content))
  return { fs := files.foldl (fun acc pf => acc.set pf.1 pf.2) FS.empty, clock := clock, log := [] }

def data? (j : Json) : Option (Data Content) :=
  match (j.getObjVal? "text").toOption with
  | some c => (content? c).map Data.text
  | none =>
    match (j.getObjVal? "path").toOption with
    | some p => (str? p).map Data.path
    | none =>
      match (j.getObjVal? "writer").toOption with
      | some c => (content? c).map Data.writer
      | none => (strList? (getD j "many")).map Data.many

def ofData : Data Content → Json
  | .text c => Json.mkObj [("text", ofContent c)]
  | .path p => Json.mkObj [("path", p)]
  | .many ps => Json.mkObj [("many", ofList Json.str ps)]
  | .writer c => Json.mkObj [("writer", ofContent c)]

def ofEvent : Event → Json
  | .write p => Json.arr #["write", p]
  | .latex p => Json.arr #["latex", p]
  | .topng p => Json.arr #["topng", p]

def ofVal (v : Val Content) : Json :=
  Json.mkObj [("data", ofData v.data), ("out", ofOutCtx v.out), ("name", ofOptStr v.name),
    ("group", ofOpt (ofList ofOutCtx) v.group)]

/-- files at the watched paths; `w` = written since the clock was `clock0` -/
def dumpFiles (watch : List String) (w : World Content) (clock0 : Nat) : Json :=
  Json.mkObj (watch.map fun p =>
    (p, match w.fs p with
        | none => Json.null
        | some f => Json.mkObj [("c", ofContent f.content), ("w", decide (clock0 ≤ f.mtime))]))

/-- the paths a log speaks about (files written, outputs of the converters) -/
def pathsOfLog (log : List Event) : List String :=
  log.flatMap fun e => match e with
    | .write p => [p]
    | .latex t => [t, pdfPathOf t]
    | .topng p => [p, pngPathOf p "png", pngPathOf p "jpeg"]

def ofResult (watch : List String) (clock0 : Nat) (w : World Content) (vs : List (Val Content)) : Json :=
  Json.mkObj [("files", dumpFiles (watch ++ pathsOfLog w.log).eraseDups w clock0), ("log", ofList ofEvent w.log),
    ("vals", ofList ofVal vs)]

def plot? (j : Json) : Option Plot := do
  let n ← optStr? (getD j "name")
  let d ← nat? (getD j "data")
  return { name := n, data := d }

def runSpec? (j : Json) : Option RunSpec := do
  let outdir ← str? (getD j "outdir")
  let w1 ← mode? (getD j "w1")
  let w2 ← mode? (getD j "w2")
  let lo ← bool? (getD j "lo")
  let po ← bool? (getD j "po")
  let mf ← mfArgs? (getD j "mf")
  let gmf ← mfArgs? (getD j "gmf")
  let layout ← match str? (getD j "layout") with
    | some "separate" => some Layout.separate
    | some "group" => some Layout.group
    | some "scalars" => some Layout.scalars
    | _ => none
  let tpl ← nat? (getD j "tpl")
  let pls ← arr? (getD j "plots")
  let pls ← pls.toList.mapM plot?
  return { cfg := { outdir := outdir, w1 := w1, w2 := w2, lo := lo, po := po, mf := mf, gmf := gmf },
           layout := layout, tpl := tpl, plots := pls }

/-- the static context of the run's `Sequence` (`"static"`, absent = none) -/
def static? (j : Json) : Option String := str? (getD j "static")

/-- the run as the `MakeFilename`s see it: plots named through the static context where they have no name -/
def withStaticOf (rj : Json) (r : RunSpec) : RunSpec :=
  match static? rj with
  | some s => { r with plots := r.plots.map (Plot.withStatic (some s)) }
  | none => r

/-- the specification side of one run (`Model/C19Spec.lean`): the resolved units, `SourceClosed` of every unit at
the start, `UnitFresh` of every unit at the end, and whether `specRun` (names first, then the bookkeeping
`sepCore` / `grpCore`) ends in the same world as the element-by-element pipeline -/
def specJson (watch : List String) (w0 w' : World Content) (r : RunSpec) : Json :=
  match runUnits r with
  | .error e => Json.mkObj [("e", excName e)]
  | .ok us =>
    let ofUnit (u : FUnit) : Json := Json.arr #[ofList Json.str u.csvs, u.tex, u.pdf, u.png]
    let etex (u : FUnit) : Content := effective r.cfg.w2 (w0.fs u.tex) (stubConv.texOf r.tpl u.csvs)
    let fresh : List Bool := match r.layout with
      | .separate => (us.zip r.plots).map fun (u, pl) =>
          unitFreshB stubConv u w'.fs
            (u.csvs.map fun pc => effective r.cfg.w1 (w0.fs pc) (stubConv.csvOf pl.data)) (etex u)
      | .group => us.map fun u =>
          unitFreshB stubConv u w'.fs
            ((u.csvs.zip r.plots).map fun (pc, pl) => effective r.cfg.w1 (w0.fs pc) (stubConv.csvOf pl.data)) (etex u)
      | .scalars => []
    let agrees := match specRun stubConv w0 r with
      | .ok ws => worldAgree (watch ++ us.flatMap FUnit.paths) ws w'
      | .error _ => false
    Json.mkObj [("units", ofList ofUnit us), ("closed", ofList Json.bool (us.map fun u => sourceClosedB u w0.fs)),
      ("fresh", ofList Json.bool fresh), ("agrees", agrees)]

/-- a history: every step first deletes the files of its "del" (if any) and then runs its "run" (if any);
the reply lists one entry per run.  With `reuse` one pipeline object (state `st`) serves all runs and the
template comes from the template file ("tpl", "tplm" = its modification time) through the object's cache;
otherwise every run builds a new pipeline. -/
def histLoop (reuse : Bool) (watch : List String) : PipeState → World Content → List Json → List Json →
    Option (List Json × Option (World Content × List String))
  | _, w, [], acc => some (acc.reverse, some (w, watch))
  | st, w, s :: rest, acc =>
    let dels := match (s.getObjVal? "del").toOption with
      | some ps => strList? ps
      | none => some []
    match dels with
    | none => none
    | some ps =>
      let w := step stubConv w (.del ps)
      match (s.getObjVal? "run").toOption with
      | none => histLoop reuse watch st w rest acc
      | some rj =>
        match runSpec? rj with
        | none => none
        | some r =>
          let w0 : World Content := { w with log := [] }
          let f : TplFile := ⟨r.tpl, (nat? (getD rj "tplm")).getD 0⟩
          let interrupted := (bool? (getD s "interrupt")).getD false
          let late : List Bool := ((arr? (getD s "late")).map fun a => a.toList.map fun x => (bool? x).getD false).getD []
          let st0 : PipeState := if reuse then st else {}
          let res : Except Exc (World Content × List (Val Content) × PipeState) :=
            if interrupted then
              -- Ctrl-C while LaTeXToPDF waits (`runSpecI`); the template comes through the cache as in `runObject`
              let g := getTemplate st0 f
              match runSpecI stubConv w0 { r with tpl := g.1 } late with
              | .error e => .error e
              | .ok (w', vs) => .ok (w', vs, if r.plots.isEmpty then st0 else g.2)
            else
              match static? rj with
              | some sname =>
                -- a Sequence with a static context (`runSpecStatic`); the template comes through the cache as in `runObject`
                let g := getTemplate st0 f
                match runSpecStatic stubConv w0 (some sname) { r with tpl := g.1 } with
                | .error e => .error e
                | .ok (w', vs) => .ok (w', vs, if r.plots.isEmpty then st0 else g.2)
              | none => runObject stubConv st0 w0 r f
          match res with
          | .error e => some ((ofExc e :: acc).reverse, none)  -- the history stops at an exception
          | .ok (w', vs, st') =>
            let watch' := (watch ++ pathsOfLog w'.log).eraseDups
            let r' : RunSpec := withStaticOf rj { r with tpl := (getTemplate (if reuse then st else {}) f).1 }
            let out := (ofResult watch' w0.clock w' vs).setObjVal! "spec"
              (if interrupted then Json.null else specJson watch' w0 w' r')
            histLoop reuse watch' st' w' rest (out :: acc)

/-- the history as steps of the life of one pipeline object (`OStep`): an `edit` wherever the modification time of
the template file moves on; `none` if a step is interrupted (not expressible) -/
def ostepsOf : Nat → List Json → Option (List OStep)
  | _, [] => some []
  | m, s :: rest =>
    if (bool? (getD s "interrupt")).getD false then none
    else
      let dels : List OStep := match (s.getObjVal? "del").toOption.bind strList? with
        | some ps => [.del ps]
        | none => []
      match (s.getObjVal? "run").toOption with
      | none => (ostepsOf m rest).map (dels ++ ·)
      | some rj =>
        match runSpec? rj with
        | none => none
        | some r =>
          let m' := (nat? (getD rj "tplm")).getD 0
          let ed : List OStep := if m' = m then [] else [.edit r.tpl]
          (ostepsOf m' rest).map (dels ++ ed ++ [.run (withStaticOf rj r)] ++ ·)

/-- file systems agree on the paths, clocks agree (the logs of `exec`/`oexec` run over the whole history) -/
def fsAgree (paths : List String) (a b : World Content) : Bool :=
  decide (a.clock = b.clock) && paths.all fun p => decide (a.fs p = b.fs p)

/-- `get_template` called for a sequence of states of the template file by one RenderLaTeX object -/
def renderSeq : PipeState → List (Nat × Nat) → List Nat
  | _, [] => []
  | st, (t, m) :: rest => let g := getTemplate st ⟨t, m⟩; g.1 :: renderSeq g.2 rest

def handle (j : Json) : Json :=
  let watch := (strList? (getD j "watch")).getD []
  match str? (getD j "op") with
  | some "mf" =>
    match mfArgs? (getD j "args"), optStr? (getD j "name"), outCtx? (getD j "out") with
    | some a, some n, some o =>
      match mfInit a with
      | .error e => Json.mkObj [("e", excName e), ("phase", "init")]
      | .ok ms =>
        let r := mfCall a.overwrite ms n o
        Json.mkObj [("out", ofOutCtx r.1), ("modified", r.2)]
    | _, _, _ => err "bad mf args"
  | some "mfw" =>
    -- `Sequence(MakeFilename(args), Write(outdir))` on one value: the names, then the path (seed round K)
    match mfArgs? (getD j "args"), optStr? (getD j "name"), outCtx? (getD j "out"), str? (getD j "outdir") with
    | some a, some n, some o, some d =>
      match mfInit a with
      | .error e => Json.mkObj [("e", excName e), ("phase", "init")]
      | .ok ms =>
        match mfWritePath a.overwrite ms n d o with
        | .error e => ofExc e
        | .ok (a, b, c, p) => Json.mkObj [("r", ofList Json.str [a, b, c, p])]
    | _, _, _, _ => err "bad mfw args"
  | some "wmf" =>
    match str? (getD j "outdir"), outCtx? (getD j "out") with
    | some d, some o =>
      match wMakeFilename d "output" o with
      | .error e => ofExc e
      | .ok (a, b, c, p) => Json.mkObj [("r", ofList Json.str [a, b, c, p])]
    | _, _ => err "bad wmf args"
  | some "winit" =>
    match bool? (getD j "eu"), bool? (getD j "ow") with
    | some eu, some ow =>
      match writeInit eu ow with
      | .error e => ofExc e
      | .ok m => Json.mkObj [("mode", ofMode m)]
    | _, _ => err "bad winit args"
  | some "write" =>
    match str? (getD j "outdir"), mode? (getD j "mode"), world? (getD j "world"), data? (getD j "data"),
          outCtx? (getD j "out") with
    | some d, some m, some w, some dt, some o =>
      match writeVal stubConv d m w { data := dt, name := none, out := o, group := none,
                                      noWrite := (bool? (getD j "nowrite")).getD false } with
      | .error e => ofExc e
      | .ok (w', v) => ofResult watch w.clock w' [v]
    | _, _, _, _, _ => err "bad write args"
  | some "latex" =>
    match bool? (getD j "overwrite"), world? (getD j "world"), data? (getD j "data"), outCtx? (getD j "out") with
    | some ow, some w, some dt, some o =>
      match latexVal stubConv ow w { data := dt, name := none, out := o, group := none } with
      | .error e => ofExc e
      | .ok (w', ov) => ofResult watch w.clock w' ov.toList
    | _, _, _, _ => err "bad latex args"
  | some "latexrun" =>
    match bool? (getD j "overwrite"), nat? (getD j "verbose"), world? (getD j "world"), arr? (getD j "vals") with
    | some ow, some vb, some w, some vals =>
      let flow := vals.toList.mapM fun x => do
        let dt ← data? (getD x "data")
        let o ← outCtx? (getD x "out")
        let fin ← nat? (getD x "fin")
        let sc ← match int? (getD x "rc") with
          | some rc => some (schedOfRc rc fin)
          | none => (bool? (getD x "ok")).map fun ok => ({ ok := ok, fin := fin } : Sched)
        pure (({ data := dt, name := none, out := o, group := none } : Val Content), sc)
      match flow with
      | none => err "bad latexrun vals"
      | some flow =>
        match latexRun stubConv ow vb w [] flow with
        | .error e => ofExc e
        | .ok (w', vs) =>
          -- the reference without a pool (`latexRunSeq`, the other side of `latexRun_yields_iff_ok`)
          let seqOk := match latexRunSeq stubConv ow w flow with
            | .ok (w2, vs2) => worldAgree (watch ++ pathsOfLog w'.log) w' w2 && decide (vs.length = vs2.length) &&
                vs.all (fun v => vs2.any fun v2 => dataPath v == dataPath v2 && decide (v.out = v2.out))
            | .error _ => false
          (ofResult watch w.clock w' vs).setObjVal! "seq_agrees" seqOk
    | _, _, _, _ => err "bad latexrun args"
  | some "png" =>
    match bool? (getD j "overwrite"), str? (getD j "format"), world? (getD j "world"), data? (getD j "data"),
          outCtx? (getD j "out") with
    | some ow, some f, some w, some dt, some o =>
      match pngVal stubConv ow f w { data := dt, name := none, out := o, group := none } with
      | .error e => ofExc e
      | .ok (w', v) => ofResult watch w.clock w' [v]
    | _, _, _, _, _ => err "bad png args"
  | some "render" =>
    match nat? (getD j "tpl"), data? (getD j "data"), outCtx? (getD j "out") with
    | some t, some dt, some o =>
      let g := if (getD j "group").isNull then some none
               else ((arr? (getD j "group")).bind fun a => a.toList.mapM outCtx?).map some
      match g with
      | some g => Json.mkObj [("vals", ofList ofVal [renderVal stubConv t { data := dt, name := none, out := o, group := g }])]
      | none => err "bad render group"
    | _, _, _ => err "bad render args"
  | some "render2" =>
    match (arr? (getD j "tpls")).bind (fun a => a.toList.mapM fun x =>
        match arr? x with
        | some p => (nat? (p.getD 0 Json.null)).bind fun t => (nat? (p.getD 1 Json.null)).map fun m => (t, m)
        | none => none) with
    | some fs => Json.mkObj [("r", ofList ofNat (renderSeq {} fs))]
    | none => err "bad render2 args"
  | some "wdir" =>
    match tpl? (getD j "dir"), (arr? (getD j "statics")).bind (fun a => a.toList.mapM optStr?), outCtx? (getD j "out") with
    | some t, some statics, some o =>
      let dir := statics.foldl (fun cur st => writeDirSet t st cur) (writeDirInit t)
      match wMakeFilename dir "output" o with
      | .error e => ofExc e
      | .ok (a, b, c, p) => Json.mkObj [("dir", dir), ("r", ofList Json.str [a, b, c, p])]
    | _, _, _ => err "bad wdir args"
  | some "seltpl" =>
    let on (x : Json) : Option (Option Nat) := if x.isNull then some none else (nat? x).map some
    match on (getD j "ctx"), on (getD j "default") with
    | some c, some d =>
      match selectTemplate c d with
      | .error e => ofExc e
      | .ok t => Json.mkObj [("tpl", ofNat t)]
    | _, _ => err "bad seltpl args"
  | some "mgmulti" =>
    match outCtx? (getD j "ctx"), (arr? (getD j "cols")).bind (fun a => a.toList.mapM fun c =>
        (arr? c).bind fun b => b.toList.mapM outCtx?), outCtx? (getD j "old") with
    | some o, some cols, some old => Json.mkObj [("outs", ofList ofOutCtx (mapGroupOuts o cols old))]
    | _, _, _ => err "bad mgmulti args"
  | some "mglen" =>
    match nat? (getD j "ndata"), nat? (getD j "ngroup") with
    | some a, some b =>
      match mapGroupGuard a b with
      | .error e => ofExc e
      | .ok _ => Json.mkObj [("ok", true)]
    | _, _ => err "bad mglen args"
  | some "gp" =>
    match (arr? (getD j "ms")).bind (fun a => a.toList.mapM optBool?) with
    | some ms => Json.mkObj [("changed", groupPlotsChanged ms)]
    | none => err "bad gp args"
  | some "uwg" =>
    match outCtx? (getD j "ctx"), (arr? (getD j "new")).bind (fun a => a.toList.mapM outCtx?), outCtx? (getD j "old") with
    | some o, some ns, some old => Json.mkObj [("out", ofOutCtx (updateWithGroup o ns old))]
    | _, _, _ => err "bad uwg args"
  | some "mfseq" =>
    match mfArgs? (getD j "args"), (arr? (getD j "vals")).bind (fun a => a.toList.mapM fun x =>
        (optStr? (getD x "name")).bind fun n => (outCtx? (getD x "out")).map fun o => (n, o)) with
    | some a, some vals =>
      match mfInit a with
      | .error e => Json.mkObj [("e", excName e), ("phase", "init")]
      | .ok ms =>
        let rs := mfObjRun { overwrite := a.overwrite, ms := ms, static := static? j } vals
        Json.mkObj [("outs", ofList (fun (r : OutCtx × Bool) => Json.mkObj [("out", ofOutCtx r.1), ("modified", r.2)]) rs)]
    | _, _ => err "bad mfseq args"
  | some "renderflow" =>
    match str? (getD j "default"), arr? (getD j "runs") with
    | some dflt, some runs =>
      let dirOf (d : Json) : TplDir := fun name =>
        match arr? (getD d name) with
        | some p => (nat? (p.getD 0 Json.null)).bind fun t => (nat? (p.getD 1 Json.null)).map fun m => (⟨t, m⟩ : TplFile)
        | none => none
      let flowOf (fl : Json) : Option (List (Val Content × Option String)) :=
        (arr? fl).bind fun a => a.toList.mapM fun x => do
          let ft ← optStr? (getD x "ft")
          let p ← str? (getD x "path")
          let ct ← optStr? (getD x "tpl")
          pure (({ data := .path p, name := none, out := { filetype := ft, filepath := some p }, group := none } : Val Content), ct)
      let rec go (st : EnvState) (rs : List Json) (acc : List Json) : List Json :=
        match rs with
        | [] => acc.reverse
        | r :: rest =>
          match flowOf (getD r "flow") with
          | none => (err "bad renderflow flow" :: acc).reverse
          | some flow =>
            match renderRun stubConv dflt (dirOf (getD r "dir")) st flow with
            | .error e => (ofExc e :: acc).reverse          -- the object is not used after an exception
            | .ok (vs, st') =>
              let one (v : Val Content) : Json := match v.data with
                | .text c => ofContent c
                | _ => Json.null
              go st' rest (Json.mkObj [("vals", ofList one vs)] :: acc)
      Json.mkObj [("runs", Json.arr (go {} runs.toList []).toArray)]
    | _, _ => err "bad renderflow args"
  | some "tocsv" =>
    match bool? (getD j "dup"), optStr? (getD j "header"), (arr? (getD j "flow")).bind (fun a => a.toList.mapM fun x => do
        let tc ← optBool? (getD x "to_csv")
        let cd ← optBool? (getD x "ctx_dup")
        let edges ← intList? (getD x "edges")
        let bins ← intList? (getD x "bins")
        pure (tc, cd, edges, bins)) with
    | some dup, some header, some flow =>
      let one : CsvOut → Json
        | .passed => Json.null
        | .csv h rows => Json.mkObj [("header", ofOptStr h), ("rows", ofList (fun (r : Int × Int) => ofIntList [r.1, r.2]) rows)]
      Json.mkObj [("outs", ofList one (toCsvRun { dup := dup, header := header } flow))]
    | _, _, _ => err "bad tocsv args"
  | some "hist" =>
    match arr? (getD j "steps") with
    | some steps =>
      let reuse := (bool? (getD j "reuse")).getD false
      match histLoop reuse watch {} World.init steps.toList [] with
      | some (rs, fin) =>
        -- the history layer of the theorems, executed: `oexec` (one object for all runs) and `exec` of
        -- `freshHistory` (new objects for every run) must end in the file system of the run-by-run loop
        let agree : Json := match fin, ostepsOf 0 steps.toList with
          | some (w, paths), some os =>
            let wo := (oexec stubConv ⟨World.init, {}, ⟨0, 0⟩⟩ os).w
            let wf := exec stubConv World.init (freshHistory 0 os)
            Json.bool ((!reuse || fsAgree paths w wo) && fsAgree paths w wf && (reuse || fsAgree paths w wf))
          | _, _ => Json.null
        Json.mkObj [("runs", Json.arr rs.toArray), ("history_layer_agrees", agree)]
      | none => err "bad hist step"
    | none => err "bad hist args"
  | _ => err "unknown op"

def main : IO Unit := run handle
