import LenaModel.DriverUtil
import LenaModel.Bridge.Split
/-! Executable cross-check of the bridge `LenaModel/Bridge/Split.lean`: evaluates, on one input, the
independent Lean transcriptions of `Split.run` that the bridge theorems relate, each on the input translated
by the bridge's own maps (`toSplit`, `frBranch`, `embedSplit`/`canon`).  `harness/props/bridge_split.py` compares
all of them with each other and with the real code.

Requests (one JSON object per line):

  {"op":"fc","branches":[[S..]..],"bufsize":n|null,"copy_buf":bool,"flow":[ints]}
      S = {"k":"call","f":"inc"|"neg"|"mod3"|"ident"|"wrap"|"boom"} | {"k":"filter","p":"even"|"pos"|"lt5"|"all"|"none"}
        | {"k":"slice","args":[a|null, b|null, s|null]} | {"k":"acc","a":"sum"|"mean"} | {"k":"acc","a":"store","group":bool}
      -> {"e":exc}  (a constructor raises)
       | {"c05":{"r":[[i,v]..],"t":exc|null},          `C05.splitRunTagged`
          "c03":[[i,v]..],                              `tagOuts (C03.Split.runTrace (toSplit cs …))`   (theorem c05_split_agrees / _prefix)
          "c03x":{"r":[[i,v]..],"t":exc|null},          `C03.SplitX.run (toSplitX cs …)`: values and exception   (theorem c05_split_agreesX)
          "sfill":{"c05":{"r":[v..],"t":..},"c03":[v..]},  Split driven by fill+compute: `C05.splitFillRun` / `C03.splitFillAll`+`splitCompute` (c05_splitFillRun_agrees)
          "fill":[{"c05":{"r":[v..],"t":..},"c03":[v..]}..]}   per branch: `C05.fillRun` / `C03.fillBuf`+compute (c05_fillRun_agrees)
  {"op":"fr","brs":[{"tag":t,"N":n,"rst":b,"bi":b,"yor":b}..],"m":n|null,"copy_buf":bool,"xs":[ints]}
      every branch: `FillRequest(Rec(tag), bufsize=N, reset=rst, buffer_input=bi, buffer_output=not bi, yield_on_remainder=yor)`
      -> {"c03":[[ints]..],                             `C03.Split.run` on the `frBranch`es
          "by_branch":[[[ints]..]..],                   `C03.outputsOf i`
          "c16":[[[ints]..]..]}                         `C16.splitFR` per branch          (theorem c16_splitFR_agrees)
  {"op":"mix","brs":[B..],"bufsize":n|null,"copy_buf":bool,"flow":[ints]}    B as in drivers/C03.lean (src, fc, fr, sq, sum)
      -> {"c03":{"out":[V..],"trace":[E..]},            `C03.Split.runTrace` on `mkHarnessBranches`
          "c04":{"out":[V..],"trace":[E..],"hands":k}}  `C04.Split.runTrace` on `embedSplit`, erased by `canon ()`   (theorem c03_is_token_free_c04)
  {"op":"fill","mode":"split"|"zip","kind":"fc"|"fr","brs":[B..],"copy_buf":bool,"flow":[ints]}   B: fc / sum (kind fc), fr (kind fr)
      `for v in flow: obj.fill(v)` until LenaStopFill, then `obj.compute()` / `obj.request()`, obj = Split(brs, copy_buf) or Zip(brs)
      -> {"c03":{"stopped":b,"out":[V..]},              `C03.splitFillAll` (`zipFill`) + `splitCompute`/`splitRequest` (`zipCompute`/`zipRequest`)
          "c04":{"stopped":b,"out":[V..]}}              `C04.fillFlow (splitFill copy_buf | zipFill)` + `collect` on the embedded branches, erased
                                                        (theorems c04_fillFlow_erases, c04_zipFill_erases, c04_compute_erases, c04_request_erases)
      V = int | string | [V..];  E = [kind, branch, ..] -/
open Lean Lena.Drv
open Lena.Bridge.Split

namespace BridgeDrv
open Lena

/-! ### values -/

partial def valueOf (j : Json) : Option Flow.Value :=
  match j with
  | .num _ => (int? j).map Flow.Value.int
  | .str s => some (.str s)
  | .arr a => (a.toList.mapM valueOf).map Flow.Value.list
  | _ => none

partial def valueJson : Flow.Value → Json
  | .int i => ofInt i
  | .str s => Json.str s
  | .quot n d => Json.mkObj [("q", Json.arr #[ofInt n, ofInt d])]
  | .list xs => Json.arr (xs.map valueJson).toArray
  | .tup xs => Json.mkObj [("t", Json.arr (xs.map valueJson).toArray)]
  | .dict kvs => Json.mkObj [("d", Json.mkObj (kvs.map fun (k, v) => (k, valueJson v)))]

partial def vJson : C03.V → Json
  | .int i => ofInt i
  | .str s => Json.str s
  | .tup xs => Json.arr (xs.map vJson).toArray

def optNat (j : Json) : Option (Option Nat) :=
  if j.isNull then some none else (nat? j).map some

def termJson : Option Flow.Exc → Json
  | none => Json.null
  | some e => Json.str e.name

/-! ### op "fc": C05 ↔ C03 -/

def fnOf : String → Option Flow.Fn
  | "inc" => some .inc | "neg" => some .neg | "mod3" => some .mod3
  | "ident" => some .ident | "wrap" => some .wrap | "boom" => some .boom | _ => none

def predOf : String → Option Flow.Pred
  | "even" => some .even | "pos" => some .pos | "lt5" => some .lt5
  | "all" => some .all | "none" => some .none | _ => none

def specOf (j : Json) : Option C05.Spec :=
  match str? (getD j "k") with
  | some "call" => do some (.call (← fnOf (← str? (getD j "f"))))
  | some "filter" => do some (.filter (← predOf (← str? (getD j "p"))))
  | some "slice" => do
    let a ← (← arr? (getD j "args")).toList.mapM optInt
    match a with
    | [a, b, s] => some (.slice a b s)
    | _ => none
  | some "acc" =>
    match str? (getD j "a") with
    | some "sum" => some (.acc .sum)
    | some "mean" => some (.acc .mean)
    | some "store" => (bool? (getD j "group")).map (fun g => C05.Spec.acc (.store g))
    | _ => none
  | _ => none

def taggedJson (l : List (Nat × Flow.Value)) : Json :=
  ofList (fun (p : Nat × Flow.Value) => Json.arr #[ofNat p.1, valueJson p.2]) l

def fillJson (i : Nat) (c : C05.Chain Flow.AccState Flow.Value) (flow : List Flow.Value) : Json :=
  let r := C05.fillRun c flow
  let a0 : C05.Active Flow.AccState Flow.Value := { chain := c, st := C05.chainInit c.acc.init c.pre, idx := i }
  let c03 := (activeOps.compute (C03.fillBuf i activeOps a0 flow).2.1).1
  Json.mkObj [("c05", Json.mkObj [("r", ofList valueJson r.vals), ("t", termJson r.term)]),
    ("c03", ofList valueJson c03)]

def fcJson (branches : List (List C05.Spec)) (bufsize : Option Nat) (copyBuf : Bool) (flow : List Flow.Value) : Json :=
  match C05.Spec.toObjss branches with
  | .error e => Json.mkObj [("e", e.name)]
  | .ok oss =>
    match C05.mkChains oss with
    | .error e => Json.mkObj [("e", e.name)]
    | .ok cs =>
      let r := C05.splitRunTagged cs bufsize flow
      let tr := (toSplit cs bufsize copyBuf).runTrace flow
      let fills := (List.range cs.length).zip cs |>.map (fun (p : Nat × C05.Chain Flow.AccState Flow.Value) => fillJson p.1 p.2 flow)
      let rx := (toSplitX cs bufsize copyBuf).run flow
      let sf := C05.splitFillRun cs flow
      let sf3 := (C03.splitCompute (C03.splitFillAll ((C05.initActive 0 cs).map toBranch) flow).1).1
      Json.mkObj [("c05", Json.mkObj [("r", taggedJson r.vals), ("t", termJson r.term)]),
        ("c03", taggedJson (tagOuts tr)),
        ("c03x", Json.mkObj [("r", taggedJson (tagOuts rx.trace)), ("t", termJson (termExc rx.term))]),
        ("sfill", Json.mkObj [("c05", Json.mkObj [("r", ofList valueJson (sf.vals.map Prod.snd)), ("t", termJson sf.term)]),
          ("c03", ofList valueJson sf3)]),
        ("fill", Json.arr fills.toArray)]

/-! ### op "fr": C16 ↔ C03 -/

/-- the recording element `Rec(tag)`: `fill` appends, `request` yields `[tag] + values`, `reset` forgets -/
def recEl (tag : Int) : C16.El (List Int) Int (List Int) where
  fill s x := s ++ [x]
  req s := ([tag :: s], s)
  reset _ := []
  run s xs := ([tag :: (s ++ xs)], s ++ xs)

structure FrSpec where
  tag : Int
  N : Nat
  rst : Bool
  bi : Bool
  yor : Bool

def frSpecOf (j : Json) : Option FrSpec := do
  some { tag := ← int? (getD j "tag"), N := ← nat? (getD j "N"), rst := ← bool? (getD j "rst"),
         bi := ← bool? (getD j "bi"), yor := ← bool? (getD j "yor") }

def sumJson : Int ⊕ List Int → Json
  | .inl x => Json.mkObj [("inl", ofInt x)]
  | .inr l => ofIntList l

def mkFrBranches (start : Nat) : List FrSpec → List (C03.Branch (C16.St (List Int) Int (List Int)) (Int ⊕ List Int))
  | [] => []
  | f :: rest => frBranch start (recEl f.tag) f.N f.rst f.bi f.yor [] :: mkFrBranches (start + 1) rest

def frJson (brs : List FrSpec) (m : Option Nat) (copyBuf : Bool) (xs : List Int) : Json :=
  let s : C03.Split (C16.St (List Int) Int (List Int)) (Int ⊕ List Int) :=
    { branches := mkFrBranches 0 brs, bufsize := m, copyBuf := copyBuf }
  let tr := s.runTrace (xs.map Sum.inl)
  let byBranch := (List.range brs.length).map (fun i => ofList sumJson (C03.outputsOf i tr))
  let c16 := brs.map (fun f => ofList ofIntList (C16.splitFR (recEl f.tag) f.N f.rst f.bi f.yor m [] xs))
  Json.mkObj [("c03", ofList sumJson (s.run (xs.map Sum.inl))), ("by_branch", Json.arr byBranch.toArray),
    ("c16", Json.arr c16.toArray)]

/-! ### op "mix": C04 (token model, on the embedded branches) ↔ C03 -/

def sqKind? : String → Option C03.SqKind
  | "map" => some .map | "mapEnd" => some .mapEnd | "even" => some .even
  | "sumBlock" => some .sumBlock | "dup" => some .dup | "running" => some .running | _ => none

def bspec? (j : Json) : Option C03.BSpec :=
  match str? (getD j "k") with
  | some "src" => (nat? (getD j "n")).map C03.BSpec.src
  | some "fc" =>
    match optNat (getD j "stop"), bool? (getD j "late"), bool? (getD j "items") with
    | some st, some l, some it => some (.fc st l it)
    | _, _, _ => none
  | some "fr" =>
    match optNat (getD j "stop"), bool? (getD j "late") with
    | some st, some l => some (.fr st l)
    | _, _ => none
  | some "sq" => ((str? (getD j "v")).bind sqKind?).map C03.BSpec.sq
  | some "sum" => some .sum
  | _ => none

def evJson : C03.Ev C03.V → Json
  | .call i => Json.arr #["call", ofNat i]
  | .fill i x st => Json.arr #["fill", ofNat i, vJson x, Json.bool st]
  | .compute i => Json.arr #["compute", ofNat i]
  | .request i => Json.arr #["request", ofNat i]
  | .run i buf => Json.arr #["run", ofNat i, ofList vJson buf]
  | .out i v => Json.arr #["out", ofNat i, vJson v]
  | .assertFail => Json.arr #["assert"]

def isHand : C04.Ev C03.V Unit → Bool
  | .hand _ _ _ => true
  | _ => false

def mixJson (specs : List C03.BSpec) (bufsize : Option Nat) (copyBuf : Bool) (flow : List C03.V) : Json :=
  let s3 : C03.Split C03.BState C03.V :=
    { branches := C03.mkHarnessBranches 0 specs, bufsize := bufsize, copyBuf := copyBuf }
  let tr3 := s3.runTrace flow
  let tr4 := ((embedSplit s3).runTrace (fun _ => ()) (flow.map bare)).1
  let er4 := (canon (σ₄ := C03.BState) ()).trace tr4
  Json.mkObj [
    ("c03", Json.mkObj [("out", ofList vJson (s3.run flow)), ("trace", ofList evJson tr3)]),
    ("c04", Json.mkObj [("out", ofList vJson (if specs.isEmpty then flow else (C04.outputs tr4).map (·.skel))),
      ("trace", ofList evJson er4), ("hands", ofNat (tr4.filter isHand).length)])]

/-! ### op "fill": `Split._fill`/`_compute`/`_request`, `Zip._fill`: C04 ↔ C03 -/

/-- `for v in flow: zip.fill(v)` until `LenaStopFill` (C03: `zipFill`) -/
def zipFillAll {σ α : Type} : List (C03.Branch σ α) → List α → List (C03.Branch σ α) × Bool
  | brs, [] => (brs, false)
  | brs, x :: xs =>
    match C03.zipFill x brs with
    | (brs', true) => (brs', true)
    | (brs', false) => zipFillAll brs' xs

def fillJsonOp (zip : Bool) (isFc : Bool) (specs : List C03.BSpec) (copyBuf : Bool) (flow : List C03.V) : Json :=
  let brs3 := C03.mkHarnessBranches 0 specs
  let r3 := if zip then zipFillAll brs3 flow else C03.splitFillAll brs3 flow
  let out3 : Json :=
    if zip then ofList (ofList vJson) (if isFc then C03.zipCompute r3.1 else C03.zipRequest r3.1)
    else ofList vJson (if isFc then (C03.splitCompute r3.1).1 else (C03.splitRequest r3.1).1)
  let w0 : C04.World Unit := { st := fun _ => (), cc := 0 }
  let r4 := C04.fillFlow (if zip then C04.zipFill else C04.splitFill copyBuf) w0 (brs3.map embedBranch) (flow.map bare)
  let er4 := r4.brs.map (canon (σ₄ := C03.BState) ()).branch
  let out4 : Json :=
    if zip then ofList (ofList vJson) (if isFc then C03.zipCompute er4 else C03.zipRequest er4)
    else
      let evs := if isFc then (C04.collect .compute C04.Ev.compute r4.w.st r4.brs).1
                 else (C04.collect .request C04.Ev.request r4.w.st r4.brs).1
      ofList vJson ((C04.outputs evs).map (·.skel))
  Json.mkObj [("c03", Json.mkObj [("stopped", Json.bool r3.2), ("out", out3)]),
    ("c04", Json.mkObj [("stopped", Json.bool r4.stopped), ("out", out4)])]

def handle (j : Json) : Json :=
  match str? (getD j "op") with
  | some "fc" =>
    match (arr? (getD j "branches")).bind (fun a => a.toList.mapM (fun b => (arr? b).bind (fun l => l.toList.mapM specOf))),
        optNat (getD j "bufsize"), bool? (getD j "copy_buf"), (arr? (getD j "flow")).bind (fun a => a.toList.mapM valueOf) with
    | some bs, some b, some cb, some flow =>
      if b == some 0 then err "bufsize 0" else fcJson bs b cb flow
    | _, _, _, _ => err "bad fc args"
  | some "fr" =>
    match (arr? (getD j "brs")).bind (fun a => a.toList.mapM frSpecOf), optNat (getD j "m"), bool? (getD j "copy_buf"),
        intList? (getD j "xs") with
    | some brs, some m, some cb, some xs => if m == some 0 then err "bufsize 0" else frJson brs m cb xs
    | _, _, _, _ => err "bad fr args"
  | some "mix" =>
    match (arr? (getD j "brs")).bind (fun a => a.toList.mapM bspec?), optNat (getD j "bufsize"), bool? (getD j "copy_buf"),
        intList? (getD j "flow") with
    | some brs, some b, some cb, some flow =>
      if b == some 0 then err "bufsize 0" else mixJson brs b cb (flow.map C03.V.int)
    | _, _, _, _ => err "bad mix args"
  | some "fill" =>
    match (arr? (getD j "brs")).bind (fun a => a.toList.mapM bspec?), str? (getD j "mode"), str? (getD j "kind"),
        bool? (getD j "copy_buf"), intList? (getD j "flow") with
    | some brs, some mode, some kind, some cb, some flow =>
      fillJsonOp (mode == "zip") (kind == "fc") brs cb (flow.map C03.V.int)
    | _, _, _, _, _ => err "bad fill args"
  | _ => err "unknown op"

end BridgeDrv

def main : IO Unit := run BridgeDrv.handle
