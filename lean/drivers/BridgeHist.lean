import LenaModel.DriverUtil
import LenaModel.Model.C06
import LenaModel.Model.C06Spec
import LenaModel.Model.C09
import LenaModel.Model.C11
import LenaModel.Model.C12
/-! Model driver of the bridge `LenaModel/Bridge/Hist.lean`: every request is evaluated by ALL the independent
transcriptions of the same Python function (C06 over `Int`, C06 over `Rat`, C09, C11, C12), on the input translated
with the maps of the bridge; the harness (`harness/props/bridge_hist.py`) demands that all of them equal the result
of the real lena code.  Numbers are integers on the wire (C12's rationals are the embedded integers; integer
weights keep them integers).

  edges := {"f":[ints]} | {"n":[[ints],..]}        R := {"bins":nested,"oor":int} | {"e":name}

  {"op":"br_mk","edges":edges,"bins":null|nested,"init":int}
      -> {"c06":R, "c06q":R, "c12":R, "c09":R|null, "c11":{"bins":nested}|{"e":name}|null}
         (c06q: C06 over Rat on the cast input; c09: flat edges and flat/absent bins only; c11: bins given only)
  {"op":"br_bin","arr":[ints],"val":int}
      -> {"interp":int|{"e":..}, "mid":.., "lo":.., "midq":.., "c09":int}
         (C06.bin1d with the source's interpolation in exact arithmetic / bisection / always `ind_min`; over Rat; C09.binIndex)
  {"op":"br_fill1","edges":[ints],"bins":null|[ints],"mk":null|[ints],"init":int,"vals":[ints]}
      -> {"c06":R, "c06el":R, "c09":R, "c09nd":R, "nev06":int|null, "nev09":int|null}
         (histogram fill / the Histogram element, weight 1; get_nevents(include_out_of_range=True) through C12)
  {"op":"br_fillnd","edges":edges,"init":int,"fills":[{"c":{"s":int}|{"t":[ints]},"w":int},..],"aw":int}
      -> {"c06":R, "c06q":R, "c11":[nested|null|{"e":..},..], "steps":[nested|{"e":..},..], "nev":int|null, "add":R|null}
         (c11: per fill, C11's walk `SIB.fill` with an analysis adding the weight, started from C06's bins before the
          fill — null when the value is ignored; steps: C06's bins after each fill; add: C12.add(h, h, aw) with zero
          tolerances on the final histogram)
  {"op":"br_cells","edges":edges,"bins":nested}
      -> {"c12":[[nested,[[lo,hi],..]],..]|{"e":..}, "c11":[[int,[[lo,hi],..]],..]|{"e":..}} -/
open Lean Lena Lena.Drv

namespace BridgeHist

def iq (a : Int) : Rat := (a : Rat)

partial def parseNArr (j : Json) : Option (NArr Int) :=
  match j with
  | .arr a => (a.toList.mapM parseNArr).map NArr.node
  | _ => (int? j).map NArr.leaf

partial def narrJson : NArr Int → Json
  | .leaf v => ofInt v
  | .node xs => Json.arr (xs.map narrJson).toArray

def ratJson (q : Rat) : Json := if q.den = 1 then ofInt q.num else Json.str s!"{q.num}/{q.den}"

partial def narrQJson : NArr Rat → Json
  | .leaf v => ratJson v
  | .node xs => Json.arr (xs.map narrQJson).toArray

def parseEdges (j : Json) : Option (C06.Edges Int) :=
  match intList? (getD j "f") with
  | some l => some (.flat l)
  | none => ((arr? (getD j "n")).bind (fun a => a.toList.mapM intList?)).map C06.Edges.nested

def parseCoord (j : Json) : Option (C06.Coord Int) :=
  match int? (getD j "s") with
  | some x => some (.scalar x)
  | none => (intList? (getD j "t")).map C06.Coord.tuple

def parseBins (j : Json) : Option (Option (NArr Int)) :=
  if j.isNull then some none else (parseNArr j).map some

def optIntList (j : Json) : Option (Option (List Int)) :=
  if j.isNull then some none else (intList? j).map some

/-- the translation maps of the bridge, executable -/
def edgesQ : C06.Edges Int → C06.Edges Rat
  | .flat l => .flat (l.map iq)
  | .nested ls => .nested (ls.map (·.map iq))

def edges12 : C06.Edges Int → C12.Edges
  | .flat l => .flat (l.map iq)
  | .nested ls => .nested (ls.map (·.map iq))

def coordQ : C06.Coord Int → C06.Coord Rat
  | .scalar x => .scalar (iq x)
  | .tuple xs => .tuple (xs.map iq)

def binsQ (b : NArr Int) : NArr Rat := NArr.map iq b

def liftBins (l : List Int) : NArr Int := .node (l.map .leaf)

/-- a flat list of leaves -/
def flatBins? : NArr Int → Option (List Int)
  | .node xs => xs.mapM (fun x => match x with | .leaf v => some v | .node _ => none)
  | .leaf _ => none

def hist06to12 (h : C06.Hist Rat Rat) : C12.Hist :=
  { edges := match h.edges with | .flat e => .flat e | .nested es => .nested es,
    bins := h.bins, nOut := h.nOut, scale := none }

def exc (e : Err) : Json := Json.mkObj [("e", Json.str e.name)]

def err09Name : C09.Err → String
  | .zeroDivision => "LenaZeroDivisionError"
  | .indexError => "Other:IndexError"
  | .runtimeError => "LenaRuntimeError"
  | .valueError => "LenaValueError"
  | .typeError => "LenaTypeError"
  | .lenaIndexError => "LenaIndexError"
  | .pyTypeError => "Other:TypeError"
  | .assertionError => "Other:AssertionError"
  | .unmodelled => "unmodelled"

def exc09 (e : C09.Err) : Json := Json.mkObj [("e", Json.str (err09Name e))]

def exc11Name : C11.Exc Unit → String
  | .lenaTypeError => "LenaTypeError"
  | .lenaValueError => "LenaValueError"
  | .lenaIndexError => "LenaIndexError"
  | .lenaAttributeError => "LenaAttributeError"
  | .indexError => "Other:IndexError"
  | .typeError => "Other:TypeError"
  | .keyError => "Other:KeyError"
  | .assertionError => "Other:AssertionError"
  | .unmodelled => "unmodelled"
  | .inner _ => "inner"

def exc11 (e : C11.Exc Unit) : Json := Json.mkObj [("e", Json.str (exc11Name e))]

def r06 : Except Err (C06.Hist Int Int) → Json
  | .ok h => Json.mkObj [("bins", narrJson h.bins), ("oor", ofInt h.nOut)]
  | .error e => exc e

def r06q : Except Err (C06.Hist Rat Rat) → Json
  | .ok h => Json.mkObj [("bins", narrQJson h.bins), ("oor", ratJson h.nOut)]
  | .error e => exc e

def r12 : Except Err C12.Hist → Json
  | .ok h => Json.mkObj [("bins", narrQJson h.bins), ("oor", ratJson h.nOut)]
  | .error e => exc e

def r09 : Except C09.Err C09.Hist → Json
  | .ok h => Json.mkObj [("bins", ofIntList h.bins), ("oor", ofInt h.nOut)]
  | .error e => exc09 e

def midG : Nat → Nat → Nat → Int := fun _ => fun lo hi => (((lo + hi) / 2 : Nat) : Int)

/-! ### br_mk -/

def opMk (j : Json) : Json :=
  match parseEdges (getD j "edges"), parseBins (getD j "bins"), int? (getD j "init") with
  | some e, some bins, some init =>
    let c06 := C06.mkHist e bins init
    let c06q := C06.mkHist (edgesQ e) (bins.map binsQ) (iq init)
    let c12 := C12.mkHist (edges12 e) (bins.map binsQ) (iq init)
    let c09 : Json :=
      match e with
      | .flat es =>
        (match bins with
         | none => r09 (C09.mkHist es none init)
         | some b =>
           match flatBins? b with
           | some l => r09 (C09.mkHist es (some l) init)
           | none => Json.null)
      | .nested _ => Json.null
    let c11 : Json :=
      match bins with
      | none => Json.null
      | some b =>
        match (C11.mkHistogram e b : Except (C11.Exc Unit) (C11.Hist Int Int)) with
        | .ok h => Json.mkObj [("bins", narrJson h.bins)]
        | .error er => exc11 er
    Json.mkObj [("c06", r06 c06), ("c06q", r06q c06q), ("c12", r12 c12), ("c09", c09), ("c11", c11)]
  | _, _, _ => err "br_mk: bad arguments"

/-! ### br_bin -/

def rInt : Except Err Int → Json
  | .ok i => ofInt i
  | .error e => exc e

def opBin (j : Json) : Json :=
  match intList? (getD j "arr"), int? (getD j "val") with
  | some arr, some val =>
    Json.mkObj [
      ("interp", rInt (C06.bin1d (C06.interpGuess arr val) val arr)),
      ("mid", rInt (C06.bin1d (midG 0) val arr)),
      ("lo", rInt (C06.bin1d (fun lo _ => (lo : Int)) val arr)),
      ("midq", rInt (C06.bin1d (midG 0) (iq val) (arr.map iq))),
      ("c09", ofInt (C09.binIndex arr val))]
  | _, _ => err "br_bin: bad arguments"

/-! ### br_fill1 -/

def nev12 (h : C12.Hist) : Json := ratJson (C12.getNevents h true)

def opFill1 (j : Json) : Json :=
  match intList? (getD j "edges"), optIntList (getD j "bins"), optIntList (getD j "mk"), int? (getD j "init"),
      intList? (getD j "vals") with
  | some es, some bins, some mk, some init, some vals =>
    let eff : Option (List Int) := match mk with | some b => some b | none => bins
    -- C06: the structure
    let ops : List ((Nat → Nat → Nat → Int) × C06.Coord Int × Int) := vals.map (fun v => (midG, .scalar v, 1))
    let c06 : Except Err (C06.Hist Int Int) := do
      let h ← C06.mkHist (.flat es) (eff.map liftBins) init
      C06.fillAll h ops
    -- C06: the element
    let flow : List ((Nat → Nat → Nat → Int) × C06.Coord Int × Option Unit) := vals.map (fun v => (midG, .scalar v, none))
    let c06el : Except Err (C06.Hist Int Int) := do
      let e0 ← C06.HistEl.new () (.flat es) (eff.map liftBins) init
      let e ← C06.HistEl.fillAll () (1 : Int) e0 flow
      pure e.hist
    -- C09: the one-dimensional machine
    let cfg : C09.HistCfg := ⟨es, bins, mk, init⟩
    let items : List (C09.Item Int) := vals.map (fun v => ⟨v, none⟩)
    let c09 : Except C09.Err C09.Hist :=
      match C09.Histogram.new cfg with
      | .error e => .error e
      | .ok s0 => .ok ((C09.histogramM cfg s0).fillAll s0 items).hist
    -- C09: the n-dimensional machine (on C06)
    let cfgN : C09.HistNdCfg := ⟨.flat es, bins.map liftBins, mk.map liftBins, init⟩
    let c09nd : Json :=
      match C09.HistogramNd.new cfgN with
      | .error e => exc09 e
      | .ok s0 =>
        let s := vals.foldl (fun (s : C09.HistNdSt) v => (C09.HistogramNd.fill s ⟨.scalar v, none⟩).1) s0
        Json.mkObj [("bins", narrJson s.hist.bins), ("oor", ofInt s.hist.nOut)]
    let nev06 : Json := match c06 with
      | .ok h => nev12 (hist06to12 { edges := edgesQ h.edges, bins := binsQ h.bins, nOut := iq h.nOut, dim := h.dim })
      | .error _ => Json.null
    let nev09 : Json := match c09 with
      | .ok h => nev12 { edges := .flat (es.map iq), bins := binsQ (liftBins h.bins), nOut := iq h.nOut, scale := none }
      | .error _ => Json.null
    Json.mkObj [("c06", r06 c06), ("c06el", r06 c06el), ("c09", r09 c09), ("c09nd", c09nd), ("nev06", nev06),
      ("nev09", nev09)]
  | _, _, _, _, _ => err "br_fill1: bad arguments"

/-! ### br_fillnd -/

/-- an analysis whose cell state is a number and whose `fill` adds the weight carried by the value -/
def addAn : C11.Analysis Int (C06.Coord Int × Int) Int Unit where
  fill c v := .ok (c + (C14.getDataContext [] v).1.2)
  compute c := ⟨[c], none⟩

def addAv : C11.ArgVar Int (C06.Coord Int × Int) Unit := ⟨fun d => .ok d.1, []⟩

def parseFills : List Json → Option (List (C06.Coord Int × Int))
  | [] => some []
  | f :: rest => do
    let c ← parseCoord (getD f "c")
    let w ← int? (getD f "w")
    let r ← parseFills rest
    some ((c, w) :: r)

/-- C06's fills one by one; next to each, what C11's `SIB.fill` makes of the bins before the fill -/
def runNd (h : C06.Hist Int Int) : List (C06.Coord Int × Int) → List Json × List Json × Except Err (C06.Hist Int Int)
  | [] => ([], [], .ok h)
  | (c, w) :: rest =>
    let sib : C11.SIB Int Int := ⟨h.edges, h.bins, []⟩
    let c11 : Json :=
      match C11.SIB.fill [] addAn addAv midG sib (.bare (c, w)) with
      | .error e => exc11 e
      | .ok s' => Json.mkObj [("bins", narrJson s'.bins)]
    match C06.fill midG h c w with
    | .error e => ([exc e], [c11], .error e)
    | .ok h' =>
      let (steps, c11s, fin) := runNd h' rest
      (Json.mkObj [("bins", narrJson h'.bins), ("oor", ofInt h'.nOut)] :: steps, c11 :: c11s, fin)

def opFillNd (j : Json) : Json :=
  match parseEdges (getD j "edges"), int? (getD j "init"), (arr? (getD j "fills")).bind (fun a => parseFills a.toList),
      int? (getD j "aw") with
  | some e, some init, some fills, some aw =>
    match C06.mkHist e none init with
    | .error er => Json.mkObj [("c06", exc er)]
    | .ok h0 =>
      let (steps, c11s, fin) := runNd h0 fills
      let c06q : Except Err (C06.Hist Rat Rat) := do
        let h ← C06.mkHist (edgesQ e) none (iq init)
        C06.fillAll h (fills.map (fun cw => (midG, coordQ cw.1, iq cw.2)))
      let (nev, add) : Json × Json := match c06q with
        | .ok h =>
          let h12 := hist06to12 h
          (nev12 h12, r12 (C12.add h12 h12 (iq aw) ⟨0, 0⟩))
        | .error _ => (Json.null, Json.null)
      Json.mkObj [("c06", r06 fin), ("c06q", r06q c06q), ("c11", Json.arr c11s.toArray), ("steps", Json.arr steps.toArray),
        ("nev", nev), ("add", add)]
  | _, _, _, _ => err "br_fillnd: bad arguments"

/-! ### br_cells -/

def pairsJson (f : Rat → Json) (l : List (Rat × Rat)) : Json := ofList (fun p => Json.arr #[f p.1, f p.2]) l
def pairsIntJson (l : List (Int × Int)) : Json := ofList (fun p => Json.arr #[ofInt p.1, ofInt p.2]) l

def opCells (j : Json) : Json :=
  match parseEdges (getD j "edges"), parseNArr (getD j "bins") with
  | some e, some bins =>
    let c12 : Json :=
      match C12.iterBinsWithEdges (binsQ bins) (edges12 e) with
      | .error er => exc er
      | .ok l => ofList (fun (p : NArr Rat × List (Rat × Rat)) => Json.arr #[narrQJson p.1, pairsJson ratJson p.2]) l
    let c11 : Json :=
      match (C11.binIndices e).mapM (C11.binWithEdges (ε := Unit) (⟨e, bins⟩ : C11.Hist Int Int)) with
      | .error er => exc11 er
      | .ok l => ofList (fun (p : Int × List (Int × Int)) => Json.arr #[ofInt p.1, pairsIntJson p.2]) l
    Json.mkObj [("c12", c12), ("c11", c11)]
  | _, _ => err "br_cells: bad arguments"

def handle (j : Json) : Json :=
  match str? (getD j "op") with
  | some "br_mk" => opMk j
  | some "br_bin" => opBin j
  | some "br_fill1" => opFill1 j
  | some "br_fillnd" => opFillNd j
  | some "br_cells" => opCells j
  | _ => err "unknown op"

end BridgeHist

def main : IO Unit := Lena.Drv.run BridgeHist.handle
