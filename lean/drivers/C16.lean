import LenaModel.DriverUtil
import LenaModel.Model.C16
/-! Model driver for C16.  Every request carries the adapter arguments
  "caps":[run,fill,request,compute,reset] (booleans: which callables the wrapped element has),
  "bufsize":int, "reset":null|bool, "bi":bool, "bo":bool, "yor":bool
and (except for "init") the test element
  "el":{"k":n,"mut":bool,"map":bool,"pre":bool,"post":bool}
  (values filled are appended to a list `v`; request/compute/run yield `[j] + v` for j < k and then,
   if `mut`, append -1 to `v`; `map`: run yields `[x+100]` per value and keeps no state; `pre`/`post`:
   FillRequestSeq with a preceding `x ↦ x+10` / a following `r ↦ r + [99]`).
Requests:
  {"op":"init",...}                -> {"e":"LenaTypeError"|"LenaValueError"} | {"fill":b,"request":b,"reset":b}
  {"op":"run",...,"xs":[ints]}     -> {"e":..} | {"r":[[ints]],"spec":[[ints]]}  (spec: block specification)
  {"op":"ops",...,"ops":[int|null]} (null = request) -> {"e":..} | {"t":[[out|null,n_count,len_in,len_out],..]}
  {"op":"split",...,"m":int|null,"xs":[ints]} -> {"e":..} | {"r":[[ints]]} -/
open Lean Lena.Drv Lena.C16

structure TestEl where
  k : Nat
  mutates : Bool
  map : Bool
  pre : Bool
  post : Bool

def results (k : Nat) (s : List Int) : List (List Int) := (List.range k).map (fun (j : Nat) => (j : Int) :: s)

def baseEl (t : TestEl) : El (List Int) Int (List Int) where
  fill s x := s ++ [x]
  req s := (results t.k s, if t.mutates then s ++ [-1] else s)
  reset _ := []
  run s xs :=
    if t.map then (xs.map (fun x => [x + 100]), s)
    else let s' := s ++ xs; (results t.k s', if t.mutates then s' ++ [-1] else s')

def testEl (t : TestEl) : El (List Int) Int (List Int) :=
  if t.pre || t.post then
    seqEl (fun x => if t.pre then [x + 10] else [x])
      (fun rs => if t.post then rs.map (· ++ [99]) else rs) (baseEl t)
  else baseEl t

def parseEl (j : Json) : Option TestEl := do
  let k ← nat? (getD j "k")
  let b (key : String) : Bool := (bool? (getD j key)).getD false
  some { k := k, mutates := b "mut", map := b "map", pre := b "pre", post := b "post" }

def parseCaps (j : Json) : Option Caps := do
  let a ← arr? j
  match a.toList.mapM bool? with
  | some [r, f, q, c, z] => some { run := r, fill := f, request := q, compute := c, reset := z }
  | _ => none

def optBool (j : Json) : Option (Option Bool) :=
  if j.isNull then some none else (bool? j).map some

def parseCfg (j : Json) : Option (Except InitErr Cfg) := do
  let caps ← parseCaps (getD j "caps")
  let n ← int? (getD j "bufsize")
  let rst ← optBool (getD j "reset")
  let bi ← bool? (getD j "bi")
  let bo ← bool? (getD j "bo")
  let yor ← bool? (getD j "yor")
  some (mkFillRequest caps n rst bi bo yor)

def errJson : InitErr → Json
  | .typeError => Json.mkObj [("e", "LenaTypeError")]
  | .valueError => Json.mkObj [("e", "LenaValueError")]

def ofOuts (ys : List (List Int)) : Json := ofList ofIntList ys

def parseOps (j : Json) : Option (List (Op Int)) := do
  let a ← arr? j
  a.toList.mapM (fun v => if v.isNull then some Op.request else (int? v).map Op.fill)

def handle (j : Json) : Json :=
  match parseCfg j with
  | none => err "bad adapter arguments"
  | some (.error e) => errJson e
  | some (.ok c) =>
    match str? (getD j "op") with
    | some "init" =>
      Json.mkObj [("fill", Json.bool c.hasFill), ("request", Json.bool c.hasRequest), ("reset", Json.bool c.hasReset)]
    | some "run" =>
      match parseEl (getD j "el"), intList? (getD j "xs") with
      | some t, some xs =>
        -- "spec": the right-hand side of theorem `run_blocks` (block specification), compared as well
        Json.mkObj [("r", ofOuts (runFR (testEl t) c [] xs).1),
          ("spec", ofOuts (specBlocks (blockOf (testEl t) c) (testEl t).reset c.bufsize c.reset c.yor []
            (chunks c.bufsize xs)))]
      | _, _ => err "bad run args"
    | some "ops" =>
      match parseEl (getD j "el"), parseOps (getD j "ops") with
      | some t, some ops =>
        let tr := traceOps (testEl t) c.bufsize c.reset c.bufferInput c.yor ops (St.init [])
        Json.mkObj [("t", ofList (fun (r : Option (List (List Int)) × Nat × Nat × Nat) =>
          Json.arr #[ofOpt ofOuts r.1, ofNat r.2.1, ofNat r.2.2.1, ofNat r.2.2.2]) tr)]
      | _, _ => err "bad ops args"
    | some "split" =>
      match parseEl (getD j "el"), intList? (getD j "xs") with
      | some t, some xs =>
        let mj := getD j "m"
        match (if mj.isNull then some none else (nat? mj).map some : Option (Option Nat)) with
        | some m => Json.mkObj [("r", ofOuts (splitFR (testEl t) c.bufsize c.reset c.bufferInput c.yor m [] xs))]
        | none => err "bad split bufsize"
      | _, _ => err "bad split args"
    | _ => err "unknown op"

def main : IO Unit := run handle
