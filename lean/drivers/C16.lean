import LenaModel.DriverUtil
import LenaModel.Model.C16
import LenaModel.Model.C16Spec
import LenaModel.Model.C16X
import LenaModel.Model.C16P
import LenaModel.Model.C16S
import LenaModel.Model.C16Q
/-! Model driver for C16.  Every request carries the adapter arguments
  "caps":[run,fill,request,compute,reset] (booleans: which callables the wrapped element has),
  "bufsize":int, "reset":null|bool, "bi":bool, "bo":bool, "yor":bool
and (except for "init") the test element
  "el":{"k":n,"mut":bool,"map":bool,"pre":bool,"post":bool}
  (values filled are appended to a list `v`; request/compute/run yield `[j] + v` for j < k and then,
   if `mut`, append -1 to `v`; `map`: run yields `[x+100]` per value and keeps no state; `pre`/`post`:
   FillRequestSeq with a preceding `x ↦ x+10` / a following `r ↦ r + [99]`).
Requests:
  {"op":"init",...}                -> {"e":"LenaTypeError"|"LenaValueError"} | {"fill":b,"request":b,"reset":b}
  {"op":"run",...,"xs":[ints]}     -> {"e":..} | {"r":[[ints]],"spec":[[ints]],"rt":[ints],"spect":[ints],"nread":n}
      (spec: block specification; rt: values read when each result is yielded, spect: rhs of run_streams)
  {"op":"ops",...,"ops":[int|null]} (null = request) -> {"e":..} | {"t":[[out|null,n_count,len_in,len_out],..]}
  {"op":"split",...,"m":int|null,"xs":[ints]} -> {"e":..} | {"r":[[ints]]}
Replies also carry the specification side of the theorems, evaluated on the same case:
  init: "contract" (`initContract`);  run: "spec" (`specBlocks … (chunks …)`), "seqspec" (rhs of `seq_run_blocks`);
  ops: "chk" = five Booleans: `runOps` (outputs per request, final sizes) agrees with the trace "t" that is compared with
  the real code; `fills` = the filled values; `invOps`; closed history: `emitAll` over `segments`/`chunks` (with
  yield_on_remainder) / `runFillCompute` on the filled values (without) = what the requests of "t" yielded; `lstEl`
  (lhs of `accounted_once_recorded`) = the filled values.
Extended model (Model/C16X.lean); "el" additionally {"stop":int|null,"stores":bool} (fill raises LenaStopFill for every
value >= stop, after/without storing it), "ev":"call"|"request" (where the adapter iterates generator objects):
  {"op":"opsx",...,"ops":[int|null|"r"]} ("r" = FillRequest.reset()) -> {"t":[[out|null,raised,n_count,len_in,len_out],..]}
  {"op":"splitx",...,"m","xs"} -> {"r":[[ints]],"raised":bool}
  {"op":"runx",...,"xs"} -> {"r":[[ints]],"raised":bool}   (_run_fill_compute)
  {"op":"runp",...,"j":int|null,"xs"} -> {"r":..,"spec":..,"old":..}   (Model/C16P.lean: Run element reading j values)
Further optional fields: "frac" (init: bufsize != int(bufsize)), el."kpar", "xs2" (run / ops / split: a second flow on the
same object), "apre"/"apost" (split: elements around the adapter in the branch).
FillRequestSeq driven through its own fill()/request() (Model/C16Q.lean); the adapter arguments at top level are those of the
CONTAINED FillRequest ("inner":"fr") or unused ("inner":"raw": the raw test element is the fill/request element):
  {"op":"seqops",...,"inner":"fr"|"raw","outer":{"bufsize","reset","bi","bo","yor"},"ops":[int|null],
   "xs0"?:[ints] (run on the object before the history),"ops2"?:[..] (a second history),"xs2"?:[ints] (run afterwards),
   "xs":[ints] (run of a fresh identical sequence)}
  -> {"e":..,"phase":"init"} | {"t":[[out|null,n_count,len_in,len_out],..],"r0"?,"t2"?,"r2"?,"runseq":[[ints]],
      "runinner":[[ints]]|null (post of the contained adapter's run on the pre-processed flow: rhs of seq_schedule_independent),
      "chk":[seqOps = the outputs of "t"; seq_ops_eq_inner rhs = the outputs of "t"]} -/
open Lean Lena.Drv Lena.C16

structure TestEl where
  k : Nat
  mutates : Bool
  map : Bool
  /-- 0: none; 1: `x ↦ x+10`; 2: a Run element that can break the flow: nothing for multiples of 3, `x+10` and
  `x+20` for other odd values, `x+10` otherwise -/
  pre : Nat
  /-- 0: none; 1: `r ↦ r + [99]`; 2: a Run element yielding `r + [99]` and `r + [98]` -/
  post : Nat
  /-- `fill` raises `LenaStopFill` for every value `≥ stop` -/
  stop : Option Int := none
  stores : Bool := false
  /-- the number of results depends on the state: `k` when the values held sum to an odd number, none otherwise -/
  kpar : Bool := false

def results (k : Nat) (s : List Int) : List (List Int) := (List.range k).map (fun (j : Nat) => (j : Int) :: s)

def kOf (t : TestEl) (s : List Int) : Nat := if t.kpar then (if s.sum % 2 == 1 then t.k else 0) else t.k

def baseEl (t : TestEl) : El (List Int) Int (List Int) where
  fill s x := s ++ [x]
  req s := (results (kOf t s) s, if t.mutates then s ++ [-1] else s)
  reset _ := []
  run s xs :=
    if t.map then (xs.map (fun x => [x + 100]), s)
    else let s' := s ++ xs; (results (kOf t s') s', if t.mutates then s' ++ [-1] else s')

/-- the Run test element that reads at most `j` values of its block (`none`: the whole block, running into its end) -/
def readEl (t : TestEl) (j : Option Nat) : ElR (List Int) Int (List Int) where
  run s b :=
    let c := match j with | none => b.length | some j => min j b.length
    let s' := s ++ b.take c
    (results (kOf t s') s', if t.mutates then s' ++ [-1] else s', c,
      match j with | none => true | some j => decide (b.length < j))
  reset _ := []

def preOf (c : Nat) (x : Int) : List Int :=
  match c with
  | 0 => [x]
  | 1 => [x + 10]
  | _ => if x % 3 == 0 then [] else if x % 2 == 1 then [x + 10, x + 20] else [x + 10]

def postOf (c : Nat) (rs : List (List Int)) : List (List Int) :=
  match c with
  | 0 => rs
  | 1 => rs.map (· ++ [99])
  | _ => rs.flatMap (fun r => [r ++ [99], r ++ [98]])

def testEl (t : TestEl) : El (List Int) Int (List Int) :=
  if t.pre != 0 || t.post != 0 then seqEl (preOf t.pre) (postOf t.post) (baseEl t) else baseEl t

/-- the test element with a raising `fill` -/
def testElX (t : TestEl) : ElX (List Int) Int (List Int) :=
  match t.stop with
  | none => ElX.ofEl (baseEl t)
  | some j => ElX.stopOn (baseEl t) (fun x => decide (j ≤ x)) t.stores

def parseEl (j : Json) : Option TestEl := do
  let k ← nat? (getD j "k")
  let b (key : String) : Bool := (bool? (getD j key)).getD false
  -- "pre"/"post": false/true (0/1) or a code 0..2
  let c (key : String) : Nat := match bool? (getD j key) with
    | some v => if v then 1 else 0
    | none => (nat? (getD j key)).getD 0
  some { k := k, mutates := b "mut", map := b "map", pre := c "pre", post := c "post",
         stop := int? (getD j "stop"), stores := b "stores", kpar := b "kpar" }

def parseOpsX (j : Json) : Option (List (OpX Int)) := do
  let a ← arr? j
  a.toList.mapM (fun v => if v.isNull then some OpX.request
    else match str? v with
      | some _ => some OpX.reset
      | none => (int? v).map OpX.fill)

def ofObs (c : CallObs (List Int)) : Json :=
  Json.arr #[ofOpt (ofList ofIntList) c.out, Json.bool c.raised, ofNat c.nCount, ofNat c.lenIn, ofNat c.lenOut]

/-- is the history closed by a request? -/
def closed : List (Op Int) → Bool
  | [] => false
  | [.request] => true
  | _ :: r => closed r

def dropLastOp (ops : List (Op Int)) : List (Op Int) := ops.dropLast

def parseCaps (j : Json) : Option Caps := do
  let a ← arr? j
  match a.toList.mapM bool? with
  | some [r, f, q, c, z] => some { run := r, fill := f, request := q, compute := c, reset := z }
  | _ => none

def optBool (j : Json) : Option (Option Bool) :=
  if j.isNull then some none else (bool? j).map some

def parseCfg (j : Json) : Option (Except InitErr Cfg) := do
  let caps ← parseCaps (getD j "caps")
  let n ← int? (getD j "bufsize")
  let rst ← optBool (getD j "reset")
  let bi ← bool? (getD j "bi")
  let bo ← bool? (getD j "bo")
  let yor ← bool? (getD j "yor")
  -- "frac": `bufsize != int(bufsize)` (a float such as 2.5); "bufsize" is then int(bufsize)
  let frac := (bool? (getD j "frac")).getD false
  some (mkFillRequestF caps n frac rst bi bo yor)

def errJson : InitErr → Json
  | .typeError => Json.mkObj [("e", "LenaTypeError")]
  | .valueError => Json.mkObj [("e", "LenaValueError")]

def ofOuts (ys : List (List Int)) : Json := ofList ofIntList ys

def parseOps (j : Json) : Option (List (Op Int)) := do
  let a ← arr? j
  a.toList.mapM (fun v => if v.isNull then some Op.request else (int? v).map Op.fill)

/-- `initContract` on the raw arguments (reported with every "init" reply, accepted or rejected) -/
def contractOf (j : Json) : Json :=
  match parseCaps (getD j "caps"), int? (getD j "bufsize"), optBool (getD j "reset"), bool? (getD j "bi"),
      bool? (getD j "bo"), bool? (getD j "yor") with
  | some caps, some n, some rst, some bi, some bo, some yor =>
    Json.bool (initContract caps (if (bool? (getD j "frac")).getD false then 0 else n) rst bi bo yor)
  | _, _, _, _, _, _ => Json.null

def handle (j : Json) : Json :=
  match parseCfg j with
  | none => err "bad adapter arguments"
  | some (.error e) =>
    if str? (getD j "op") == some "init" then (errJson e).setObjVal! "contract" (contractOf j) else errJson e
  | some (.ok c) =>
    match str? (getD j "op") with
    | some "init" =>
      Json.mkObj [("fill", Json.bool c.hasFill), ("request", Json.bool c.hasRequest), ("reset", Json.bool c.hasReset),
        ("contract", contractOf j)]
    | some "run" =>
      match parseEl (getD j "el"), intList? (getD j "xs") with
      | some t, some xs =>
        let e := testEl t
        let r1 := runFR e c [] xs
        -- "spec": the right-hand side of theorem `run_blocks` (block specification), compared as well
        -- "rc": `RunConsistent` on this flow (the element's run = fill every value, request), for elements with both
        let rcOk := t.map || ((e.run [] xs) == blockFill e [] xs)
        -- when the results appear (Model/C16S.lean): "rt" = for every result the number of values read before it in the
        -- events of `run`; "spect" = the right-hand side of theorem `run_streams`; "nread" = the values read in all
        -- when the results appear (Model/C16S.lean): "rt" = for every result the number of values read before it in the
        -- events of `run`; "spect" = the right-hand side of theorem `run_streams`; "nread" = the values read in all
        let base : List (String × Json) := [("r", ofOuts r1.1), ("rc", Json.bool rcOk),
          ("rt", ofList ofNat (tags (runFREv e c [] xs))), ("nread", ofNat (readsOf (runFREv e c [] xs)).length),
          ("spect", ofList ofNat (specTags (blockOf e c) e.reset c.bufsize c.reset c.yor 0 [] (chunks c.bufsize xs))),
          ("rt", ofList ofNat (tags (runFREv e c [] xs))), ("nread", ofNat (readsOf (runFREv e c [] xs)).length),
          ("spect", ofList ofNat (specTags (blockOf e c) e.reset c.bufsize c.reset c.yor 0 [] (chunks c.bufsize xs))),
          ("spec", ofOuts (specBlocks (blockOf e c) e.reset c.bufsize c.reset c.yor [] (chunks c.bufsize xs))),
          -- the right-hand side of theorem `seq_run_blocks` (FillRequestSeq: `_run_fill_compute`)
          ("seqspec", ofOuts (specBlocks
            (fun s b => ((postOf t.post) (blockFill (baseEl t) s (b.flatMap (preOf t.pre))).1,
                         (blockFill (baseEl t) s (b.flatMap (preOf t.pre))).2))
            (baseEl t).reset c.bufsize c.reset c.yor [] (chunks c.bufsize xs)))]
        -- "xs2": the same adapter runs a second flow, the element in the state the first run left
        match intList? (getD j "xs2") with
        | some xs2 =>
          Json.mkObj (base ++ [("r2", ofOuts (runFR e c r1.2 xs2).1),
            ("spec2", ofOuts (specBlocks (blockOf e c) e.reset c.bufsize c.reset c.yor r1.2 (chunks c.bufsize xs2)))])
        | none => Json.mkObj base
      | _, _ => err "bad run args"
    | some "ops" =>
      match parseEl (getD j "el"), parseOps (getD j "ops") with
      | some t, some ops =>
        let e := testEl t
        let N := c.bufsize
        let tr := traceOps e N c.reset c.bufferInput c.yor ops (St.init [])
        let ro := runOps e N c.reset c.bufferInput c.yor ops (St.init [])
        -- closed history: the specification of what all requests together yield
        let spec : Option (List (List Int)) :=
          if closed ops then
            let body := dropLastOp ops
            if c.yor then some (emitAll e c.reset [] ((segments body []).flatMap (chunks N))).1
            else some (runFillCompute e N c.reset false [] (fills body)).1
          else none
        -- the recording element, reset on: lhs of `accounted_once_recorded`
        let rr := runOps (lstEl : El (List Int) Int (List Int)) N true c.bufferInput c.yor ops (St.init [])
        -- the trace `tr` is compared with the real code; the other definitions are compared with it here, which
        -- keeps the replies small: "chk" = [runOps agrees with the trace (outputs per request, final sizes),
        -- fills = the filled values, invOps, the closed-history specification = what the requests yielded,
        -- the recording element accounts for exactly the filled values]
        let trOuts := tr.filterMap (·.1)
        let lastSizes : Nat × Nat × Nat := match tr.getLast? with
          | some r => r.2
          | none => (0, 0, 0)
        let oOk := ro.1 == trOuts && (ro.2.nCount, ro.2.bufIn.length, ro.2.bufOut.length) == lastSizes
        let vals : List Int := ops.filterMap (fun o => match o with | .fill x => some x | .request => none)
        let specOk := match spec with
          | some sp => sp == trOuts.flatten
          | none => true
        let recOk := ((rr.1.flatten ++ rr.2.bufOut).flatten ++ rr.2.el ++ rr.2.bufIn) == vals
        -- "xs2": afterwards the same adapter runs a flow (`run` does not look at the fill counter or the buffers)
        let after : List (String × Json) := match intList? (getD j "xs2") with
          | some xs2 => [("r2", ofOuts (runFR e c ro.2.el xs2).1)]
          | none => []
        Json.mkObj ([("t", ofList (fun (r : Option (List (List Int)) × Nat × Nat × Nat) =>
            Json.arr #[ofOpt ofOuts r.1, ofNat r.2.1, ofNat r.2.2.1, ofNat r.2.2.2]) tr),
          ("chk", Json.arr #[Json.bool oOk, Json.bool (fills ops == vals),
            Json.bool (invOps e N c.reset c.bufferInput c.yor ops (St.init [])), Json.bool specOk, Json.bool recOk])]
          ++ after)
      | _, _ => err "bad ops args"
    | some "split" =>
      match parseEl (getD j "el"), intList? (getD j "xs") with
      | some t, some xs =>
        let mj := getD j "m"
        match (if mj.isNull then some none else (nat? mj).map some : Option (Option Nat)) with
        | some m =>
          -- "apre"/"apost": elements before / after the ADAPTER in the branch `(f, FillRequest(el, ...), g)`:
          -- Split fills the adapter with what `f` makes of each value and `g` transforms what each request() yields
          let apre := (nat? (getD j "apre")).getD 0
          let apost := (nat? (getD j "apost")).getD 0
          let e := baseEl t
          let opsOf (ys : List Int) : List (Op Int) :=
            if ys.isEmpty then [.request]
            else (splitBlocks m ys).flatMap (fun b => (b.flatMap (preOf apre)).map Op.fill ++ [.request])
          let r1 := runOps e c.bufsize c.reset c.bufferInput c.yor (opsOf xs) (St.init [])
          let out1 := (r1.1.map (postOf apost)).flatten
          let base : List (String × Json) :=
            if apre == 0 && apost == 0 then
              [("r", ofOuts (splitFR (testEl t) c.bufsize c.reset c.bufferInput c.yor m [] xs))]
            else [("r", ofOuts out1)]
          -- "xs2": the same Split object runs a second flow
          match intList? (getD j "xs2") with
          | some xs2 =>
            let r2 := runOps e c.bufsize c.reset c.bufferInput c.yor (opsOf xs2) r1.2
            Json.mkObj (base ++ [("r2", ofOuts (r2.1.map (postOf apost)).flatten)])
          | none => Json.mkObj base
        | none => err "bad split bufsize"
      | _, _ => err "bad split args"
    | some "opsx" =>
      match parseEl (getD j "el"), parseOpsX (getD j "ops") with
      | some t, some ops =>
        let ev := if str? (getD j "ev") == some "request" then Eval.atRequest else Eval.atCall
        let e := testElX t
        let tr := traceOpsX e ev c.bufsize c.reset c.bufferInput c.yor ops (StX.init [])
        -- "chk": what the theorems of Props/C16X.lean say about this history, evaluated:
        --  [`bufKind` (atCall: no generator object is kept; atRequest: only generator objects),
        --   buffer_output: the next request() starts with `iterReq` over the kept generator objects (atRequest) /
        --     with the kept results (atCall),
        --   never-raising element: the counters are those of the history without its reset() calls (`dropResets`)]
        let s := tr.2
        let nxt := (requestX e c.bufsize c.reset c.bufferInput c.yor s).1
        let pre : List (List Int) := match ev with
          | .atRequest => (iterReq e s.bufOut.length s.el).1
          | .atCall => s.bufOut.flatMap (fun p => match p with | .done r => r | .gen => [])
        let prefOk := c.bufferInput || (nxt.take pre.length == pre)
        let cntOk := t.stop.isSome ||
          (traceOpsX e ev c.bufsize c.reset c.bufferInput c.yor (dropResets ops) (StX.init [])).2.counters == s.counters
        Json.mkObj [("t", ofList ofObs tr.1),
          ("chk", Json.arr #[Json.bool (bufKind ev s.bufOut), Json.bool prefOk, Json.bool cntOk])]
      | _, _ => err "bad opsx args"
    | some "splitx" =>
      match parseEl (getD j "el"), intList? (getD j "xs") with
      | some t, some xs =>
        let mj := getD j "m"
        match (if mj.isNull then some none else (nat? mj).map some : Option (Option Nat)) with
        | some m =>
          let r := splitX (testElX t) Eval.atCall c.bufsize c.reset c.bufferInput c.yor m [] xs
          Json.mkObj [("r", ofOuts r.1), ("raised", Json.bool r.2)]
        | none => err "bad split bufsize"
      | _, _ => err "bad splitx args"
    | some "runx" =>
      match parseEl (getD j "el"), intList? (getD j "xs") with
      | some t, some xs =>
        let r := runFillComputeX (testElX t) c.bufsize c.reset c.yor [] xs
        Json.mkObj [("r", ofOuts r.1), ("raised", Json.bool r.2.2)]
      | _, _ => err "bad runx args"
    | some "runp" =>
      -- a Run element that reads at most "j" values of its block (null: all): `_run_run`, and the statement's reading
      match parseEl (getD j "el"), intList? (getD j "xs") with
      | some t, some xs =>
        let jr : Option Nat := nat? (getD j "j")
        let e := readEl t jr
        -- `_run_run` of /repo now (fix dbe92ef: the rest of each block is skipped after el.run); "old": the pinned
        -- transcription of the code before the fix (counterexamples in Props/C16P.lean), reported for information
        let r := runRunQ e c.bufsize c.reset c.bufferInput c.yor [] xs
        Json.mkObj [("r", ofOuts r.1),
          ("spec", ofOuts (specBlocksP e c.bufsize c.reset c.yor [] (chunks c.bufsize xs))),
          ("old", ofOuts (runRunP e c.bufsize c.reset c.bufferInput c.yor [] xs).1)]
      | _, _ => err "bad runp args"
    | _ => err "unknown op"

def ofTrace (tr : List (Option (List (List Int)) × Nat × Nat × Nat)) : Json :=
  ofList (fun (r : Option (List (List Int)) × Nat × Nat × Nat) =>
    Json.arr #[ofOpt ofOuts r.1, ofNat r.2.1, ofNat r.2.2.1, ofNat r.2.2.2]) tr

/-- the passes over one `FillRequestSeq` object: [run xs0], history ops, [history ops2], [run xs2]; and the run of a
fresh identical object on xs -/
def seqReply {τ : Type} (t : TestEl) (inner : El τ Int (List Int)) (size : τ → Nat × Nat × Nat) (s0 : τ) (outer : Cfg)
    (j : Json) (ops : List (Op Int)) (more : List (String × Json)) : Json :=
  let pre := preOf t.pre
  let post := postOf t.post
  let p0 : Option (List (List Int)) × τ := match intList? (getD j "xs0") with
    | some xs0 => let r := seqRun pre post inner outer s0 xs0; (some r.1, r.2)
    | none => (none, s0)
  let tr := traceOpsEl (seqEl pre post inner) size ops p0.2
  let ro := seqOps pre post inner outer ops p0.2
  let p2 : Option (List (Option (List (List Int)) × Nat × Nat × Nat)) × τ := match parseOps (getD j "ops2") with
    | some ops2 => let q := traceOpsEl (seqEl pre post inner) size ops2 tr.2; (some q.1, q.2)
    | none => (none, tr.2)
  let r2 : Option (List (List Int)) := (intList? (getD j "xs2")).map (fun xs2 => (seqRun pre post inner outer p2.2 xs2).1)
  let xs := (intList? (getD j "xs")).getD []
  let opt (k : String) (v : Option Json) : List (String × Json) := match v with | some v => [(k, v)] | none => []
  Json.mkObj ([("t", ofTrace tr.1), ("runseq", ofOuts (seqRun pre post inner outer s0 xs).1),
      ("seqok", Json.bool (ro.1 == tr.1.filterMap (·.1)))]
    ++ opt "r0" (p0.1.map ofOuts) ++ opt "t2" (p2.1.map ofTrace) ++ opt "r2" (r2.map ofOuts) ++ more)

def parseOuter (j : Json) : Option (Except InitErr Cfg) := do
  let n ← int? (getD j "bufsize")
  let rst ← optBool (getD j "reset")
  let bi ← bool? (getD j "bi")
  let bo ← bool? (getD j "bo")
  let yor ← bool? (getD j "yor")
  some (mkFillRequestSeq n rst bi bo yor)

def handleSeq (j : Json) : Json :=
  match parseCfg j, parseOuter (getD j "outer"), parseEl (getD j "el"), parseOps (getD j "ops") with
  | some (.ok c), some (.ok outer), some t, some ops =>
    let e := baseEl t
    if str? (getD j "inner") == some "raw" then
      seqReply t e (fun _ => (0, 0, 0)) [] outer j ops [("runinner", Json.null), ("innerok", Json.bool true)]
    else
      let pre := preOf t.pre
      let post := postOf t.post
      let xs := (intList? (getD j "xs")).getD []
      -- rhs of `seq_ops_eq_inner`: the contained adapter driven with the pre-processed fills, `post` on every request
      let viaInner := (runOps e c.bufsize c.reset c.bufferInput c.yor (preOps pre ops) (St.init [])).1.map post
      let direct := (seqOps pre post (frEl e c) outer ops (St.init [])).1
      seqReply t (frEl e c) (fun s => (s.nCount, s.bufIn.length, s.bufOut.length)) (St.init []) outer j ops
        [("runinner", ofOuts (post (runFR e c [] (xs.flatMap pre)).1)),
         ("innerok", Json.bool ((intList? (getD j "xs0")).isSome || viaInner == direct))]
  | some (.error e), _, _, _ => (errJson e).setObjVal! "phase" "init"
  | _, some (.error e), _, _ => (errJson e).setObjVal! "phase" "init"
  | _, _, _, _ => err "bad seqops args"

def handleAll (j : Json) : Json :=
  if str? (getD j "op") == some "seqops" then handleSeq j else handle j

def main : IO Unit := run handleAll
