import LenaModel.DriverUtil
import LenaModel.Model.C03
import LenaModel.Model.C03X
import LenaModel.Model.C03Zip
import LenaModel.Model.C03Spec
import LenaModel.Model.C03G
/-! Model driver for C03.  Requests (one JSON object per line):

  {"op":"run","brs":[B..],"flow":[ints],"bufsizes":[n|null..],"copy_buf":bool}
      -> {"runs":[{"out":[V..],"inv":[[E..]..],"assert":bool,"blocks":[[V..]..],"spec_out":[V..]}..]}
         one entry per bufsize; "out"/"inv" from the transcribed loops (`Split.run`, `Split.runTrace`),
         "blocks"/"spec_out" from the specification side (`blocks`, `Split.schedule`)
  {"op":"methods","brs":[B..],"blocks":[[ints]..]}
      -> {"methods":{fill,compute,request,callable,empty_run}, "call":[V..]|{"e":..},
          "fc":{"stopped":bool,"out":[V..]} | null, "fr":{"stopped":bool,"outs":[[V..]..]} | null}
  {"op":"zip","brs":[B..],"flow":[ints]}
      -> {"e":..} | {"stopped":bool,"r":[[V..]..]}
  {"op":"init","objs":[O..],"bufsize":int|null,"is_list":bool}
      -> {"split":{"e":..}|{"kinds":[..],"methods":{..}}, "zip":{"e":..}|{"type":..}}

  B = {"k":"src","n":k} | {"k":"fc","stop":n|null,"late":bool,"items":bool} | {"k":"fr","stop":n|null,"late":bool}
    | {"k":"sq","v":"map"|"mapEnd"|"even"|"sumBlock"|"dup"|"running"|"lam"} | {"k":"sum"}
    | {"k":"nest","inner":[B..]}   (op "run" only: a common-type Split as a branch)
    in op "run" a B may carry "pre":true / "post":true: the element sits in a tuple after `lambda x: x+10` /
    before `lambda v: ("post", v)`
  O = {"t":"source"|"fcseq"|"frseq"|"seq"} | {"t":"el","caps":"fcqrkib"-subset} | {"t":"tuple","els":["caps"..]}
      caps letters: f fill, c compute, q request, r run, k callable, i fill_into, b _can_break_flow
  V = int | string | [V..];  E = ["call"] | ["fill",x,stopped] | ["compute"] | ["request"] | ["run",[x..]] -/
open Lean Lena Lena.Drv Lena.C03

partial def vJson : V → Json
  | .int i => ofInt i
  | .str s => Json.str s
  | .tup xs => Json.arr (xs.map vJson).toArray

def evJson : Ev V → Json
  | .call _ => Json.arr #["call"]
  | .fill _ x st => Json.arr #["fill", vJson x, Json.bool st]
  | .compute _ => Json.arr #["compute"]
  | .request _ => Json.arr #["request"]
  | .run _ buf => Json.arr #["run", ofList vJson buf]
  | .out _ v => Json.arr #["out", vJson v]
  | .assertFail => Json.arr #["assert"]

def optNat (j : Json) : Option (Option Nat) :=
  if j.isNull then some none else (nat? j).map some

def sqKind? : String → Option SqKind
  | "map" => some .map | "mapEnd" => some .mapEnd | "even" => some .even
  | "sumBlock" => some .sumBlock | "dup" => some .dup | "running" => some .running
  | "lam" => some .lam | "cache" => some .cache | _ => none

def bspec? (j : Json) : Option BSpec :=
  match str? (getD j "k") with
  | some "src" => (nat? (getD j "n")).map BSpec.src
  | some "fc" =>
    match optNat (getD j "stop"), bool? (getD j "late"), bool? (getD j "items") with
    | some st, some l, some it => some (.fc st l it)
    | _, _, _ => none
  | some "fr" =>
    match optNat (getD j "stop"), bool? (getD j "late") with
    | some st, some l => some (.fr st l)
    | _, _ => none
  | some "sq" => ((str? (getD j "v")).bind sqKind?).map BSpec.sq
  | some "sum" => some .sum
  | _ => none

def brs? (j : Json) : Option (List BSpec) := (arr? (getD j "brs")).bind (fun a => a.toList.mapM bspec?)

def ospec? (j : Json) : Option OSpec :=
  match str? (getD j "k") with
  | some "nest" => ((arr? (getD j "inner")).bind (fun a => a.toList.mapM bspec?)).map OSpec.nest
  | _ => (bspec? j).map (fun b => OSpec.plain
      { base := b, pre := (bool? (getD j "pre")).getD false, post := (bool? (getD j "post")).getD false })

def obrs? (j : Json) : Option (List OSpec) := (arr? (getD j "brs")).bind (fun a => a.toList.mapM ospec?)

def flow? (j : Json) : Option (List V) := (intList? j).map (fun xs => xs.map V.int)

def caps? (s : String) : ElCaps :=
  let has (c : Char) := s.toList.contains c
  { fill := has 'f', compute := has 'c', request := has 'q', run := has 'r', call := has 'k',
    fillInto := has 'i', canBreakFlow := has 'b' }

def obj? (j : Json) : Option Obj :=
  match str? (getD j "t") with
  | some "source" => some .source
  | some "fcseq" => some .fcSeq
  | some "frseq" => some .frSeq
  | some "seq" => some .seq
  | some "el" => (str? (getD j "caps")).map (fun s => Obj.el (caps? s))
  | some "tuple" => ((arr? (getD j "els")).bind (fun a => a.toList.mapM str?)).map
      (fun l => Obj.tuple (l.map caps?))
  | some "list" => ((arr? (getD j "els")).bind (fun a => a.toList.mapM str?)).map
      (fun l => Obj.list (l.map caps?))
  | _ => none

def kindName : Kind → String
  | .source => "source" | .fillCompute => "fill_compute" | .fillRequest => "fill_request"
  | .sequence => "sequence"

def excJson (e : Exc) : Json := Json.mkObj [("e", e.name)]

def methodsJson (m : Methods) : Json :=
  Json.mkObj [("fill", m.fill), ("compute", m.compute), ("request", m.request),
    ("callable", m.callable), ("empty_run", m.emptyRun)]

def sameJson (a b : Json) : Bool := a.compress == b.compress

def runOne {σ : Type} (spec : Bool) (brs : List (Branch σ V)) (kc : List (Kind × CTree)) (copyBuf : Bool)
    (flow : List V) (bs0 : Option Nat) : Json :=
  -- `Split.__init__` replaces the bufsize by None when a plain-Sequence branch contains a Cache
  let bs := cacheRule bs0 kc
  let s : Split σ V := { branches := brs, bufsize := bs, copyBuf := copyBuf }
  let tr := s.runTrace flow
  let inv := brs.map (fun b => ofList evJson (invocations b.id tr))
  let base := [("out", ofList vJson (s.run flow)), ("inv", Json.arr inv.toArray),
    ("blocks", ofList (ofList vJson) (blocks bs flow)),
    ("spec_out", ofList vJson (if brs.isEmpty then flow else outputs (s.schedule flow))),
    ("assert", Json.bool (tr.any (fun e => match e with | .assertFail => true | _ => false)))]
  if !spec then Json.mkObj base else
  -- the specification side, definition by definition (requested for a part of the cases only: the replies are big)
  let bl := blocks bs flow
  let ptr := brs.map (fun b => ofList evJson (proj b.id tr))
  let agree := brs.map (fun b =>
    sameJson (ofList evJson (proj b.id tr)) (ofList evJson (closedForm b bl)) &&
    sameJson (ofList evJson (proj b.id tr)) (ofList evJson (branchTrace b bl)))
  Json.mkObj (base ++ [
    ("spec_fold", ofList vJson (if brs.isEmpty then flow else outputs (s.runSpec flow))),
    ("ptrace", Json.arr ptr.toArray),
    -- `closedForm b bl` and `branchTrace b bl` give the same JSON as `proj b.id trace`
    ("spec_agree", ofList Json.bool agree),
    ("pout", ofList (fun b => ofList vJson (outputsOf b.id tr)) brs),
    ("precv", ofList (fun b => ofList vJson (received (proj b.id tr))) brs),
    ("pempty", if flow.isEmpty then ofList (fun b => ofList evJson (invocationOf b :: outs b.id (resultOf b))) brs
               else Json.null),
    ("finaliser", ofList (fun b => evJson (finaliser b)) brs),
    -- block by block: `blockForm b bl k` for every block, `finalForm b bl` (compared with a Python reference), and
    -- whether they give the same JSON as `contribution b bl k` / `finalContribution b bl`
    ("pblocks", ofList (fun b => ofList (fun k => ofList evJson (blockForm b bl k)) (List.range bl.length)) brs),
    ("pfinal", ofList (fun b => ofList evJson (finalForm b bl)) brs),
    ("block_agree", Json.bool (brs.all (fun b =>
      (List.range bl.length).all (fun k =>
        sameJson (ofList evJson (blockForm b bl k)) (ofList evJson (contribution b bl k))) &&
      sameJson (ofList evJson (finalForm b bl)) (ofList evJson (finalContribution b bl)))))])

/-! ### op "runx": exceptions, the objects after the run, consecutive runs, nested Splits run per block -/

def hspec? (j : Json) : Option HSpec :=
  (bspec? j).map (fun b =>
    { base := b, pre := (bool? (getD j "pre")).getD false, post := (bool? (getD j "post")).getD false })

def ospecX? (j : Json) : Option OSpecX :=
  match str? (getD j "k") with
  | some "nest" =>
    match (arr? (getD j "inner")).bind (fun a => a.toList.mapM bspec?), optNat (getD j "bufsize") with
    | some inner, some bs => some (.nest inner bs)
    | _, _ => none
  | _ =>
    match hspec? j, optNat (getD j "boom_fill"), optNat (getD j "boom_gen") with
    | some h, some bf, some bg =>
      some (.plain { base := h, boomFill := bf, boomGen := bg,
                     boomExc := (str? (getD j "boom_exc")).getD "ValueError",
                     boomFillExc := (str? (getD j "boom_fill_exc")).getD "ValueError" })
    | _, _, _ => none

def bufArg? (j : Json) : Option BufArg :=
  if j.isNull then some .none else
  match (getD j "int").getInt?.toOption, (getD j "float_int").getInt?.toOption,
      bool? (getD j "float_frac"), bool? (getD j "bool") with
  | some i, _, _, _ => some (.int i)
  | _, some i, _, _ => some (.floatInt i)
  | _, _, some _, _ => some .floatFrac
  | _, _, _, some b => some (.bool b)
  | _, _, _, _ => none

def bstateJson (b : BState) : Json :=
  Json.mkObj [("v", ofList vJson b.filled), ("n", ofNat b.n), ("calls", ofNat b.calls), ("total", ofInt b.total)]

def nstateJson : NStateX → Json
  | .plain b => bstateJson b
  | .nested brs => Json.mkObj [("inner", ofList (fun b => bstateJson b.st) brs)]
  | .nestedRun s => Json.mkObj [("inner", ofList (fun b => bstateJson b.st) s.branches)]

def termJson : Term String → Json
  | .done => "done"
  | .raised i e => Json.arr #["raised", ofNat i, Json.str e]
  | .assertFail => "assert"
  | .isliceError => "islice"

def runXJson (ids : List Nat) (noBranches : Bool) (flow : List V) (r : RunX NStateX V String) : Json :=
  Json.mkObj [("out", ofList vJson (if noBranches then flow else outputs r.trace)),
    ("term", termJson r.term),
    ("inv", ofList (fun i => ofList evJson (invocations i r.trace)) ids),
    ("states", ofList (fun b => nstateJson b.st) r.seqs)]

/-- the harness elements of a case without exceptions and nested Splits, as plain branches -/
def mkHBranches (start : Nat) : List HSpec → List (Branch BState V)
  | [] => []
  | h :: rest => { id := start, kind := h.base.kind, ops := h.ops start, st := {} } :: mkHBranches (start + 1) rest

def plainOnly? (osp : List OSpecX) : Option (List HSpec) :=
  osp.mapM (fun o => match o with
    | .plain x => if x.boomFill.isNone && x.boomGen.isNone then some x.base else none
    | .nest _ _ => none)

def handleRunX (j : Json) : Json :=
  match (arr? (getD j "brs")).bind (fun a => a.toList.mapM ospecX?),
      (arr? (getD j "flows")).bind (fun a => a.toList.mapM flow?), bufArg? (getD j "bufarg"),
      bool? (getD j "copy_buf") with
  | some osp, some flows, some ba, some cb =>
    match bufArgInit ba with
    | .error e => Json.mkObj [("init", excJson e)]
    | .ok (bs, bad) =>
      let brs := mkBranchesX 0 osp
      let bs := cacheRule bs (ospecKinds osp)
      let s : SplitX NStateX V String := { branches := brs, bufsize := bs, copyBuf := cb, badBufsize := bad && bs.isSome }
      let rs := runsX s flows
      let ids := brs.map (·.id)
      let runsJ := (rs.zip flows).map (fun (r, flow) => runXJson ids brs.isEmpty flow r)
      -- the same consecutive runs through `Split.runObj` / `Split.runFull` (no exceptions, no nesting)
      let objJ := match plainOnly? osp, bad with
        | some hs, false =>
          let sp : Split BState V := { branches := mkHBranches 0 hs, bufsize := bs, copyBuf := cb }
          ofList (ofList vJson) (runsObj sp flows)
        | _, _ => Json.null
      -- `objAfter`: the objects after the first run, branch by branch (specification side of `runFull_seqs`)
      let specJ := match plainOnly? osp, bad, flows with
        | some hs, false, flow :: _ =>
          ofList (fun b => bstateJson (objAfter b (blocks bs flow)).st) (mkHBranches 0 hs)
        | _, _, _ => Json.null
      -- `SplitX.forget` (specification side of `runX_prefix`): the first run with the exceptions forgotten
      let forgetJ := match flows with
        | flow :: _ => if brs.isEmpty then ofList vJson flow else ofList vJson (outputs (s.forget.runTrace flow))
        | [] => Json.null
      Json.mkObj [("runs", Json.arr runsJ.toArray), ("obj_runs", objJ), ("spec_states", specJ),
        ("forget_out", forgetJ)]
  | _, _, _, _ => err "bad runx args"

/-! ### op "inter": several generators of one Split object, consumed alternately (stateless branches)

  {"op":"inter","brs":[S..],"flows":[[ints]..],"sched":[k..],"bufsize":n|null,"copy_buf":bool}
      S = {"k":"src","n":k} | {"k":"fc","m":int|null} | {"k":"fr","m":int|null} | {"k":"sq","v":"map"|"even"|"dup"|"lam"}
          (+ "pre"/"post")
      -> {"outs":[[V..]..],"alone":[[V..]..]}
         "outs": the generator machines of `Model/C03G.lean` (`microStep` on one shared `ObjStore`): `next()` is
         called on generator k for every k of "sched", then the generators are drained one after another;
         "alone": `Split.run` of every flow -/

def ssq? : String → Option SSq
  | "map" => some .map | "even" => some .even | "dup" => some .dup | "lam" => some .lam | _ => none

def sspec? (j : Json) : Option SHSpec :=
  let pre := (bool? (getD j "pre")).getD false
  let post := (bool? (getD j "post")).getD false
  let base : Option SSpec := match str? (getD j "k") with
    | some "src" => (nat? (getD j "n")).map SSpec.src
    | some "fc" => (optInt (getD j "m")).map SSpec.fc
    | some "fr" => (optInt (getD j "m")).map SSpec.fr
    | some "sq" => ((str? (getD j "v")).bind ssq?).map SSpec.sq
    | _ => none
  base.map (fun b => { base := b, pre := pre, post := post })

/-- a generator of the machine together with the values of its current step that were not handed out yet -/
structure GenY where
  g : GenS V
  pending : List V
  out : List V

/-- `next(gen)`: hand out a pending value, or make micro steps on the shared objects until one yields values or
the generator is exhausted (`fuel` bounds the steps without a value) -/
def nextY (bs : Option Nat) : Nat → ObjStore Unit V → GenY → ObjStore Unit V × GenY
  | 0, st, y => (st, y)
  | fuel + 1, st, y =>
    match y.pending with
    | v :: r => (st, { y with pending := r, out := y.out ++ [v] })
    | [] =>
      if y.g.fin then (st, y) else
      let r := microStep bs st y.g
      nextY bs fuel r.2.1 { y with g := r.2.2, pending := outputs r.1 }

def schedY (bs : Option Nat) (fuel : Nat) : List Nat → ObjStore Unit V → List GenY → ObjStore Unit V × List GenY
  | [], st, ys => (st, ys)
  | k :: rest, st, ys =>
    match ys[k]? with
    | none => schedY bs fuel rest st ys
    | some y =>
      let r := nextY bs fuel st y
      schedY bs fuel rest r.1 (ys.set k r.2)

/-- drain generator `k`: `next()` until it is exhausted (at most `n` values) -/
def drainY (bs : Option Nat) (fuel : Nat) (k : Nat) : Nat → ObjStore Unit V → List GenY → ObjStore Unit V × List GenY
  | 0, st, ys => (st, ys)
  | n + 1, st, ys =>
    match ys[k]? with
    | none => (st, ys)
    | some y =>
      if y.g.fin && y.pending.isEmpty then (st, ys) else
      let r := nextY bs fuel st y
      drainY bs fuel k n r.1 (ys.set k r.2)

def handleInter (j : Json) : Json :=
  match (arr? (getD j "brs")).bind (fun a => a.toList.mapM sspec?),
      (arr? (getD j "flows")).bind (fun a => a.toList.mapM flow?),
      (arr? (getD j "sched")).bind (fun a => a.toList.mapM nat?), optNat (getD j "bufsize"),
      bool? (getD j "copy_buf") with
  | some sp, some flows, some sched, some bs, some cb =>
    let brs := mkStatelessBranches 0 sp
    let s : Split Unit V := { branches := brs, bufsize := bs, copyBuf := cb }
    let alone := flows.map s.run
    match brs with
    | [] => Json.mkObj [("outs", ofList (ofList vJson) alone), ("alone", ofList (ofList vJson) alone)]
    | d :: _ =>
      let st := storeOf d brs
      let ids := brs.map (·.id)
      let ys : List GenY := flows.map (fun f => { g := GenS.start ids f, pending := [], out := [] })
      let maxlen := flows.foldl (fun m f => max m f.length) 0
      let fuel := genFuel brs.length maxlen + 2
      let r := schedY bs fuel sched st ys
      -- then the rest, one generator after the other
      let total := (maxlen + 2) * (2 * brs.length + 4) + 10
      let r2 := (List.range flows.length).foldl (fun (acc : ObjStore Unit V × List GenY) k =>
        drainY bs fuel k total acc.1 acc.2) r
      -- the definitions the theorems of `Props/C03G.lean` are about, executed as they stand: one generator alone
      -- (`genIter` with `genFuel` steps: `gen_alone`), and `runSched` on a step-level schedule: every entry of
      -- "sched" lets that generator make three steps, then round robin until all are exhausted (`interleaved_runs`)
      let gen := flows.map (fun f => outputs (genIter bs (genFuel brs.length f.length) st (GenS.start ids f)).1)
      let nf := flows.length
      let micro := sched.flatMap (fun k => [k, k, k]) ++
        (List.range (nf * genFuel brs.length maxlen)).map (fun i => i % nf)
      let rs := runSched bs micro st (flows.map (fun f => (GenS.start ids f, [])))
      Json.mkObj [("outs", ofList (fun (y : GenY) => ofList vJson y.out) r2.2),
        ("alone", ofList (ofList vJson) alone),
        ("gen", ofList (ofList vJson) gen),
        ("micro", ofList (fun (p : GenS V × List (Ev V)) => ofList vJson (outputs p.2)) rs.2)]
  | _, _, _, _, _ => err "bad inter args"

/-! ### op "zipctx": Zip on values with context, `fields`

  {"op":"zipctx","n":n,"zk":k,"fields":null|{"list":k}|{"str":k},"kind":"fc"|"fr",
   "results":[[{"d":V,"c":D}..]..]}       D = array of slots over the sorted key alphabet (null = absent,
                                           integer = leaf, array = dictionary); zk = number of the key "zip"
      -> {"init":{"e":..}} | {"r":[{"data":[V..],"bare":b,"common":D,"zip":[D..]|null}..],"raised":b} -/

partial def toCVal (j : Json) : Option (Val Int) :=
  match j with
  | .arr a => (a.toList.mapM toSlot).map Val.dict
  | _ => (int? j).map Val.leaf
where toSlot (j : Json) : Option (Option (Val Int)) :=
  if j.isNull then some none else (toCVal j).map some

def toCDict (j : Json) : Option (Slots Int) :=
  match toCVal j with
  | some (.dict l) => some l
  | _ => none

partial def ofCVal : Val Int → Json
  | .leaf i => ofInt i
  | .dict l => Json.arr (l.map (fun | none => Json.null | some v => ofCVal v)).toArray

partial def vOfJson (j : Json) : Option V :=
  match j with
  | .arr a => (a.toList.mapM vOfJson).map V.tup
  | .str s => some (.str s)
  | _ => (int? j).map V.int

def zitem? (j : Json) : Option (ZItem V Int) :=
  match vOfJson (getD j "d"), toCDict (getD j "c") with
  | some d, some c => some { data := d, ctx := c }
  | _, _ => none

def fieldsArg? (j : Json) : Option FieldsArg :=
  if j.isNull then some .none else
  match nat? (getD j "list"), nat? (getD j "str") with
  | some k, _ => some (.list k)
  | _, some k => some (.str k)
  | _, _ => none

def handleZipCtx (j : Json) : Json :=
  match nat? (getD j "n"), nat? (getD j "zk"), fieldsArg? (getD j "fields"), str? (getD j "kind"),
      (arr? (getD j "results")).bind (fun a => a.toList.mapM (fun r => (arr? r).bind (fun b => b.toList.mapM zitem?))) with
  | some n, some zk, some f, some kind, some results =>
    let o : Obj := if kind == "fr" then .el (caps? "fq") else .el (caps? "fc")
    match zipInitFields (results.map (fun _ => o)) f with
    | .error e => Json.mkObj [("init", excJson e)]
    | .ok (_, arity) =>
      let r := zipYieldCtx (fun (i : Int) => i != 0) n zk arity results
      Json.mkObj [("r", ofList (fun (v : ZVal V Int) =>
          Json.mkObj [("data", ofList vJson v.data), ("bare", Json.bool v.bare),
            ("common", ofCVal (.dict v.z.common)),
            -- `ZVal.recover j`: the context of the j-th sequence's result, recovered from the yielded value
            ("recovered", ofList (fun j => ofCVal (.dict (v.recover j))) (List.range results.length)),
            ("zip", ofOpt (ofList (fun d => ofCVal (.dict d))) v.z.zip)]) r.1),
        ("raised", Json.bool r.2)]
  | _, _, _, _, _ => err "bad zipctx args"

def handle (j : Json) : Json :=
  match str? (getD j "op") with
  | some "run" =>
    match obrs? j, flow? (getD j "flow"), (arr? (getD j "bufsizes")).bind (fun a => a.toList.mapM optNat),
        bool? (getD j "copy_buf") with
    | some osp, some flow, some bss, some cb =>
      let spec := (bool? (getD j "spec")).getD false
      -- without a nested Split the branches are the harness elements themselves (`mkHarnessBranches`)
      match osp.mapM (fun o => match o with
          | .plain h => if h.pre || h.post then none else some h.base
          | .nest _ => none) with
      | some sp => Json.mkObj [("runs", ofList (runOne spec (mkHarnessBranches 0 sp) (bspecKinds sp) cb flow) bss)]
      | none =>
        let kc := osp.map (fun o => match o with
          | .plain h => (h.base.kind, h.base.ctree)
          | .nest inner => (nestKind inner, CTree.seq [.split (inner.map BSpec.ctree)]))
        Json.mkObj [("runs", ofList (runOne spec (mkOuterBranches 0 osp) kc cb flow) bss)]
    | _, _, _, _ => err "bad run args"
  | some "runx" => handleRunX j
  | some "inter" => handleInter j
  | some "exc" =>
    -- the transcribed class hierarchy (`Model/C03Exc.lean`) and the `except LenaStopFill` clause (`catchStopFill`)
    match (str? (getD j "name")).bind ExcClass.ofName with
    | some c =>
      Json.mkObj [("name", c.name), ("bases", ofList (fun (b : ExcClass) => Json.str b.name) c.bases),
        ("stop", Json.bool c.isStopSignal), ("lena", Json.bool (c.isa .lenaException)),
        ("exception", Json.bool (c.isa .exception)),
        ("caught", Json.bool (match catchStopFill c with | .stop => true | _ => false)),
        ("caught_by_name", Json.bool (match catchStopFillName c.name with | .stop => true | _ => false))]
    | none => err "unknown exception class"
  | some "zipctx" => handleZipCtx j
  | some "methods" =>
    match brs? j, (arr? (getD j "blocks")).bind (fun a => a.toList.mapM flow?) with
    | some sp, some blocks =>
      let brs := mkHarnessBranches 0 sp
      let s : Split BState V := { branches := brs, bufsize := none, copyBuf := true }
      let m := methodsOf (brs.map (·.kind))
      let callJ := match s.call with
        | .error e => excJson e
        | .ok r => ofList vJson r.1
      let fcJ := if m.compute then
          let r := splitFillAll brs blocks.flatten
          Json.mkObj [("stopped", Json.bool r.2), ("out", ofList vJson (splitCompute r.1).1)]
        else Json.null
      let frJ := if m.request then
          let r := splitFrBlocks brs blocks
          Json.mkObj [("stopped", Json.bool r.2), ("outs", ofList (ofList vJson) r.1)]
        else Json.null
      -- `Accepts b flow` and `filled b flow` (specification side of the common-type theorems)
      let accJ := ofList (fun b => Json.bool (!(fillBuf b.id b.ops b.st blocks.flatten).2.2)) brs
      let filledJ := ofList (fun b => bstateJson (filled b blocks.flatten).st) brs
      Json.mkObj [("methods", methodsJson m), ("call", callJ), ("fc", fcJ), ("fr", frJ),
        ("accepts", accJ), ("filled", filledJ)]
    | _, _ => err "bad methods args"
  | some "zip" =>
    match brs? j, flow? (getD j "flow") with
    | some sp, some flow =>
      let brs := mkHarnessBranches 0 sp
      if brs.isEmpty then excJson .lenaTypeError else
      match zipTypeOf (brs.map (·.kind)) with
      | .error e => excJson e
      | .ok t =>
        let r := splitFillAll brs flow
        let res := match t with
          | .fillCompute => zipCompute r.1
          | .fillRequest => zipRequest r.1
        let rs := match t with
          | .fillCompute => zipCollect (·.compute) r.1
          | .fillRequest => zipCollect (·.request) r.1
        let maxlen := rs.foldl (fun m l => max m l.length) 0
        let twice := match t with
          | .fillCompute => zipTwice (·.compute) r.1
          | .fillRequest => zipTwice (·.request) r.1
        Json.mkObj [("stopped", Json.bool r.2), ("r", ofList (ofList vJson) res),
          ("r2", ofList (ofList vJson) twice.2),
          ("cols", ofList (fun i => ofOpt (ofList vJson) (colAt i rs)) (List.range (maxlen + 1)))]
    | _, _ => err "bad zip args"
  | some "init" =>
    match (arr? (getD j "objs")).bind (fun a => a.toList.mapM obj?), optInt (getD j "bufsize"),
        bool? (getD j "is_list") with
    | some objs, some bs, some isList =>
      -- "cache": per argument the list of `is_cache` flags of its elements (absent: none has it)
      let flags : List (List Bool) := match arr? (getD j "objs") with
        | some a => a.toList.map (fun o => match arr? (getD o "cache") with
            | some c => c.toList.map (fun b => (bool? b).getD false)
            | none => [])
        | none => []
      let sj := match splitInitC isList (objs.zip flags) bs with
        | .error e => excJson e
        | .ok (kinds, ebs) =>
          Json.mkObj [("kinds", ofList (fun k => Json.str (kindName k)) kinds),
            ("methods", methodsJson (methodsOf kinds)),
            -- the `_bufsize` the constructed Split works with (Cache rule applied)
            ("bufsize", ofOpt ofNat ebs)]
      let zj := match zipInit objs with
        | .error e => excJson e
        | .ok .fillCompute => Json.mkObj [("type", "fill_compute")]
        | .ok .fillRequest => Json.mkObj [("type", "fill_request")]
      Json.mkObj [("split", sj), ("zip", zj),
        ("is_fc_seq", ofList (fun o => Json.bool o.isFillComputeSeq) objs),
        ("is_fr_seq", ofList (fun o => Json.bool o.isFillRequestSeq) objs)]
    | _, _, _ => err "bad init args"
  | _ => err "unknown op"

/-- replies are sent as `{"z": "<reply, compressed JSON>"}`: the harness keeps the string and parses it when
it compares (the parsed replies of a thorough run would need several GB) -/
def handleZ (j : Json) : Json :=
  let r := handle j
  match r.getObjVal? "err" with
  | .ok _ => r
  | .error _ => Json.mkObj [("z", Json.str r.compress)]

def main : IO Unit := run handleZ
