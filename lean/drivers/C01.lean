import LenaModel.DriverUtil
import LenaModel.Model.C01
import LenaModel.Model.C01Kinds
/-! Model driver for C01.  Values: int | "str" | [list] | {"t":[tuple]} | {"d":{dict}} | {"q":[n,d]}.
Element specs: see `specOf`.  Requests:
  {"op":"run","prog":[spec..],"flow":[v..],"term":null|exc}   Sequence(*prog).run(flow)   (nested {"k":"seq"} = bracketing);
                                                 "term": the input iterator raises this exception after its values
  {"op":"tree","prog":[spec..],"flow":..}        the same through `Spec.toTree` and `build` (the definitions the
                                                 regrouping theorems are about)
  {"op":"flat","prog":[spec..],"flow":[v..]}     Sequence(*meta.flatten(Sequence(*prog))).run(flow)
  {"op":"fold","prog":[spec..],"flow":[v..]}     compose the documented transformations `Element.den` of the flattened
                                                 data elements (the right-hand side of `run_eq_fold`)
  {"op":"flats","prog":[spec..]}                 number of top-level elements after dissolving nested {"k":"seq"} groups
  {"op":"rerun","prog":[..],"pasts":[[v..]..],"flow":[v..],"cut":k}   one Sequence object run repeatedly
  {"op":"sound","prog":[..]}                     conversion chosen per data element, and Stored.soundB
  {"op":"callall","prog":[callables],"flow":..}  mapS (callAll es) flow
  {"op":"splits","branches":[[spec..]..],"bufsize":b,"flow":..}   Split.run by the schedule `splitS`
  {"op":"source","args":[spec..]}                Source(*args)()
  {"op":"source_then","args":[..],"prog":[..]}   Sequence(*prog).run(Source(*args)())
  {"op":"flags","spec":spec}                     what the constructors can observe of the object
  {"op":"runk","prog":[..],"flow":..,"term":..,"kind":"iterable"|"iterator"}   Sequence(*prog).run(<flow object of that kind>)
                                                 with the two `flow_to_iter` of the code (`runObj`); reply has "kind"
  {"op":"rawrun","spec":spec,"flow":..,"term":..,"kind":..}   the stored entry of one element run directly on the flow
                                                 object, no conversion (`Stored.runObj`: `Count.run` takes `next(flow)`)
  {"op":"sourcek","args":[spec..],"kind":..}     Source(*args)() when the first element's flow is an object of that kind
Replies: {"r":[v..],"t":null|exc,"eager":bool} (values yielded, how the iteration ended, whether the exception was
raised by the call itself) | {"e":<exception>,"phase":"init"} -/
open Lean Lena.Drv Lena.Flow Lena.C01

partial def valueOf (j : Json) : Option Value :=
  match j with
  | .num _ => (int? j).map Value.int
  | .str s => some (.str s)
  | .arr a => (a.toList.mapM valueOf).map Value.list
  | .obj _ =>
    match j.getObjVal? "t", j.getObjVal? "d", j.getObjVal? "q" with
    | .ok (.arr a), _, _ => (a.toList.mapM valueOf).map Value.tup
    | _, .ok (.obj kvs), _ =>
      (kvs.toList.mapM fun (kv : String × Json) => (valueOf kv.2).map fun w => (kv.1, w)).map Value.dict
    | _, _, .ok (.arr #[n, d]) => do some (.quot (← int? n) (← int? d))
    | _, _, _ => none
  | _ => none

partial def valueJson : Value → Json
  | .int i => ofInt i
  | .str s => Json.str s
  | .quot n d => Json.mkObj [("q", Json.arr #[ofInt n, ofInt d])]
  | .list xs => Json.arr (xs.map valueJson).toArray
  | .tup xs => Json.mkObj [("t", Json.arr (xs.map valueJson).toArray)]
  | .dict kvs => Json.mkObj [("d", Json.mkObj (kvs.map fun (k, v) => (k, valueJson v)))]

def valuesOf (j : Json) : Option (List Value) := do (← arr? j).toList.mapM valueOf

def excOf : String → Option Exc
  | "LenaTypeError" => some .lenaTypeError
  | "LenaValueError" => some .lenaValueError
  | "LenaStopFill" => some .lenaStopFill
  | "LenaZeroDivisionError" => some .lenaZeroDivisionError
  | "LenaAttributeError" => some .lenaAttributeError
  | "LenaNotImplementedError" => some .lenaNotImplementedError
  | "Other:TypeError" => some .typeError
  | "Other:AttributeError" => some .attributeError
  | "Other:IndexError" => some .indexError
  | "Other:ValueError" => some .valueError
  | _ => none

/-- the input flow of a request: "flow" and the optional "term" -/
def strmOf (j : Json) : Option (Strm Value) := do
  let vals ← valuesOf (getD j "flow")
  let t := getD j "term"
  if t.isNull then some ⟨vals, none⟩ else some ⟨vals, some (← excOf (← str? t))⟩

def fnOf : String → Option Fn
  | "inc" => some .inc | "neg" => some .neg | "mod3" => some .mod3
  | "ident" => some .ident | "wrap" => some .wrap | "boom" => some .boom | _ => none

def predOf : String → Option Pred
  | "even" => some .even | "pos" => some .pos | "lt5" => some .lt5
  | "all" => some .all | "none" => some .none | _ => none

def attrOf (j : Json) : Option Attr :=
  match nat? j with
  | some 0 => some .absent | some 1 => some .value | some 2 => some .method | _ => none

def attrNat : Attr → Nat
  | .absent => 0 | .value => 1 | .method => 2

def accOfJson (j : Json) : Option AccKind :=
  match str? (getD j "a") with
  | some "sum" => some .sum
  | some "mean" => some .mean
  | some "store" => (bool? (getD j "group")).map AccKind.store
  | some "count" => (str? (getD j "name")).map AccKind.count
  | _ => none

partial def specOf (j : Json) : Option Spec :=
  let specs (k : String) : Option (List Spec) := do (← arr? (getD j k)).toList.mapM specOf
  match str? (getD j "k") with
  | some "call" => do some (.call (← fnOf (← str? (getD j "f"))))
  | some "var" => do some (.var (← str? (getD j "name")) (← fnOf (← str? (getD j "f"))))
  | some "filter" => do some (.filter (← predOf (← str? (getD j "p"))))
  | some "slice" => do
    let a ← (← arr? (getD j "args")).toList.mapM optInt
    match a with
    | [b] => some (.slice none b none)
    | [a, b] => some (.slice a b none)
    | [a, b, s] => some (.slice a b s)
    | _ => none
  | some "count" => do some (.count (← str? (getD j "name")))
  | some "runif" => do some (.runIf (← predOf (← str? (getD j "p"))) (← specs "inner"))
  | some "reverse" => some .reverse
  | some "end" => some .end_
  | some "acc" => (accOfJson j).map Spec.acc
  | some "seq" => (specs "els").map Spec.seq
  | some "split" => do
    let bs ← (← arr? (getD j "branches")).toList.mapM fun b => do (← arr? b).toList.mapM specOf
    let bufsize := getD j "bufsize"
    let b ← if bufsize.isNull then some none else (nat? bufsize).map some
    some (.split bs b)
  | some "syn" => do
    let r ← attrOf (getD j "run")
    let c ← bool? (getD j "call")
    let f ← attrOf (getD j "fill")
    let p ← attrOf (getD j "compute")
    let n ← bool? (getD j "nodata")
    if (getD j "request").isNull then some (.syn r c f p n)
    else some (.synX r c f p n (← attrOf (getD j "request")) (← attrOf (getD j "fill_into"))
                (← attrOf (getD j "reset")) (← attrOf (getD j "alter")))
  | some "iterobj" => do
    let t := getD j "term"
    let term ← if t.isNull then some none else (excOf (← str? t)).map some
    some (.iterObj (← str? (getD j "cls")) (← valuesOf (getD j "flow")) term)
  | some "run" => do some (.runAdapter (← specOf (getD j "el")))
  | some "runnamed" => do some (.runNamed (← specOf (getD j "el")))
  | some "runnone" => do some (.runNone (← fnOf (← str? (getD j "f"))))
  | some "runnonebad" => some .runNoneBad
  | some "callx" => do
    let e ← if (getD j "exc").isNull then some Exc.valueError else excOf (← str? (getD j "exc"))
    some (.callX (← bool? (getD j "none")) e)
  | some "filterx" => do some (.filterX (← excOf (← str? (getD j "exc"))))
  | some "synraise" => do some (.synRaise (← excOf (← str? (getD j "exc"))))
  | some "both" => do some (.both (← valuesOf (getD j "cflow")) (← valuesOf (getD j "iflow")))
  | some "runalt" => do some (.runAlt (← bool? (getD j "hasrun")) (← attrOf (getD j "alt")))
  | some "classobj" => some .classObj
  | some "junk" => some .junk
  | some "setctx" => some .setContext
  | some "gen" => (valuesOf (getD j "flow")).map Spec.gen
  | some "iter" => (valuesOf (getD j "flow")).map Spec.iter
  | _ => none

def specsOf (j : Json) : Option (List Spec) := do (← arr? j).toList.mapM specOf

def initErr (e : Exc) : Json := Json.mkObj [("e", e.name), ("phase", "init")]

def termJson : Option Exc → Json
  | none => Json.null
  | some e => Json.str e.name

def outJson : Except Exc (Strm Value) → Json
  | .ok s => Json.mkObj [("r", ofList valueJson s.vals), ("t", termJson s.term), ("eager", Json.bool false)]
  | .error e => Json.mkObj [("r", Json.arr #[]), ("t", Json.str e.name), ("eager", Json.bool true)]

def handle (j : Json) : Json :=
  match str? (getD j "op") with
  | some "run" =>
    match specsOf (getD j "prog"), strmOf j with
    | some prog, some flow =>
      match Spec.toElement (.seq prog) with
      | .error e => initErr e
      | .ok s => outJson (s.invokeRun flow)
    | _, _ => err "bad run args"
  | some "tree" =>
    match specsOf (getD j "prog"), strmOf j with
    | some prog, some flow =>
      match Spec.toElement (.seq prog) with       -- constructor exceptions in Python's evaluation order
      | .error e => initErr e
      | .ok _ =>
        match Spec.toTree (.seq prog) with
        | .error e => initErr e
        | .ok t =>
          match build t with
          | .error e => initErr e
          | .ok el => outJson (el.invokeRun flow)
    | _, _ => err "bad tree args"
  | some "flat" =>
    match specsOf (getD j "prog"), strmOf j with
    | some prog, some flow =>
      -- the real call needs the constructed nested sequence first
      match Spec.toElement (.seq prog) with
      | .error e => initErr e
      | .ok _ =>
        match Spec.toTree (.seq prog) with
        | .error e => initErr e
        | .ok t =>
          match mkSequence (flatten t) with
          | .error e => initErr e
          | .ok s => outJson (s.run flow)
    | _, _ => err "bad flat args"
  | some "fold" =>
    match specsOf (getD j "prog"), strmOf j with
    | some prog, some flow =>
      match Spec.toElement (.seq prog) with
      | .error e => initErr e
      | .ok _ =>
        match Spec.toTree (.seq prog) with
        | .error e => initErr e
        | .ok t => outJson (composeS ((dataSeq (flatten t)).map Element.den) flow)
    | _, _ => err "bad fold args"
  | some "flats" =>
    match specsOf (getD j "prog") with
    | some prog =>
      -- `len(Sequence(*prog))` and what `meta.flatten` returns for it / for its first argument alone
      let nargs : Json := match Spec.toElement (.seq prog) with
        | .ok _ => ofNat prog.length
        | .error _ => Json.null
      let shape1 : Json := match prog with
        | s :: _ => (match Spec.toTree s with
                     | .ok (.leaf _) => Json.str "element"
                     | .ok t => ofNat (flatten t).length
                     | .error _ => Json.null)
        | [] => Json.null
      Json.mkObj [("n", ofNat (Spec.flats prog).length), ("nargs", nargs), ("first", shape1)]
    | none => err "bad flats args"
  | some "rerun" =>
    -- one `Sequence(*prog)` object run on every flow of "pasts" (drained), then on "flow":
    -- "whole" = `Seq.rerun`; "split" = the form of `seq_rerun_append` with the sequence cut at "cut"
    match specsOf (getD j "prog"), strmOf j, (arr? (getD j "pasts")).bind (fun a => a.toList.mapM valuesOf),
          nat? (getD j "cut") with
    | some prog, some flow, some pasts, some cut =>
      let past := pasts.map Strm.ofList
      match Spec.toElements prog with
      | .error e => initErr e
      | .ok es =>
        match mkSequence es, mkSequence (es.take cut), mkSequence (es.drop cut) with
        | .ok s, .ok sa, .ok sb =>
          Json.mkObj [("whole", outJson (s.rerun past flow)),
                      ("split", outJson (sa.rerun past flow >>= sb.rerun (pastOutsAll sa.stored past))),
                      -- new sequence objects around the used elements: every entry with its own history
                      ("hist", outJson (runWithHist (histories s.stored past) flow)),
                      ("pasts", Json.arr ((List.range past.length).map
                        (fun i => outJson (s.rerun (past.take i) ((past.drop i).headD .nil)))).toArray)]
        | .error e, _, _ => initErr e
        | _, .error e, _ => initErr e
        | _, _, .error e => initErr e
    | _, _, _, _ => err "bad rerun args"
  | some "sound" =>
    -- per stored entry of `Sequence(*prog)` (flat): the conversion chosen and whether its method exists
    match specsOf (getD j "prog") with
    | some prog =>
      match Spec.toElements prog with
      | .error e => initErr e
      | .ok es =>
        match mkSequence es with
        | .error e => initErr e
        | .ok s => Json.mkObj [("modes", Json.arr (s.stored.map (fun st => Json.str st.modeName)).toArray),
                               ("sound", Json.arr (s.stored.map (fun st => Json.bool st.soundB)).toArray)]
    | none => err "bad sound args"
  | some "callall" =>
    -- the right-hand side of `run_callables`
    match specsOf (getD j "prog"), strmOf j with
    | some prog, some flow =>
      match Spec.toElements prog with
      | .error e => initErr e
      | .ok es => outJson (.ok (mapS (callAll es) flow))
    | _, _ => err "bad callall args"
  | some "splits" =>
    -- `Split([tuple..], bufsize).run(flow)` by the simple schedule `splitS` (stateless sequence branches)
    match (arr? (getD j "branches")).bind (fun a => a.toList.mapM specsOf), strmOf j with
    | some bss, some flow =>
      let bufsize := getD j "bufsize"
      match Spec.toElementss bss with
      | .error e => initErr e
      | .ok ess =>
        match ess.mapM mkSequence with
        | .error e => initErr e
        | .ok seqs =>
          if (nat? bufsize) = some 0 then initErr .lenaValueError
          else outJson (.ok (splitS (seqs.map Seq.run) (if bufsize.isNull then none else nat? bufsize) flow))
    | _, _ => err "bad splits args"
  | some "source" =>
    match specsOf (getD j "args") with
    | some args =>
      match Spec.toElements args with
      | .error e => initErr e
      | .ok es =>
        match mkSource es with
        | .error e => initErr e
        | .ok src =>
          -- "spec": the right-hand side of `source_tail` (`Element.sourceFlow` of the first data element fed to
          -- `Sequence(*rest)`)
          let spec : Json := match dataSeq es with
            | f :: rest => (match mkSequence rest with
                            | .ok s => outJson (f.sourceFlow >>= s.run)
                            | .error _ => Json.null)
            | [] => Json.null
          match outJson src.call with
          | .obj kvs => Json.obj (kvs.insert "spec" spec)
          | j => j
    | none => err "bad source args"
  | some "source_rerun" =>
    -- one `Source(*args)` object called "k" times (every call drained)
    match specsOf (getD j "args"), nat? (getD j "k") with
    | some args, some k =>
      match Spec.toElements args with
      | .error e => initErr e
      | .ok es =>
        match mkSource es with
        | .error e => initErr e
        | .ok src => Json.mkObj [("outs", Json.arr ((List.range k).map (fun i => outJson (src.callAt i))).toArray)]
    | _, _ => err "bad source_rerun args"
  | some "runifs" =>
    -- `RunIf(p, *inner).run(flow)` by the history-free `runIfS`
    match (str? (getD j "p")).bind predOf, specsOf (getD j "inner"), strmOf j with
    | some p, some inner, some flow =>
      match Spec.toElements inner with
      | .error e => initErr e
      | .ok es =>
        match runIfSeq (match inner with | [.seq _] => true | _ => false) es with
        | .error e => initErr e
        | .ok s => outJson (.ok (runIfS p.eval s.invokeRun flow))
    | _, _, _ => err "bad runifs args"
  | some "accold" =>
    -- the list-level accumulators of `Model/Flow.lean` (`accFill`/`accCompute`) on a flow without floats
    match accOfJson j, valuesOf (getD j "flow") with
    | some k, some flow =>
      match (accOf k).run flow with
      | .ok ys => Json.mkObj [("r", ofList valueJson ys), ("t", Json.null)]
      | .error e => Json.mkObj [("r", Json.arr #[]), ("t", Json.str e.name)]
    | _, _ => err "bad accold args"
  | some "pyslice" =>
    match (arr? (getD j "args")).bind (fun a => a.toList.mapM optInt), valuesOf (getD j "flow") with
    | some [b], some flow => Json.mkObj [("r", ofList valueJson (Lena.C17.pySlice flow none b 1))]
    | some [a, b], some flow => Json.mkObj [("r", ofList valueJson (Lena.C17.pySlice flow a b 1))]
    | some [a, b, st], some flow => Json.mkObj [("r", ofList valueJson (Lena.C17.pySlice flow a b ((st.getD 1).toNat)))]
    | _, _ => err "bad pyslice args"
  | some "source_then" =>
    match specsOf (getD j "args"), specsOf (getD j "prog") with
    | some args, some prog =>
      match Spec.toElements args with
      | .error e => initErr e
      | .ok es =>
        match mkSource es with
        | .error e => initErr e
        | .ok src =>
          match Spec.toElement (.seq prog) with
          | .error e => initErr e
          | .ok s =>
            match src.call with
            | .error e => outJson (.error e)
            | .ok flow => outJson (s.invokeRun flow)
    | _, _ => err "bad source_then args"
  | some "flags" =>
    match specOf (getD j "spec") with
    | some sp =>
      match Spec.toElement sp with
      | .error e => initErr e
      | .ok el => Json.mkObj [("run", ofNat (attrNat el.run)), ("call", Json.bool el.call),
          ("fill", ofNat (attrNat el.fill)), ("compute", ofNat (attrNat el.compute)),
          ("nodata", Json.bool el.hasNoData), ("iter", Json.bool el.hasIter),
          ("fill_into", Json.bool (el.fillInto.present && el.fillInto.callable)),
          ("can_break_flow", Json.bool el.canBreakFlow), ("is_split", Json.bool el.isSplit),
          ("request", ofNat (attrNat el.request)), ("fill_into_attr", ofNat (attrNat el.fillInto)),
          ("convertible", Json.bool el.convertible)]
    | none => err "bad flags args"
  | _ => err "unknown op"

def kindOf (j : Json) : Option FlowKind :=
  match str? j with
  | some "iterator" => some .iterator
  | some "iterable" => some .iterable
  | _ => none

def objJson : Except Exc (FlowObj Value) → Json
  | .ok f => Json.mkObj [("r", ofList valueJson f.strm.vals), ("t", termJson f.strm.term), ("eager", Json.bool false),
                         ("kind", Json.str (match f.kind with | .iterator => "iterator" | .iterable => "iterable"))]
  | .error e => Json.mkObj [("r", Json.arr #[]), ("t", Json.str e.name), ("eager", Json.bool true)]

/-- the stored entries of `Sequence(*prog)` with the shapes of the data arguments they come from -/
def shaped (prog : List Spec) (es : List (Element Value)) (s : Seq Value) : List (RunShape × Stored Value) :=
  (((prog.zip es).filter (fun p => !p.2.hasNoData)).map (fun p => ({ needsNext := p.1.needsNext } : RunShape))).zip s.stored

def handleK (j : Json) : Json :=
  match str? (getD j "op") with
  | some "runk" =>
    match specsOf (getD j "prog"), strmOf j, kindOf (getD j "kind") with
    | some prog, some flow, some k =>
      match Spec.toElements prog with
      | .error e => initErr e
      | .ok es =>
        match mkSequence es with
        | .error e => initErr e
        | .ok s => objJson (runObj (shaped prog es s) ⟨k, flow⟩)
    | _, _, _ => err "bad runk args"
  | some "rawrun" =>
    match specOf (getD j "spec"), strmOf j, kindOf (getD j "kind") with
    | some sp, some flow, some k =>
      match Spec.toElement sp with
      | .error e => initErr e
      | .ok el =>
        -- the element itself if it has a callable `run`, else `adapters.Run(el)`
        match convert el with
        | .error e => initErr e
        | .ok st => objJson (st.runObj { needsNext := sp.needsNext } ⟨k, flow⟩)
    | _, _, _ => err "bad rawrun args"
  | some "sourcek" =>
    match specsOf (getD j "args"), kindOf (getD j "kind") with
    | some args, some k =>
      match Spec.toElements args with
      | .error e => initErr e
      | .ok es =>
        match mkSource es with
        | .error e => initErr e
        | .ok src =>
          -- the tail is `Sequence(*data arguments after the first)`
          let data := (args.zip es).filter (fun p => !p.2.hasNoData)
          let ps := match src.tail with
            | some t => ((data.drop 1).map (fun p => ({ needsNext := p.1.needsNext } : RunShape))).zip t.stored
            | none => []
          objJson (src.callObj ps k)
    | _, _ => err "bad sourcek args"
  | _ => handle j

def main : IO Unit := run handleK
