import LenaModel.DriverUtil
import LenaModel.Model.Val
import LenaModel.Model.C07
import LenaModel.Model.C07Tok
import LenaModel.Model.C07Ext
import LenaModel.Model.C07Mut
import LenaModel.Model.C07Share
/-! Model driver for C07.  Values: a leaf is an integer (the class of the Python leaf under `==`),
a dictionary is the array of its slots over the case's sorted key alphabet, `null` = key absent.
Every reply `R` below is sent as `{"z": "<R compressed>"}` (see `handleZ`), errors as `{"err": …}`.
Requests (`n` = size of the alphabet, `falsy` = leaf classes that are false in boolean context):
  {"op":"pair","n":n,"a":D,"b":D,"levels":[..],"falsy":[..]}
      -> {"r":[{"iab":D,"iba":D,"dab":D,"dspec":D,"rec":D,"cab":b,"cba":b,"ciab_a":b,"ciab_b":b}, … per level],"upd":D,"da":depthL a}
  {"op":"inter","n":n,"level":l,"ds":[V,..],"falsy":[..]} -> {"r":D,"recs":[D,..]} | {"e":"LenaTypeError"}
      (recs: for every dictionary argument d, updL r (difference level d r))
  {"op":"diffv","level":l,"a":V,"b":V,"falsy":[..]} -> {"r":V}
  {"op":"update","d":V,"other":V}                  -> {"r":D} | {"e":"LenaTypeError"}
  {"op":"nested","k":k,"d":D,"other":D}            -> {"r":D,"depth":m} | {"e":"Other:TypeError","depth":m}
  {"op":"contained","level":l,"a":D,"b":D}         -> {"r":b}
  {"op":"assoc","n":n,"level":l,"a":D,"b":D,"c":D} -> {"abc":D,"ab_c":D,"a_bc":D,"perms":[D x 6],"fold2":D}
  {"op":"paths","d":D,"o":D,"paths":[[k,..],..]}   -> {"r":[{"u":b,"gd":{"v":V}|null,"gu":{"v":V}|null,"go":…}, …]}
      (u = untouchedL o p, gd = getPath d p, gu = getPath (updL d o) p, go = getPath o p)
  {"op":"tok","n":n,"a":T,"b":T,"c":c,"levels":[..],"falsy":[..]} -> {"r":[{"inter":T,"diff":T,"ilog":[ids],"dlog":[ids],…}, … per level]}
  {"op":"tokn","n":n,"level":l,"args":[T..],"c":c} -> {"r":T,"log":[ids]}      (intersection of any number of arguments)
  {"op":"mutseq","d":T,"others":[T..],"c":c} -> {"steps":[{"d":T,"log":[ids]}..]}   (successive update_recursively on one d)
  {"op":"cyc","key_in_d":b} -> {"ok":true} | {"e":"LenaValueError"}              (self-referential other of update_nested)
      token model: T = {"t":id,"s":[T|null,…]} (dictionary object) | {"l":class,"t":[ids]} (leaf and the mutable
      objects it consists of); `c` = first unused identity; identities >= c in the reply (new objects) are written -1
  {"op":"ustr","n":n,"d":V,"other":{"v":V}|{"s":{"empty":b,"keys":[k..],"last":class}},"value":{"v":V}|null}
      -> {"r":D} | {"e":"LenaTypeError"|"LenaValueError"}          (update_recursively, all argument forms)
  {"op":"kw","n":n,"level":l,"ds":[V..],"unknown":b} -> {"r":D} | {"e":"LenaTypeError"}
  {"op":"mn","k":k,"v":V} -> {"r":D} | {"e":…}                     (get_most_nested_subdict_with, nested_dicts = [])
  {"op":"zip","n":n,"zk":k,"values":[D..],"falsy":[..]} -> {"common":D,"zip":[D..]|null,"recs":[D..]} | {"e":"Other:TypeError"}
  {"op":"group","n":n,"o":k,"ch":k,"tt":c,"ff":c,"ctxs":[D..],"falsy":[..]} -> {"ctx":D,"inter":D,"recs":[D..]}
  {"op":"uwg","n":n,"o":k,"ch":k,"tt":c,"ff":c,"ctx":D,"new":[D..],"old":D[,"oldgrp":[D..]],"falsy":[..]} -> {"ctx":D}
  {"op":"share","n":n,"levels":[..],"args":[T..],"c":c,"falsy":[..]} -> {"r":[{"inter":Traw,"ierase":D[,"diff":T][,"obj":Traw]}, … per level],"copy":Traw}
      (arguments whose identities may repeat — one object at several places, within and between arguments: intersection
      with the memoising deepcopy, `interS`; `copy` = memoCopyV of the first argument; with two arguments also
      `diffArgs` and, for level ≠ 0, `obj` = `interObj2`: the loop executed as stores into the object `res`.  Traw: identities as they are — the harness compares the sharing pattern)
  {"op":"mutupd","d":T,"other":T,"c":c} -> {"d":T,"log":[ids]} | {"e":"LenaTypeError"}   (write log of update_recursively)
  {"op":"mutnest","k":k,"d":T,"other":T,"c":c} -> {"d":T,"log":[ids]} | {"e":"Other:TypeError"} -/
open Lean Lena Lena.Drv Lena.Val Lena.C07

partial def toVal (j : Json) : Option (Val Int) :=
  match j with
  | .arr a => (a.toList.mapM toSlot).map Val.dict
  | _ => (int? j).map Val.leaf
where toSlot (j : Json) : Option (Option (Val Int)) :=
  if j.isNull then some none else (toVal j).map some

def toDict (j : Json) : Option (Slots Int) :=
  match toVal j with
  | some (.dict l) => some l
  | _ => none

partial def ofVal : Val Int → Json
  | .leaf i => ofInt i
  | .dict l => Json.arr (l.map (fun | none => Json.null | some v => ofVal v)).toArray

def ofDict (l : Slots Int) : Json := ofVal (.dict l)

def ofOutWith (extra : List (String × Json)) : Out (Slots Int) → Json
  | .ok l => Json.mkObj (("r", ofDict l) :: extra)
  | .lenaTypeError => Json.mkObj (("e", "LenaTypeError") :: extra)
  | .typeError => Json.mkObj (("e", "Other:TypeError") :: extra)

def ofOut : Out (Slots Int) → Json := ofOutWith []

def ofOptVal : Option (Val Int) → Json
  | none => Json.null
  | some v => Json.mkObj [("v", ofVal v)]

def natList? (j : Json) : Option (List Nat) := do
  let a ← arr? j
  a.toList.mapM nat?

def normTok (c0 t : Nat) : Json := if t ≥ c0 then ofInt (-1) else ofNat t

partial def toTVal (j : Json) : Option (TVal Int) :=
  match arr? (getD j "s") with
  | some a => do
    let t ← nat? (getD j "t")
    let slots ← a.toList.mapM (fun x => if x.isNull then some none else (toTVal x).map some)
    some (.dict t slots)
  | none => do
    let cls ← int? (getD j "l")
    let ts ← natList? (getD j "t")
    some (.leaf ts cls)

partial def ofTVal (c0 : Nat) : TVal Int → Json
  | .leaf ts a => Json.mkObj [("l", ofInt a), ("t", Json.arr (ts.map (norm c0)).toArray)]
  | .dict t l => Json.mkObj [("t", norm c0 t),
      ("s", Json.arr (l.map (fun | none => Json.null | some v => ofTVal c0 v)).toArray)]
where norm (c0 t : Nat) : Json := if t ≥ c0 then ofInt (-1) else ofNat t

partial def ofTValRaw : TVal Int → Json
  | .leaf ts a => Json.mkObj [("l", ofInt a), ("t", Json.arr (ts.map ofNat).toArray)]
  | .dict t l => Json.mkObj [("t", ofNat t),
      ("s", Json.arr (l.map (fun | none => Json.null | some v => ofTValRaw v)).toArray)]

def shareAt (truthy : Int → Bool) (n c : Nat) (args : List (TVal Int)) (lv : Int) : Json :=
  let ti := (interS n lv c args).1
  Json.mkObj ([("inter", ofTValRaw ti), ("ierase", ofVal (eraseV ti))] ++
    (match args with
     | [.dict t l0, b] =>
       [("diff", ofTVal c (diffArgs truthy lv (.dict t l0) b c).1)] ++
       -- the loop executed as stores into the one object `res` (every occurrence changes): `inter_object_level`
       (if lv = 0 then [] else [("obj", ofTValRaw (interObj2 lv c t l0 (argSlotsS b)).1)])
     | _ => []))

def logJson (c : Nat) (l : List Nat) : Json := Json.arr (l.map (normTok c)).toArray

def subsJson (c : Nat) (v : TVal Int) : Json :=
  Json.arr ((subsV v).map (fun s => match rootTok s with | some t => normTok c t | none => Json.null)).toArray

def tokAt (truthy : Int → Bool) (n c : Nat) (a b : TVal Int) (lv : Int) : Json :=
  let ti := (interArgs n lv c [a, b]).1
  let td := (diffArgs truthy lv a b c).1
  Json.mkObj [
    ("inter", ofTVal c ti), ("diff", ofTVal c td),
    -- the statements that store into / delete from a dictionary, by the identity of that dictionary
    ("ilog", logJson c (interArgsLog lv c [a, b])), ("dlog", logJson c (diffArgsLog truthy lv a b c)),
    -- the vocabulary of the theorems, executed: identities reachable from the results, values without identities
    ("itoks", logJson c (toksV ti)), ("dtoks", logJson c (toksV td)),
    ("ierase", ofVal (eraseV ti)), ("derase", ofVal (eraseV td)), ("dsubs", subsJson c td)]

/-- successive `update_recursively(d, other_i)` on one `d` -/
def mutSeq (c : Nat) : TVal Int → List (TVal Int) → Nat → List Json
  | _, [], _ => []
  | d, o :: os, k =>
    match updT d o k with
    | some st =>
      Json.mkObj [("d", ofTVal c st.val), ("log", logJson c st.log)] :: mutSeq c st.val os st.next
    | none => [Json.mkObj [("e", "LenaTypeError")]]

def ofOutX : OutX (Slots Int) → Json
  | .ok l => Json.mkObj [("r", ofDict l)]
  | .lenaTypeError => Json.mkObj [("e", "LenaTypeError")]
  | .lenaValueError => Json.mkObj [("e", "LenaValueError")]
  | .typeError => Json.mkObj [("e", "Other:TypeError")]

def toOptVal (j : Json) : Option (Option (Val Int)) :=
  if j.isNull then some none else (toVal (getD j "v")).map some

def toOther (j : Json) : Option (Other Int) :=
  match j.getObjVal? "s" with
  | .ok s => do
    let e ← bool? (getD s "empty")
    let ks ← natList? (getD s "keys")
    let l ← int? (getD s "last")
    some (.str e ks l)
  | .error _ => (toVal (getD j "v")).map Other.val

def dictList? (j : Json) : Option (List (Slots Int)) :=
  (arr? j).bind (fun a => a.toList.mapM toDict)

def pathAt (d o : Slots Int) (p : List Nat) : Json :=
  Json.mkObj [
    ("u", Json.bool (untouchedL o p)),
    ("gd", ofOptVal (getPath (.dict d) p)),
    ("go", ofOptVal (getPath (.dict o) p)),
    ("gu", ofOptVal (getPath (.dict (updL d o)) p))]

def truthyOf (j : Json) : Int → Bool :=
  let falsy := (intList? (getD j "falsy")).getD []
  fun i => !falsy.contains i

def pairAt (truthy : Int → Bool) (n : Nat) (a b : Slots Int) (lv : Int) : Json :=
  let iab := interN n lv [a, b]
  let dab := difference truthy lv a b
  Json.mkObj [
    ("iab", ofDict iab), ("iba", ofDict (interN n lv [b, a])),
    ("dab", ofDict dab), ("dspec", ofDict (diffSpec lv a b)), ("rec", ofDict (updL iab dab)),
    ("cab", Json.bool (contained lv a b)), ("cba", Json.bool (contained lv b a)),
    ("ciab_a", Json.bool (contained lv iab a)), ("ciab_b", Json.bool (contained lv iab b))]

def handle (j : Json) : Json :=
  match str? (getD j "op") with
  | some "pair" =>
    match nat? (getD j "n"), toDict (getD j "a"), toDict (getD j "b"), intList? (getD j "levels") with
    | some n, some a, some b, some lvs =>
      if wfB n (.dict a) && wfB n (.dict b) then
        Json.mkObj [("r", Json.arr (lvs.map (pairAt (truthyOf j) n a b)).toArray), ("upd", ofDict (updL a b)),
                    ("da", ofNat (depthL a))]
      else err "pair: not well-formed"
    | _, _, _, _ => err "bad pair args"
  | some "inter" =>
    match nat? (getD j "n"), int? (getD j "level"), (arr? (getD j "ds")).bind (fun a => a.toList.mapM toVal) with
    | some n, some lv, some ds =>
      if ds.all (wfB n) then
        match intersection n lv ds with
        | .ok r =>
          let recs := ds.filterMap (fun v => (asDict v).map (fun d => ofDict (updL r (difference (truthyOf j) lv d r))))
          Json.mkObj [("r", ofDict r), ("recs", Json.arr recs.toArray)]
        | o => ofOut o
      else err "inter: not well-formed"
    | _, _, _ => err "bad inter args"
  | some "diffv" =>
    match int? (getD j "level"), toVal (getD j "a"), toVal (getD j "b") with
    | some lv, some a, some b => Json.mkObj [("r", ofVal (diffV (truthyOf j) lv a b))]
    | _, _, _ => err "bad diffv args"
  | some "update" =>
    match toVal (getD j "d"), toVal (getD j "other") with
    | some d, some o => ofOut (updateRecursively d o)
    | _, _ => err "bad update args"
  | some "nested" =>
    match nat? (getD j "k"), toDict (getD j "d"), toDict (getD j "other") with
    | some k, some d, some o =>
      if k < d.length && wfB d.length (.dict d) && wfB d.length (.dict o) then
        ofOutWith [("depth", ofNat (nestDepth k (.dict o)))] (updateNested k d o)
      else err "nested: not well-formed"
    | _, _, _ => err "bad nested args"
  | some "contained" =>
    match int? (getD j "level"), toDict (getD j "a"), toDict (getD j "b") with
    | some lv, some a, some b => Json.mkObj [("r", Json.bool (contained lv a b))]
    | _, _, _ => err "bad contained args"
  | some "assoc" =>
    match nat? (getD j "n"), int? (getD j "level"), toDict (getD j "a"), toDict (getD j "b"), toDict (getD j "c") with
    | some n, some lv, some a, some b, some c =>
      if wfB n (.dict a) && wfB n (.dict b) && wfB n (.dict c) then
        let i := interN n lv
        Json.mkObj [
          ("abc", ofDict (i [a, b, c])),
          ("ab_c", ofDict (i [i [a, b], c])),
          ("a_bc", ofDict (i [a, i [b, c]])),
          ("fold2", ofDict ([b, c].foldl (inter2 lv) a)),
          ("perms", Json.arr #[ofDict (i [a, b, c]), ofDict (i [a, c, b]), ofDict (i [b, a, c]),
                               ofDict (i [b, c, a]), ofDict (i [c, a, b]), ofDict (i [c, b, a])])]
      else err "assoc: not well-formed"
    | _, _, _, _, _ => err "bad assoc args"
  | some "tok" =>
    match nat? (getD j "n"), nat? (getD j "c"), toTVal (getD j "a"), toTVal (getD j "b"), intList? (getD j "levels") with
    | some n, some c, some a, some b, some lvs =>
      if wfB n (eraseV a) && wfB n (eraseV b) && (eraseV a).isDict && (eraseV b).isDict then
        Json.mkObj [("r", Json.arr (lvs.map (tokAt (truthyOf j) n c a b)).toArray)]
      else err "tok: not well-formed"
    | _, _, _, _, _ => err "bad tok args"
  | some "ustr" =>
    match nat? (getD j "n"), toVal (getD j "d"), toOther (getD j "other"), toOptVal (getD j "value") with
    | some n, some d, some o, some v => ofOutX (updateRecursivelyX n d o v)
    | _, _, _, _ => err "bad ustr args"
  | some "kw" =>
    match nat? (getD j "n"), int? (getD j "level"), (arr? (getD j "ds")).bind (fun a => a.toList.mapM toVal),
        bool? (getD j "unknown") with
    | some n, some lv, some ds, some u => ofOut (intersectionKw n u lv ds)
    | _, _, _, _ => err "bad kw args"
  | some "mn" =>
    match nat? (getD j "k"), toVal (getD j "v") with
    | some k, some v => ofOutX (mnV k [] v)
    | _, _ => err "bad mn args"
  | some "zip" =>
    match nat? (getD j "n"), nat? (getD j "zk"), dictList? (getD j "values") with
    | some n, some zk, some vs =>
      if vs.all (fun v => wfB n (.dict v)) then
        match zipCreateContext (truthyOf j) n zk vs with
        | .ok z =>
          let diffs := z.zip.getD (vs.map (fun _ => emptyLike z.common))
          Json.mkObj [("common", ofDict z.common),
            ("zip", match z.zip with | some ds => Json.arr (ds.map ofDict).toArray | none => Json.null),
            ("recs", Json.arr (diffs.map (fun d => ofDict (updL z.common d))).toArray)]
        | .typeError => Json.mkObj [("e", "Other:TypeError")]
        | .lenaTypeError => Json.mkObj [("e", "LenaTypeError")]
        | .lenaValueError => Json.mkObj [("e", "LenaValueError")]
      else err "zip: not well-formed"
    | _, _, _ => err "bad zip args"
  | some "group" =>
    match nat? (getD j "n"), nat? (getD j "o"), nat? (getD j "ch"), int? (getD j "tt"), int? (getD j "ff"),
        dictList? (getD j "ctxs") with
    | some n, some o, some ch, some tt, some ff, some cs =>
      if cs.all (fun v => wfB n (.dict v)) then
        let i := splitGetContext n cs
        Json.mkObj [("ctx", ofDict (groupPlotsContext (truthyOf j) n o ch tt ff cs)), ("inter", ofDict i),
          ("recs", Json.arr (cs.map (fun c => ofDict (updL i (difference (truthyOf j) (-1) c i)))).toArray)]
      else err "group: not well-formed"
    | _, _, _, _, _, _ => err "bad group args"
  | some "uwg" =>
    match nat? (getD j "n"), nat? (getD j "o"), nat? (getD j "ch"), int? (getD j "tt"), int? (getD j "ff"),
        toDict (getD j "ctx"), dictList? (getD j "new"), toDict (getD j "old") with
    | some n, some o, some ch, some tt, some ff, some ctx, some nw, some old =>
      -- MapGroup.run computes the old intersection itself from context.group ("oldgrp")
      let old' := match dictList? (getD j "oldgrp") with
        | some og => splitGetContext n og
        | none => old
      Json.mkObj [("ctx", ofDict (updateWithGroup (truthyOf j) n o ch tt ff ctx nw old'))]
    | _, _, _, _, _, _, _, _ => err "bad uwg args"
  | some "mutupd" =>
    match toTVal (getD j "d"), toTVal (getD j "other"), nat? (getD j "c") with
    | some d, some o, some c =>
      match updT d o c with
      | some st => Json.mkObj [("d", ofTVal c st.val), ("log", Json.arr (st.log.map (normTok c)).toArray),
          ("dicts", Json.arr ((dictToksV d).map ofNat).toArray),
          ("objs", Json.arr ((toksV st.val).map (normTok c)).toArray), ("erase", ofVal (eraseV st.val)),
          ("subs", Json.arr ((subsV st.val).map (fun s => match rootTok s with | some t => normTok c t | none => Json.null)).toArray)]
      | none => Json.mkObj [("e", "LenaTypeError")]
    | _, _, _ => err "bad mutupd args"
  | some "mutnest" =>
    match nat? (getD j "k"), toTVal (getD j "d"), toTVal (getD j "other"), nat? (getD j "c") with
    | some k, some (.dict td x), some (.dict to y), some c =>
      match toOut (updateNestedT k td x to y) with
      | .ok (d', log) => Json.mkObj [("d", ofTVal c d'), ("log", Json.arr (log.map (normTok c)).toArray),
          ("erase", ofVal (eraseV d'))]
      | _ => Json.mkObj [("e", "Other:TypeError")]
    | _, _, _, _ => err "bad mutnest args"
  | some "tokn" =>
    match nat? (getD j "n"), nat? (getD j "c"), int? (getD j "level"),
        (arr? (getD j "args")).bind (fun a => a.toList.mapM toTVal) with
    | some n, some c, some lv, some args =>
      if args.all (fun a => wfB n (eraseV a) && (eraseV a).isDict) then
        Json.mkObj [("r", ofTVal c (interArgs n lv c args).1), ("log", logJson c (interArgsLog lv c args))]
      else err "tokn: not well-formed"
    | _, _, _, _ => err "bad tokn args"
  | some "share" =>
    match nat? (getD j "n"), nat? (getD j "c"), intList? (getD j "levels"),
        (arr? (getD j "args")).bind (fun a => a.toList.mapM toTVal) with
    | some n, some c, some lvs, some args =>
      if args.all (fun a => wfB n (eraseV a) && (eraseV a).isDict) then
        Json.mkObj [("r", Json.arr (lvs.map (shareAt (truthyOf j) n c args)).toArray),
          ("copy", match args with | a :: _ => ofTValRaw (memoCopyV a c).1 | [] => Json.null)]
      else err "share: not well-formed"
    | _, _, _, _ => err "bad share args"
  | some "mutseq" =>
    match toTVal (getD j "d"), (arr? (getD j "others")).bind (fun a => a.toList.mapM toTVal), nat? (getD j "c") with
    | some d, some os, some c => Json.mkObj [("steps", Json.arr (mutSeq c d os c).toArray)]
    | _, _, _ => err "bad mutseq args"
  | some "cyc" =>
    match bool? (getD j "key_in_d") with
    | some b =>
      match updateNestedCyclic b with
      | .ok _ => Json.mkObj [("ok", Json.bool true)]
      | .lenaValueError => Json.mkObj [("e", "LenaValueError")]
      | .lenaTypeError => Json.mkObj [("e", "LenaTypeError")]
      | .typeError => Json.mkObj [("e", "Other:TypeError")]
    | none => err "bad cyc args"
  | some "paths" =>
    match toDict (getD j "d"), toDict (getD j "o"), (arr? (getD j "paths")).bind (fun a => a.toList.mapM natList?) with
    | some d, some o, some ps => Json.mkObj [("r", Json.arr (ps.map (pathAt d o)).toArray)]
    | _, _, _ => err "bad paths args"
  | _ => err "unknown op"

/-- replies are sent as one JSON string field `z` holding the compressed reply (the harness keeps hundreds of
thousands of replies in memory; a string is ten times smaller than the parsed tree) -/
def handleZ (j : Json) : Json :=
  let r := handle j
  match r.getObjVal? "err" with
  | .ok _ => r
  | .error _ => Json.mkObj [("z", Json.str r.compress)]

def main : IO Unit := run handleZ
