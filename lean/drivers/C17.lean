import LenaModel.DriverUtil
import LenaModel.Model.C17
import LenaModel.Model.C17Sess
import LenaModel.Model.C17Ext
import LenaModel.Model.C17Adv
import LenaModel.Model.C17Num
/-! Model driver for C17.  Requests:
  {"op":"slice","start":i|null,"stop":i|null,"step":i|null,"xs":[ints]}  -> {"r":[..]} | {"e":"LenaValueError"|"IndexError"}
  {"op":"pyslice",...same, step ≥ 1 or null}                             -> {"r":[..]}
  {"op":"fill_into","start":n,"stop":n|null,"step":n,"xs":[..]}          -> {"r":[..],"stop":i|null}
  {"op":"reverse","xs":[..]} {"op":"chain","xss":[[..],..]} {"op":"countfrom","start":i,"step":i,"n":n}
  {"op":"chunks","cs":n,"xs":[..]} {"op":"windows","cs":n,"xs":[..]}
  {"op":"countfrom_q","start":[num,den],"step":[num,den],"n":n}  -> {"r":[[num,den],..]}   (countFromQ: exact rationals, den > 0, lowest terms)
 one instance used more than once (`Model/C17Sess`); OPS is a list whose items are a flow `[ints]` (= create a generator
 with `run(iter(flow))` / `__call__()`; the flow is ignored by countfrom and chain) or a number g (= `next` of generator g):
  {"op":"session","el":"countfrom","start":i,"step":i,"ops":OPS,"tail":n}   -> {"ev":[[g,v]|[g,null],..],"rest":[[next n values],..]}
  {"op":"session","el":"slice","start":..,"stop":..,"step":..,"ops":OPS}    -> {"ev":..,"rest":[[values not yet yielded],..]} | {"e":"LenaValueError"}
  {"op":"session","el":"reverse","ops":OPS} {"op":"session","el":"chunks","cs":n,"ops":OPS} {"op":"session","el":"chain","xss":[[..],..],"ops":OPS}
  {"op":"slice_inst","start":..,"stop":..,"step":..,"ops":[ [ints] (= list(run(iter(flow)))) | v (= fill_into(el, v)) ]}
        -> {"ev":[{"r":[..]}|{"e":..}|"filled"|"skipped"|"stop"|"AttributeError",..]} | {"e":"LenaValueError"}
  {"op":"fill_trace","start":n,"stop":n|null,"step":n,"xs":[..]}            -> {"out":["filled"|"skipped"|"stop",..],"r":[filled values]}
 every session reply also has the spec-side projections the theorems speak about: "vals":[valuesOf g ..], "nexts":[nextsOf g ..],
 "starts":n, "pred":[genTake next (nextsOf g) (generator of a fresh instance) ..]; slice_inst also "state":[_index,_next_index+1],
 "fo":fillOutcomes, "ft":fillTrace over fillValues.
 the rest of the file (`Model/C17Ext`):
  {"op":"slice_args","args":[i|null,..],"xs":[..],"ms":n}   -> {"r":[..],"repr":s} | {"e":"LenaValueError"|"IndexError"|"OverflowError"|"TypeError","repr":s}
  {"op":"spec","start":..,"stop":..,"step":..}               -> {"goodstep":b,"hasneg":b}
  {"op":"eqrepr","el":"slice"|"countfrom"|"reverse"|"chain","a":X,"b":X} -> {"eq":b,"repr":[s,s]}   (X: args / [start,step] / null / [[..],..])
  {"op":"init_check","el":"countfrom","num":[b,b]} | {"op":"init_check","el":"chunks","callable":b} -> {"r":"ok"|"TypeError"|"LenaTypeError"}
  {"op":"chunks_c","cs":n,"xs":[..],"container":"tuple"|"list"|"star"|"set"} -> {"r":[{"k":"tuple"|"list"|"set","v":[..]},..]}
  {"op":"session","el":"chain_shared","xss":[[..],..],"ops":OPS} -> {"ev":..,"all":[allValues],"left":[what the iterators still hold]}
  {"op":"fill_into_o","args":[i|null,..],"xs":[..]}   (any call form; the None defaults are applied by mkSliceInst)
        -> {"r":[filled],"stop":i|null,"stopidx":i|null (stopIdx, when stop is a number)} | {"e":"LenaValueError"|"AttributeError"|"TypeError"}
  {"op":"fill_trace_o","args":[..],"xs":[..]}          -> {"out":[..],"r":[filled]} | {"e":..}
  {"op":"slice_inst","args":[..],"ops":[..]}           the call-form variant of slice_inst
  {"op":"slice_step","start":..,"stop":..,"stepkind":"float","ms":n} -> {"e":"LenaValueError"} (mkSliceStepArg)
 families of Slice objects made with copy.deepcopy (`Model/C17Adv`): object 0 is Slice(*args);
  {"op":"fam","args":[..],"ops":[ ["c",i] (append a copy of object i) | [i,v] (object i .fill_into(el, v)) | [i,[ints]] (list(object i .run(flow))) ]}
        -> {"ev":[[i, {"r":[..]}|{"e":..}|"filled"|"skipped"|"stop"|"AttributeError"],..],
            "of":[eventsOf j ..], "alone":[objEvents (ancestor of j) (lineage of j), its last (number of outcomes of j) outcomes ..]} | {"e":"LenaValueError"|"TypeError"} -/
open Lean Lena.Drv Lena.C17

def outJson : Option (Out Int) → Json
  | none => Json.mkObj [("e", "LenaValueError")]
  | some .indexError => Json.mkObj [("e", "IndexError")]
  | some (.ok ys) => Json.mkObj [("r", ofIntList ys)]

/-- an item of OPS: a number is `next g`, a list of integers is `start flow` -/
def genOp? (j : Json) : Option (GenOp (List Int)) :=
  match nat? j with
  | some g => some (.next g)
  | none => (intList? j).map .start

def unitOps (ops : List (GenOp (List Int))) : List (GenOp Unit) :=
  ops.map fun
    | .start _ => .start ()
    | .next g => .next g

def evJson {β : Type} (f : β → Json) : GenEv β → Json
  | .value g v => Json.arr #[ofNat g, f v]
  | .stop g => Json.arr #[ofNat g, Json.null]

def sessReply {σ ι γ β : Type} (E : GenElem σ ι γ β) (s : Sess σ γ) (ops : List (GenOp ι))
    (f : β → Json) (rest : γ → List β) : Json :=
  let evs := sessEvents E s ops
  let starts := startsOf ops
  let ids := List.range starts.length
  Json.mkObj [("ev", ofList (evJson f) evs),
    ("rest", ofList (fun g => ofList f (rest g)) (sessAfter E s ops).gens),
    ("vals", ofList (fun g => ofList f (valuesOf g evs)) ids),
    ("nexts", ofList (fun g => ofNat (nextsOf g evs)) ids),
    ("starts", ofNat starts.length),
    ("pred", ofList (fun g => match starts[g]? with
        | some x => ofList f (genTake E.next (nextsOf g evs) (E.spawn s.inst x).1)
        | none => Json.null) ids)]

def sessionOp (j : Json) : Json :=
  match (arr? (getD j "ops")).bind (fun a => a.toList.mapM genOp?) with
  | none => err "bad session ops"
  | some ops =>
    match str? (getD j "el") with
    | some "countfrom" =>
      match int? (getD j "start"), int? (getD j "step"), nat? (getD j "tail") with
      | some a, some s, some n =>
        sessReply countElem (countSess a s) (unitOps ops) ofInt (genTake countElem.next n)
      | _, _, _ => err "bad countfrom session args"
    | some "slice" =>
      match optInt (getD j "start"), optInt (getD j "stop"), optInt (getD j "step") with
      | some a, some b, some s =>
        match mkSlice a b s with
        | .valueError => Json.mkObj [("e", "LenaValueError")]
        | k => sessReply sliceElem { inst := k, gens := [] } ops ofInt id
      | _, _, _ => err "bad slice session args"
    | some "reverse" => sessReply reverseElem { inst := (), gens := [] } ops ofInt id
    | some "chunks" =>
      match nat? (getD j "cs") with
      | some cs => sessReply chunkElem { inst := cs, gens := [] } ops ofIntList id
      | none => err "bad chunks session args"
    | some "chain" =>
      match (arr? (getD j "xss")).bind (fun a => a.toList.mapM intList?) with
      | some xss => sessReply chainElem { inst := xss, gens := [] } (unitOps ops) ofInt id
      | none => err "bad chain session args"
    | some "chain_shared" =>
      match (arr? (getD j "xss")).bind (fun a => a.toList.mapM intList?) with
      | some xss =>
        let s0 : ChainSh Int := { its := xss, gens := [] }
        let evs := s0.events (unitOps ops)
        Json.mkObj [("ev", ofList (evJson ofInt) evs), ("all", ofIntList (allValues evs)),
          ("left", ofIntList (s0.after (unitOps ops)).its.flatten)]
      | none => err "bad chain_shared session args"
    | _ => err "unknown session element"

/-- an item of the `slice_inst` OPS: a number is `fill_into(el, v)`, a list of integers is a `run` -/
def sliceOp? (j : Json) : Option (SliceOp Int) :=
  match int? j with
  | some v => some (.fill v)
  | none => (intList? j).map .run

def fillOutJson : FillOut → Json
  | .filled => "filled"
  | .skipped => "skipped"
  | .stopFill => "stop"

def sliceEvJson : SliceEv Int → Json
  | .ran o => outJson o
  | .fill o => fillOutJson o
  | .attributeError => "AttributeError"

def chunkJson : Chunk → Json
  | .tuple xs => Json.mkObj [("k", "tuple"), ("v", ofIntList xs)]
  | .list xs => Json.mkObj [("k", "list"), ("v", ofIntList xs)]
  | .set xs => Json.mkObj [("k", "set"), ("v", ofIntList xs)]

def eqReprOp (j : Json) : Json :=
  let a := getD j "a"
  let b := getD j "b"
  match str? (getD j "el") with
  | some "slice" =>
    match (arr? a).bind (fun x => x.toList.mapM optInt), (arr? b).bind (fun x => x.toList.mapM optInt) with
    | some x, some y => Json.mkObj [("eq", sliceEq x y), ("repr", Json.arr #[sliceRepr x, sliceRepr y])]
    | _, _ => err "bad eqrepr slice args"
  | some "countfrom" =>
    match intList? a, intList? b with
    | some [a1, a2], some [b1, b2] =>
      let x : CountFromInst := ⟨a1, a2⟩
      let y : CountFromInst := ⟨b1, b2⟩
      Json.mkObj [("eq", countFromEq x y), ("repr", Json.arr #[countFromRepr x, countFromRepr y])]
    | _, _ => err "bad eqrepr countfrom args"
  | some "reverse" => Json.mkObj [("eq", reverseEq), ("repr", Json.arr #[reverseRepr, reverseRepr])]
  | some "chain" =>
    match (arr? a).bind (fun x => x.toList.mapM intList?), (arr? b).bind (fun x => x.toList.mapM intList?) with
    | some x, some y => Json.mkObj [("eq", chainEq x y), ("repr", Json.arr #[chainRepr x, chainRepr y])]
    | _, _ => err "bad eqrepr chain args"
  | _ => err "bad eqrepr element"

/-- an item of the `fam` OPS -/
def famOp? (j : Json) : Option (FamOp (SliceOp Int)) :=
  match arr? j with
  | some #[x, y] =>
    match str? x, nat? y with
    | some "c", some i => some (.copy i)
    | _, _ =>
      match nat? x with
      | some i => (sliceOp? y).map (.act i)
      | none => none
  | _ => none

def famReply (c : SliceInst) (ops : List (FamOp (SliceOp Int))) : Json :=
  let evs := famEvents sliceStep [c] ops
  let n := (famAfter sliceStep [c] ops).length
  let ids := List.range n
  Json.mkObj [("ev", ofList (fun (e : Nat × SliceEv Int) => Json.arr #[ofNat e.1, sliceEvJson e.2]) evs),
    ("of", ofList (fun j => ofList sliceEvJson (eventsOf j evs)) ids),
    -- the theorems' reading: object j alone, started from its ancestor, on the calls of its lineage
    ("alone", ofList (fun j => match lineage 1 j ops with
        | some (_, l) =>
          -- `family_lineage_events`: the outcomes of the calls on j are the last ones of its ancestor alone on the lineage
          let all := objEvents sliceStep c l
          ofList sliceEvJson (all.drop (all.length - (eventsOf j evs).length))
        | none => Json.null) ids)]

def handle (j : Json) : Json :=
  match str? (getD j "op") with
  | some "fam" =>
    match (arr? (getD j "args")).bind (fun a => a.toList.mapM optInt),
        (arr? (getD j "ops")).bind (fun a => a.toList.mapM famOp?) with
    | some args, some ops =>
      match argsTriple args with
      | none => Json.mkObj [("e", "TypeError")]
      | some (a, b, s) =>
        match mkSliceInst a b s with
        | none => Json.mkObj [("e", "LenaValueError")]
        | some c => famReply c ops
    | _, _ => err "bad fam args"
  | some "slice" =>
    match optInt (getD j "start"), optInt (getD j "stop"), optInt (getD j "step"), intList? (getD j "xs") with
    | some a, some b, some s, some xs => outJson (sliceRun (mkSlice a b s) xs)
    | _, _, _, _ => err "bad slice args"
  | some "pyslice" =>
    match optInt (getD j "start"), optInt (getD j "stop"), optInt (getD j "step"), intList? (getD j "xs") with
    | some a, some b, some s, some xs => Json.mkObj [("r", ofIntList (pySlice xs a b ((s.getD 1).toNat)))]
    | _, _, _, _ => err "bad pyslice args"
  | some "fill_into" =>
    match nat? (getD j "start"), optInt (getD j "stop"), nat? (getD j "step"), intList? (getD j "xs") with
    | some a, some b, some s, some xs =>
      let (ys, st) := fillAll (b.map Int.toNat) s (fillInit a) 0 xs
      Json.mkObj [("r", ofIntList ys), ("stop", ofOpt ofNat st)]
    | _, _, _, _ => err "bad fill_into args"
  | some "reverse" =>
    match intList? (getD j "xs") with
    | some xs => Json.mkObj [("r", ofIntList (reverseRun xs))]
    | none => err "bad reverse args"
  | some "chain" =>
    match (arr? (getD j "xss")).bind (fun a => a.toList.mapM intList?) with
    | some xss => Json.mkObj [("r", ofIntList (chainCall xss))]
    | none => err "bad chain args"
  | some "countfrom" =>
    match int? (getD j "start"), int? (getD j "step"), nat? (getD j "n") with
    | some a, some s, some n => Json.mkObj [("r", ofIntList (countFrom a s n))]
    | _, _, _ => err "bad countfrom args"
  | some "countfrom_q" =>
    match intList? (getD j "start"), intList? (getD j "step"), nat? (getD j "n") with
    | some [an, ad], some [sn, sd], some n =>
      if ad ≤ 0 ∨ sd ≤ 0 then err "bad countfrom_q denominators" else
      Json.mkObj [("r", ofList (fun (q : Rat) => ofIntList [q.num, (q.den : Int)])
        (countFromQ (mkRat an ad.toNat) (mkRat sn sd.toNat) n))]
    | _, _, _ => err "bad countfrom_q args"
  | some "chunks" =>
    match nat? (getD j "cs"), intList? (getD j "xs") with
    | some cs, some xs => Json.mkObj [("r", ofList ofIntList (runningChunkBy cs xs))]
    | _, _ => err "bad chunks args"
  | some "windows" =>
    match nat? (getD j "cs"), intList? (getD j "xs") with
    | some cs, some xs => Json.mkObj [("r", ofList ofIntList (windows cs xs))]
    | _, _ => err "bad windows args"
  | some "session" => sessionOp j
  | some "fill_into_o" =>
    match (arr? (getD j "args")).bind (fun a => a.toList.mapM optInt), intList? (getD j "xs") with
    | some args, some xs =>
      match argsTriple args with
      | none => Json.mkObj [("e", "TypeError")]
      | some (a, b, s) =>
        match sliceFillAll a b s xs with
        | .valueError => Json.mkObj [("e", "LenaValueError")]
        | .attributeError => Json.mkObj [("e", "AttributeError")]
        | .filled ys st =>
          let si : Option Nat := b.map (fun bb => stopIdx (a.getD 0).toNat 0 bb.toNat (s.getD 1).toNat)
          Json.mkObj [("r", ofIntList ys), ("stop", ofOpt ofNat st), ("stopidx", ofOpt ofNat si)]
    | _, _ => err "bad fill_into_o args"
  | some "fill_trace_o" =>
    match (arr? (getD j "args")).bind (fun a => a.toList.mapM optInt), intList? (getD j "xs") with
    | some args, some xs =>
      match argsTriple args with
      | none => Json.mkObj [("e", "TypeError")]
      | some (a, b, s) =>
        match sliceFillTrace a b s xs with
        | none => Json.mkObj [("e", "LenaValueError")]
        | some outs => Json.mkObj [("out", ofList fillOutJson outs), ("r", ofIntList (filledOf xs outs))]
    | _, _ => err "bad fill_trace_o args"
  | some "slice_step" =>
    match optInt (getD j "start"), optInt (getD j "stop"), str? (getD j "stepkind"), nat? (getD j "ms") with
    | some a, some b, some "float", some ms =>
      match mkSliceStepArg ms a b .float with
      | .valueError => Json.mkObj [("e", "LenaValueError")]
      | _ => Json.mkObj [("r", "constructed")]
    | _, _, _, _ => err "bad slice_step args"
  | some "slice_inst" =>
    let triple : Option (Option Int × Option Int × Option Int) :=
      match (arr? (getD j "args")).bind (fun a => a.toList.mapM optInt) with
      | some args => argsTriple args
      | none =>
        match optInt (getD j "start"), optInt (getD j "stop"), optInt (getD j "step") with
        | some a, some b, some s => some (a, b, s)
        | _, _, _ => none
    match triple.map (·.1), triple.map (·.2.1), triple.map (·.2.2),
        (arr? (getD j "ops")).bind (fun a => a.toList.mapM sliceOp?) with
    | some a, some b, some s, some ops =>
      match mkSliceInst a b s with
      | none => Json.mkObj [("e", "LenaValueError")]
      | some c =>
        let evs := c.events ops
        let fin := c.after ops
        let ft : List FillOut := match c.kind with
          | .islice _ b' s' => fillTrace b' s' c.fill (fillValues ops)
          | _ => []
        Json.mkObj [("ev", ofList sliceEvJson evs),
          ("state", Json.arr #[ofNat fin.fill.index, ofNat fin.fill.nextIndex1]),
          ("fo", ofList fillOutJson (fillOutcomes evs)), ("ft", ofList fillOutJson ft)]
    | _, _, _, _ => err "bad slice_inst args"
  | some "fill_trace" =>
    match nat? (getD j "start"), optInt (getD j "stop"), nat? (getD j "step"), intList? (getD j "xs") with
    | some a, some b, some s, some xs =>
      let outs := fillTrace (b.map Int.toNat) s (fillInit a) xs
      Json.mkObj [("out", ofList fillOutJson outs), ("r", ofIntList (filledOf xs outs))]
    | _, _, _, _ => err "bad fill_trace args"
  | some "slice_args" =>
    match (arr? (getD j "args")).bind (fun a => a.toList.mapM optInt), intList? (getD j "xs"), nat? (getD j "ms") with
    | some args, some xs, some ms =>
      let rep : Json := sliceRepr args
      match sliceOfArgs ms args with
      | none => Json.mkObj [("e", "TypeError"), ("repr", rep)]
      | some k =>
        match sliceRunMS ms k xs with
        | none => Json.mkObj [("e", "LenaValueError"), ("repr", rep)]
        | some .indexError => Json.mkObj [("e", "IndexError"), ("repr", rep)]
        | some .overflowError => Json.mkObj [("e", "OverflowError"), ("repr", rep)]
        | some (.ok ys) => Json.mkObj [("r", ofIntList ys), ("repr", rep)]
    | _, _, _ => err "bad slice_args args"
  | some "spec" =>
    match optInt (getD j "start"), optInt (getD j "stop"), optInt (getD j "step") with
    | some a, some b, some s => Json.mkObj [("goodstep", goodStepB s), ("hasneg", hasNegB a b)]
    | _, _, _ => err "bad spec args"
  | some "eqrepr" => eqReprOp j
  | some "init_check" =>
    let out : Option InitOut :=
      match str? (getD j "el") with
      | some "countfrom" =>
        match (arr? (getD j "num")).bind (fun a => a.toList.mapM bool?) with
        | some [x, y] => some (countFromInit x y)
        | _ => none
      | some "chunks" => (bool? (getD j "callable")).map rcbInit
      | _ => none
    match out with
    | some .ok => Json.mkObj [("r", "ok")]
    | some .typeError => Json.mkObj [("r", "TypeError")]
    | some .lenaTypeError => Json.mkObj [("r", "LenaTypeError")]
    | none => err "bad init_check args"
  | some "chunks_c" =>
    match nat? (getD j "cs"), intList? (getD j "xs"), str? (getD j "container") with
    | some cs, some xs, some c =>
      let cont : Option (Container Int Chunk) := match c with
        | "tuple" => some tupleContainer
        | "list" => some listContainer
        | "star" => some starContainer
        | "set" => some setContainer
        | _ => none
      match cont with
      | some k => Json.mkObj [("r", ofList chunkJson (runningChunkByC k cs xs))]
      | none => err "bad container"
    | _, _, _ => err "bad chunks_c args"
  | _ => err "unknown op"

def main : IO Unit := run handle
