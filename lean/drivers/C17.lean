import LenaModel.DriverUtil
import LenaModel.Model.C17
/-! Model driver for C17.  Requests:
  {"op":"slice","start":i|null,"stop":i|null,"step":i|null,"xs":[ints]}  -> {"r":[..]} | {"e":"LenaValueError"|"IndexError"}
  {"op":"pyslice",...same, step ≥ 1 or null}                             -> {"r":[..]}
  {"op":"fill_into","start":n,"stop":n|null,"step":n,"xs":[..]}          -> {"r":[..],"stop":i|null}
  {"op":"reverse","xs":[..]} {"op":"chain","xss":[[..],..]} {"op":"countfrom","start":i,"step":i,"n":n}
  {"op":"chunks","cs":n,"xs":[..]} {"op":"windows","cs":n,"xs":[..]} -/
open Lean Lena.Drv Lena.C17

def outJson : Option (Out Int) → Json
  | none => Json.mkObj [("e", "LenaValueError")]
  | some .indexError => Json.mkObj [("e", "IndexError")]
  | some (.ok ys) => Json.mkObj [("r", ofIntList ys)]

def handle (j : Json) : Json :=
  match str? (getD j "op") with
  | some "slice" =>
    match optInt (getD j "start"), optInt (getD j "stop"), optInt (getD j "step"), intList? (getD j "xs") with
    | some a, some b, some s, some xs => outJson (sliceRun (mkSlice a b s) xs)
    | _, _, _, _ => err "bad slice args"
  | some "pyslice" =>
    match optInt (getD j "start"), optInt (getD j "stop"), optInt (getD j "step"), intList? (getD j "xs") with
    | some a, some b, some s, some xs => Json.mkObj [("r", ofIntList (pySlice xs a b ((s.getD 1).toNat)))]
    | _, _, _, _ => err "bad pyslice args"
  | some "fill_into" =>
    match nat? (getD j "start"), optInt (getD j "stop"), nat? (getD j "step"), intList? (getD j "xs") with
    | some a, some b, some s, some xs =>
      let (ys, st) := fillAll (b.map Int.toNat) s (fillInit a) 0 xs
      Json.mkObj [("r", ofIntList ys), ("stop", ofOpt ofNat st)]
    | _, _, _, _ => err "bad fill_into args"
  | some "reverse" =>
    match intList? (getD j "xs") with
    | some xs => Json.mkObj [("r", ofIntList (reverseRun xs))]
    | none => err "bad reverse args"
  | some "chain" =>
    match (arr? (getD j "xss")).bind (fun a => a.toList.mapM intList?) with
    | some xss => Json.mkObj [("r", ofIntList (chainCall xss))]
    | none => err "bad chain args"
  | some "countfrom" =>
    match int? (getD j "start"), int? (getD j "step"), nat? (getD j "n") with
    | some a, some s, some n => Json.mkObj [("r", ofIntList (countFrom a s n))]
    | _, _, _ => err "bad countfrom args"
  | some "chunks" =>
    match nat? (getD j "cs"), intList? (getD j "xs") with
    | some cs, some xs => Json.mkObj [("r", ofList ofIntList (runningChunkBy cs xs))]
    | _, _ => err "bad chunks args"
  | some "windows" =>
    match nat? (getD j "cs"), intList? (getD j "xs") with
    | some cs, some xs => Json.mkObj [("r", ofList ofIntList (windows cs xs))]
    | _, _ => err "bad windows args"
  | _ => err "unknown op"

def main : IO Unit := run handle
