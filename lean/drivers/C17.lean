import LenaModel.DriverUtil
import LenaModel.Model.C17
import LenaModel.Model.C17Sess
/-! Model driver for C17.  Requests:
  {"op":"slice","start":i|null,"stop":i|null,"step":i|null,"xs":[ints]}  -> {"r":[..]} | {"e":"LenaValueError"|"IndexError"}
  {"op":"pyslice",...same, step ≥ 1 or null}                             -> {"r":[..]}
  {"op":"fill_into","start":n,"stop":n|null,"step":n,"xs":[..]}          -> {"r":[..],"stop":i|null}
  {"op":"reverse","xs":[..]} {"op":"chain","xss":[[..],..]} {"op":"countfrom","start":i,"step":i,"n":n}
  {"op":"chunks","cs":n,"xs":[..]} {"op":"windows","cs":n,"xs":[..]}
 one instance used more than once (`Model/C17Sess`); OPS is a list whose items are a flow `[ints]` (= create a generator
 with `run(iter(flow))` / `__call__()`; the flow is ignored by countfrom and chain) or a number g (= `next` of generator g):
  {"op":"session","el":"countfrom","start":i,"step":i,"ops":OPS,"tail":n}   -> {"ev":[[g,v]|[g,null],..],"rest":[[next n values],..]}
  {"op":"session","el":"slice","start":..,"stop":..,"step":..,"ops":OPS}    -> {"ev":..,"rest":[[values not yet yielded],..]} | {"e":"LenaValueError"}
  {"op":"session","el":"reverse","ops":OPS} {"op":"session","el":"chunks","cs":n,"ops":OPS} {"op":"session","el":"chain","xss":[[..],..],"ops":OPS}
  {"op":"slice_inst","start":..,"stop":..,"step":..,"ops":[ [ints] (= list(run(iter(flow)))) | v (= fill_into(el, v)) ]}
        -> {"ev":[{"r":[..]}|{"e":..}|"filled"|"skipped"|"stop"|"AttributeError",..]} | {"e":"LenaValueError"}
  {"op":"fill_trace","start":n,"stop":n|null,"step":n,"xs":[..]}            -> {"out":["filled"|"skipped"|"stop",..],"r":[filled values]} -/
open Lean Lena.Drv Lena.C17

def outJson : Option (Out Int) → Json
  | none => Json.mkObj [("e", "LenaValueError")]
  | some .indexError => Json.mkObj [("e", "IndexError")]
  | some (.ok ys) => Json.mkObj [("r", ofIntList ys)]

/-- an item of OPS: a number is `next g`, a list of integers is `start flow` -/
def genOp? (j : Json) : Option (GenOp (List Int)) :=
  match nat? j with
  | some g => some (.next g)
  | none => (intList? j).map .start

def unitOps (ops : List (GenOp (List Int))) : List (GenOp Unit) :=
  ops.map fun
    | .start _ => .start ()
    | .next g => .next g

def evJson {β : Type} (f : β → Json) : GenEv β → Json
  | .value g v => Json.arr #[ofNat g, f v]
  | .stop g => Json.arr #[ofNat g, Json.null]

def sessReply {σ ι γ β : Type} (E : GenElem σ ι γ β) (s : Sess σ γ) (ops : List (GenOp ι))
    (f : β → Json) (rest : γ → List β) : Json :=
  Json.mkObj [("ev", ofList (evJson f) (sessEvents E s ops)),
    ("rest", ofList (fun g => ofList f (rest g)) (sessAfter E s ops).gens)]

def sessionOp (j : Json) : Json :=
  match (arr? (getD j "ops")).bind (fun a => a.toList.mapM genOp?) with
  | none => err "bad session ops"
  | some ops =>
    match str? (getD j "el") with
    | some "countfrom" =>
      match int? (getD j "start"), int? (getD j "step"), nat? (getD j "tail") with
      | some a, some s, some n =>
        sessReply countElem (countSess a s) (unitOps ops) ofInt (genTake countElem.next n)
      | _, _, _ => err "bad countfrom session args"
    | some "slice" =>
      match optInt (getD j "start"), optInt (getD j "stop"), optInt (getD j "step") with
      | some a, some b, some s =>
        match mkSlice a b s with
        | .valueError => Json.mkObj [("e", "LenaValueError")]
        | k => sessReply sliceElem { inst := k, gens := [] } ops ofInt id
      | _, _, _ => err "bad slice session args"
    | some "reverse" => sessReply reverseElem { inst := (), gens := [] } ops ofInt id
    | some "chunks" =>
      match nat? (getD j "cs") with
      | some cs => sessReply chunkElem { inst := cs, gens := [] } ops ofIntList id
      | none => err "bad chunks session args"
    | some "chain" =>
      match (arr? (getD j "xss")).bind (fun a => a.toList.mapM intList?) with
      | some xss => sessReply chainElem { inst := xss, gens := [] } (unitOps ops) ofInt id
      | none => err "bad chain session args"
    | _ => err "unknown session element"

/-- an item of the `slice_inst` OPS: a number is `fill_into(el, v)`, a list of integers is a `run` -/
def sliceOp? (j : Json) : Option (SliceOp Int) :=
  match int? j with
  | some v => some (.fill v)
  | none => (intList? j).map .run

def fillOutJson : FillOut → Json
  | .filled => "filled"
  | .skipped => "skipped"
  | .stopFill => "stop"

def sliceEvJson : SliceEv Int → Json
  | .ran o => outJson o
  | .fill o => fillOutJson o
  | .attributeError => "AttributeError"

def handle (j : Json) : Json :=
  match str? (getD j "op") with
  | some "slice" =>
    match optInt (getD j "start"), optInt (getD j "stop"), optInt (getD j "step"), intList? (getD j "xs") with
    | some a, some b, some s, some xs => outJson (sliceRun (mkSlice a b s) xs)
    | _, _, _, _ => err "bad slice args"
  | some "pyslice" =>
    match optInt (getD j "start"), optInt (getD j "stop"), optInt (getD j "step"), intList? (getD j "xs") with
    | some a, some b, some s, some xs => Json.mkObj [("r", ofIntList (pySlice xs a b ((s.getD 1).toNat)))]
    | _, _, _, _ => err "bad pyslice args"
  | some "fill_into" =>
    match nat? (getD j "start"), optInt (getD j "stop"), nat? (getD j "step"), intList? (getD j "xs") with
    | some a, some b, some s, some xs =>
      let (ys, st) := fillAll (b.map Int.toNat) s (fillInit a) 0 xs
      Json.mkObj [("r", ofIntList ys), ("stop", ofOpt ofNat st)]
    | _, _, _, _ => err "bad fill_into args"
  | some "reverse" =>
    match intList? (getD j "xs") with
    | some xs => Json.mkObj [("r", ofIntList (reverseRun xs))]
    | none => err "bad reverse args"
  | some "chain" =>
    match (arr? (getD j "xss")).bind (fun a => a.toList.mapM intList?) with
    | some xss => Json.mkObj [("r", ofIntList (chainCall xss))]
    | none => err "bad chain args"
  | some "countfrom" =>
    match int? (getD j "start"), int? (getD j "step"), nat? (getD j "n") with
    | some a, some s, some n => Json.mkObj [("r", ofIntList (countFrom a s n))]
    | _, _, _ => err "bad countfrom args"
  | some "chunks" =>
    match nat? (getD j "cs"), intList? (getD j "xs") with
    | some cs, some xs => Json.mkObj [("r", ofList ofIntList (runningChunkBy cs xs))]
    | _, _ => err "bad chunks args"
  | some "windows" =>
    match nat? (getD j "cs"), intList? (getD j "xs") with
    | some cs, some xs => Json.mkObj [("r", ofList ofIntList (windows cs xs))]
    | _, _ => err "bad windows args"
  | some "session" => sessionOp j
  | some "slice_inst" =>
    match optInt (getD j "start"), optInt (getD j "stop"), optInt (getD j "step"),
        (arr? (getD j "ops")).bind (fun a => a.toList.mapM sliceOp?) with
    | some a, some b, some s, some ops =>
      match mkSliceInst a b s with
      | none => Json.mkObj [("e", "LenaValueError")]
      | some c => Json.mkObj [("ev", ofList sliceEvJson (c.events ops))]
    | _, _, _, _ => err "bad slice_inst args"
  | some "fill_trace" =>
    match nat? (getD j "start"), optInt (getD j "stop"), nat? (getD j "step"), intList? (getD j "xs") with
    | some a, some b, some s, some xs =>
      let outs := fillTrace (b.map Int.toNat) s (fillInit a) xs
      Json.mkObj [("out", ofList fillOutJson outs), ("r", ofIntList (filledOf xs outs))]
    | _, _, _, _ => err "bad fill_trace args"
  | _ => err "unknown op"

def main : IO Unit := run handle
