import LenaModel.DriverUtil
import LenaModel.Model.C14
import LenaModel.Model.C14Tok
import LenaModel.Model.C14X
/-! Model driver for C14.

Values `V`: a number is an opaque scalar, a string a string, `{"l":[..]}` a list, `{"t":[..]}` a tuple; a dictionary
over the request's key alphabet `names` is `{"D":[[i,v],..]}` (key number, value; only the keys present — the form of
every reply) or, in requests, also the array of all its slots (`null` = key absent).
Data (`Raw`): a number, an array (tuple) of data, or `{"ctx":D}` (a dictionary inside the data).  Getter fixtures:
`{"tag":i}` is `x ↦ (i, x)`, `{"pairw":i,"k":slot,"n":n}` is `x ↦ (x, {"w": i})`, `"first"` is `x ↦ x[0]`,
`{"const":d}` is `x ↦ d`, `{"sw":[[a,b],…](,"tag":i)}` maps the scalar `a` to `b` and is `x ↦ x` (resp. `(i, x)`) otherwise
(data scalars `None`, `False`, `0.0`, `''`, … are int codes beyond ±10⁶); the strings
`"variable"` / `"notcallable"` stand for a getter that is a `Variable` / not callable.
Expressions `E`:
  {"k":"var","name":V,"getter":G,"type":V,"kw":D} | {"k":"compose","args":[E..],"kw":D}
  | {"k":"combine","args":[E..],"kw":D} | {"k":"other"}
Values of the flow: {"d":data} (bare) or {"d":data,"c":D}.
Request:
  {"op":"run","names":[..],"fx":bool,"nk":bool,"spec":bool,"exprs":[E..],"vals":[value..]}
    -> {"e":<exception>,"phase":"init"}                       a constructor raised
     | {"vcs":[D..],"outs":[{"d":data,"c":D} | {"e":<exception>} ..]}  plus, with "spec":true, "wf":[bool..],"namesok":bool,…
       `vcs` the var_contexts of the constructed variables, `outs[i]` = the variables applied one after the
       other (`seqCall`) to `vals[i]`, `wf[i]` = `chainWFb` (the hypothesis `ChainWF` of `compose_eq_sequence_partial`)
       for `vals[i]`, `namesok` = `namesOKb` (hypothesis `NamesOK`); specification side: `cok[i]` = `chainOKb`,
       `sdata[i]` = `composeData`, `cdata[i]` = `chainData`, `stypes` = `argsTypes`, `sup[i]` = the fold of `UP` from
       `preDict` when `wf[i]` (else null), `lok` = all expressions are plain variables with `leavesOKb`, `lctx` = their `Leaf.ctx`.
  {"op":"attr","names":[..],"fx":bool,"nk":bool,"expr":E,"ops":[O..]}   attribute access on one variable, in order:
    O = {"get":s} -> {"r":V}|{"e":..}   {"set":s,"v":V} -> {"r":null}   {"item":i} -> {"r":k,"vc":D}|{"e":..}
      | {"call":value} -> {"d":..,"c":D}|{"e":..}   {"vc":true} -> {"vc":D}
      | {"vcn":true} -> {"vc":D}: the var_context of a top-level Compose under `mkComposeN` (patched name keyword)
    -> {"r":[..]} | {"e":..,"phase":"init"}
  {"op":"tok","names":[..],"fx":bool,"nk":bool,"exprs":[E..],"val":value,"reps":k,"alias":[ckey,i,vkey]?}
    token model (Model/C14Tok.lean): the objects of the variables' var_contexts, then of the value's context are
    numbered in pre-order (`labelT`); the chain of variables is applied `k` times round, each application to the
    previous result (`callT`, `seqT`, `callsT`); with `alias` the context's key `ckey` holds the very object
    `var_context[vkey]` of variable `i`
    -> {"next":n,"vcs":[TVdict..],"calls":[..],"calls1":[..]|null,"r":[{"c":TVdict,"w":[tokens written],"next":n,"sep":bool,"spine":[..],"erased":D} | {"e":..,"sep":bool} ..],"calls":[..]}
    TV: number | string | {"t":[..]} | {"l":[..],"k":tok} | {"d":[slots..],"k":tok}
  with "both":true the reply is {"S":<the reply above>,"C":<the reply for exprs = [Compose(*exprs)]>}; with "flow":true
  each of them also has "flow": `seqRun` (Model/C14X.lean) on the flow that holds every value twice.
  The Boolean hypotheses are computed by `chainWFk` / `chainOKk` (= `chainWFb` / `chainOKb`: Props/C14X.lean).
  attr ops also: {"vcdel":s} -> {"r":null} (`delAttr`: `del var.var_context[s]`)
  {"op":"ctor","names":[..],"fx":bool,"nk":bool,"args":[E..]}   `Compose.__init__` on identities (`composeInitT`): the objects
    of the arguments' var_contexts are numbered in order (`labelT` from 0), then the constructor runs
    -> {"next":n,"args":[TVdict..],"res":TVdict|null,"steps":[{"w":[..],"next":n}|{"e":..}..],"fresh":bool}
       `fresh`: no object of the new var_context is an object of an argument (conclusion of `composeInitT_result_fresh`)
    with "k":"combine": `Combine.__init__` lines 300-302 (`combineInitT`)
    -> {"next":n,"args":[TVdict..],"comb":TV (the tuple var_context["combine"]),"next1":n,"fresh":bool}
`nk` (optional, default false): `Compose` honours its `name` keyword (notes/C14_defect_2.patch). -/
open Lean Lena.Drv Lena.C14 Lena.C14.Tok

/-- data are raw Python values (`Model/C14.lean`: `Raw`) -/
abbrev Data := Raw

/-- slots from the sparse form `[[i, v], …]` (key number, value) over an alphabet of `n` keys -/
def sparseSlots {α : Type} (n : Nat) (f : Json → Option α) (a : Array Json) : Option (List (Option α)) :=
  let step (acc : Option (Array (Option α))) (p : Json) : Option (Array (Option α)) :=
    match acc, p with
    | some arr, .arr #[i, v] =>
      match nat? i, f v with
      | some k, some x => if k < arr.size then some (arr.set! k (some x)) else none
      | _, _ => none
    | _, _ => none
  (a.foldl step (some (Array.replicate n none))).map Array.toList

/-- a dictionary is an array of its slots (`null` = key absent) or `{"D":[[i,v],…]}` (only the keys present) -/
partial def toV (n : Nat) (j : Json) : Option V :=
  match j with
  | .arr a => (a.toList.mapM toSlot).map V.dict
  | .str s => some (.str s)
  | .obj _ =>
    match (j.getObjVal? "D").toOption, (j.getObjVal? "l").toOption, (j.getObjVal? "t").toOption with
    | some (.arr a), _, _ => (sparseSlots n (toV n) a).map V.dict
    | _, some (.arr a), _ => (a.toList.mapM (toV n)).map (V.seq false)
    | _, _, some (.arr a) => (a.toList.mapM (toV n)).map (V.seq true)
    | _, _, _ => none
  | _ => (int? j).map V.int
where toSlot (j : Json) : Option (Option V) :=
  if j.isNull then some none else (toV n j).map some

def toD (n : Nat) (j : Json) : Option Slots :=
  match toV n j with
  | some (.dict l) => some l
  | _ => none

partial def ofV : V → Json
  | .int i => ofInt i
  | .str s => Json.str s
  | .seq false l => Json.mkObj [("l", Json.arr (l.map ofV).toArray)]
  | .seq true l => Json.mkObj [("t", Json.arr (l.map ofV).toArray)]
  | .dict l => Json.mkObj [("D", Json.arr (sparse 0 l).toArray)]
where sparse (i : Nat) : Slots → List Json
  | [] => []
  | none :: r => sparse (i + 1) r
  | some v :: r => Json.arr #[ofNat i, ofV v] :: sparse (i + 1) r

def ofD (l : Slots) : Json := ofV (.dict l)

partial def toData (n : Nat) (j : Json) : Option Data :=
  match j with
  | .arr a => (a.toList.mapM (toData n)).map Raw.tuple
  | .obj _ => (toD n (getD j "ctx")).map Raw.dict
  | _ => (int? j).map Raw.int

partial def ofData : Data → Json
  | .int i => ofInt i
  | .tuple l => Json.arr (l.map ofData).toArray
  | .dict c => Json.mkObj [("ctx", ofD c)]

def errName : Err → String
  | .lenaTypeError => "LenaTypeError"
  | .lenaAttributeError => "LenaAttributeError"
  | .typeError => "Other:TypeError"
  | .assertionError => "Other:AssertionError"
  | .unmodelled => "unmodelled"
  | .attributeError => "Other:AttributeError"
  | .indexError => "Other:IndexError"

/-- equality of a datum with a literal of a `sw` table: scalars (ints; `None`, booleans, floats, `''`, an exception
object are int codes beyond ±10⁶, as in contexts) and the empty tuple -/
def scalarEq : Raw → Raw → Bool
  | .int a, .int b => a == b
  | .tuple [], .tuple [] => true
  | _, _ => false

/-- the pairs `[[from, to], …]` of a `sw` table -/
def toTable (n : Nat) (a : Array Json) : Option (List (Data × Data)) :=
  a.toList.mapM (fun p =>
    match p with
    | .arr #[x, y] =>
      match toData n x, toData n y with
      | some dx, some dy => some (dx, dy)
      | _, _ => none
    | _ => none)

/-- the getter fixtures: `{"tag":i}` is `x ↦ (i, x)`; `{"pairw":i,"k":slot}` is `x ↦ (x, {"w": i})` (data that looks
like a `(data, context)` pair; `k` = the slot of `"w"`, `n` slots); `"first"` is `x ↦ x[0]` for a non-empty tuple, else `x`;
`{"const":d}` is `x ↦ d` (a getter whose result is `None`, falsy, a container, … whatever it is given);
`{"sw":[[a,b],…]}` / `{"sw":[[a,b],…],"tag":i}` is `x ↦ b` for the first pair with `x` equal to the scalar `a`, else `x`
(the very object it was given) resp. `(i, x)` (a getter that treats `None`, falsy values, `()` specially) -/
def toGetter (n : Nat) (j : Json) : Option (GetterArg Data) :=
  match j with
  | .str "variable" => some .variable
  | .str "notcallable" => some .notCallable
  | .str "first" => some (.fn (fun x => match x with | .tuple (a :: _) => a | y => y))
  | _ =>
    match (j.getObjVal? "const").toOption, arr? (getD j "sw") with
    | some c, _ => (toData n c).map (fun d => .fn (fun _ => d))
    | _, some a =>
      (toTable n a).map (fun tbl => .fn (fun x =>
        match tbl.find? (fun p => scalarEq p.1 x) with
        | some p => p.2
        | none =>
          match int? (getD j "tag") with
          | some i => Raw.tuple [Raw.int i, x]
          | none => x))
    | _, _ =>
      match int? (getD j "tag"), int? (getD j "pairw"), nat? (getD j "k"), nat? (getD j "n") with
      | some i, _, _, _ => some (.fn (fun x => Raw.tuple [Raw.int i, x]))
      | _, some i, some k, some n => some (.fn (fun x => Raw.tuple [x, Raw.dict (setSlot (emptyD n) k (some (.int i)))]))
      | _, _, _, _ => none

partial def toExpr (n : Nat) (j : Json) : Option (Expr Data) :=
  match str? (getD j "k") with
  | some "other" => some .other
  | some "var" =>
    match toV n (getD j "name"), toGetter n (getD j "getter"), toV n (getD j "type"), toD n (getD j "kw") with
    | some nm, some g, some t, some kw => some (.var nm g t kw)
    | _, _, _, _ => none
  | some "compose" =>
    match (arr? (getD j "args")).bind (fun a => a.toList.mapM (toExpr n)), toD n (getD j "kw") with
    | some as, some kw => some (.compose as kw)
    | _, _ => none
  | some "combine" =>
    match (arr? (getD j "args")).bind (fun a => a.toList.mapM (toExpr n)), toD n (getD j "kw") with
    | some as, some kw => some (.combine as kw)
    | _, _ => none
  | _ => none

/-- a flow value: `{"d":data,"c":D}` is the tuple `(data, context)`; `{"d":data}` is the raw value `data`, which
`get_data_context` may itself read as a pair (`rawValue`, the transcription of `_has_context`) -/
def toValue (n : Nat) (j : Json) : Option (Value Data) :=
  match toData n (getD j "d") with
  | none => none
  | some d =>
    if (getD j "c").isNull then some (rawValue d)
    else (toD n (getD j "c")).map (Value.pair d)

/-! values with identities: `{"t":[..]}` a tuple, `{"l":[..],"k":tok}` a list, `{"d":[slots..],"k":tok}` a dictionary -/
partial def toTV (j : Json) : Option TV :=
  match j with
  | .str s => some (.str s)
  | .obj _ =>
    match (j.getObjVal? "t").toOption, (j.getObjVal? "l").toOption, (j.getObjVal? "d").toOption,
          (nat? (getD j "k")) with
    | some (.arr a), _, _, _ => (a.toList.mapM toTV).map TV.tuple
    | _, some (.arr a), _, some k => (a.toList.mapM toTV).map (TV.list k)
    | _, _, some (.arr a), some k => (a.toList.mapM toTSlot).map (TV.dict k)
    | _, _, _, _ => none
  | _ => (int? j).map TV.int
where toTSlot (j : Json) : Option (Option TV) :=
  if j.isNull then some none else (toTV j).map some

partial def ofTV : TV → Json
  | .int i => ofInt i
  | .str s => Json.str s
  | .tuple l => Json.mkObj [("t", Json.arr (l.map ofTV).toArray)]
  | .list k l => Json.mkObj [("l", Json.arr (l.map ofTV).toArray), ("k", ofNat k)]
  | .dict k l => Json.mkObj [("D", Json.arr (sparse 0 l).toArray), ("k", ofNat k)]
where sparse (i : Nat) : TSlots → List Json
  | [] => []
  | none :: r => sparse (i + 1) r
  | some v :: r => Json.arr #[ofNat i, ofTV v] :: sparse (i + 1) r

def toTDict (j : Json) : Option (Nat × TSlots) :=
  match toTV j with
  | some (.dict k l) => some (k, l)
  | _ => none

/-- the reply of op "run" for the expressions `exprs` -/
def runReply (names : List String) (fx nk spec flow : Bool) (exprs : List (Expr Data)) (vals : List (Value Data)) : Json :=
  match evalArgs names fx nk Raw.tuple exprs with
  | .error e => Json.mkObj [("e", errName e), ("phase", "init")]
  | .ok as =>
    -- an object that is not a Variable cannot be applied: the harness never sends one at top level
    if !as.all Option.isSome then err "run: top-level expression is not a Variable"
    else
      let vars := as.filterMap id
      let ofRes := fun (r : Except Err (Data × Slots)) =>
        match r with
        | .ok (d, c) => Json.mkObj [("d", ofData d), ("c", ofD c)]
        | .error e => Json.mkObj [("e", errName e)]
      let outs := vals.map (fun x => ofRes (seqCall names fx vars x))
      -- `seqRun` on the flow that holds every value twice; a result that is equal to `outs[k / 2]` (the same value
      -- applied alone) is reported as the number `k / 2`, any other result in full
      let flowJ := (seqRun names fx vars (vals.flatMap (fun x => [x, x]))).map ofRes
      let flowR := (flowJ.zipIdx).map (fun (r, k) =>
        match outs[k / 2]? with
        | some o => if o == r then ofNat (k / 2) else r
        | none => r)
      let base : List (String × Json) :=
        [("vcs", ofList (fun v => ofD v.varCtx) vars), ("outs", Json.arr outs.toArray)] ++
        (if flow then [("flow", Json.arr flowR.toArray)] else [])
      if !spec then Json.mkObj base
      else
        -- the hypotheses of the theorems (`NamesOK`, `ChainWF`) for every value, as Boolean checks, and the
        -- specification side (the definitions the theorems are stated with), executed on the same case:
        -- `chainOKb` (syntactic hypothesis of `compose_eq_sequence_expr_partial`), `composeData`, `chainData`, `argsTypes`,
        -- the fold of `UP` from `preDict` (right-hand side of `seqCall_result`), `leavesOKb` and `Leaf.ctx`
        let ctxs := vars.map Variable.varCtx
        let wfl := vals.map (fun x => chainWFk names (cvarOf names x) ctxs)
        let cok := vals.map (fun x => Json.bool (chainOKk names (cvarOf names x) exprs))
        let sdata := vals.map (fun x => ofData (composeData Raw.tuple exprs (getDataContext names x).1))
        let sup := (vals.zip wfl).map (fun (x, w) =>
          if w then ofD (ctxs.foldl (UP names) (preDict names (cvarOf names x))) else Json.null)
        let leaves := exprs.filterMap Expr.asLeaf
        let lok := leaves.length == exprs.length && leavesOKb names leaves
        Json.mkObj (base ++
          [("wf", Json.arr (wfl.map Json.bool).toArray), ("namesok", Json.bool (namesOKb names)),
           ("cok", Json.arr cok.toArray), ("sdata", Json.arr sdata.toArray),
           ("stypes", ofList ofV (argsTypes names exprs)), ("sup", Json.arr sup.toArray),
           ("lok", Json.bool lok),
           ("lctx", if lok then ofList (fun l => ofD (Leaf.ctx names l)) leaves else Json.null),
           ("cdata", Json.arr (vals.map (fun x => ofData (chainData vars (getDataContext names x).1))).toArray)])

def handle (j : Json) : Json :=
  match str? (getD j "op") with
  | some "run" =>
    let n := ((arr? (getD j "names")).map Array.size).getD 0
    match (arr? (getD j "names")).bind (fun a => a.toList.mapM str?), bool? (getD j "fx"),
          (arr? (getD j "exprs")).bind (fun a => a.toList.mapM (toExpr n)),
          (arr? (getD j "vals")).bind (fun a => a.toList.mapM (toValue n)) with
    | some names, some fx, some exprs, some vals =>
      let nk := (bool? (getD j "nk")).getD false
      let spec := (bool? (getD j "spec")).getD false
      let flow := (bool? (getD j "flow")).getD false
      if (bool? (getD j "both")).getD false then
        Json.mkObj [("S", runReply names fx nk spec flow exprs vals),
                    ("C", runReply names fx nk false flow [.compose exprs (emptyD names.length)] vals)]
      else runReply names fx nk spec flow exprs vals
    | _, _, _, _ => err "bad run args"
  | some "attr" =>
    let n := ((arr? (getD j "names")).map Array.size).getD 0
    match (arr? (getD j "names")).bind (fun a => a.toList.mapM str?), bool? (getD j "fx"),
          toExpr n (getD j "expr"), arr? (getD j "ops") with
    | some names, some fx, some e, some ops =>
      let nk := (bool? (getD j "nk")).getD false
      match evalExpr names fx nk Raw.tuple e with
      | .error er => Json.mkObj [("e", errName er), ("phase", "init")]
      | .ok none => err "attr: expression is not a Variable"
      | .ok (some v0) =>
        -- the variables a top-level Combine was given (`_vars`), for `__getitem__`
        let subs : Option (List (Variable Data)) :=
          match e with
          | .combine args _ =>
            match evalArgs names fx nk Raw.tuple args with
            | .ok as => some (as.filterMap id)
            | .error _ => none
          | _ => none
        let step (st : Variable Data × List Json) (o : Json) : Variable Data × List Json :=
          let (v, out) := st
          match str? (getD o "vcdel") with
          | some a => (delAttr names v a, out ++ [Json.mkObj [("r", Json.null)]])
          | none =>
          match str? (getD o "get"), str? (getD o "set"), int? (getD o "item") with
          | some a, _, _ =>
            (v, out ++ [match getAttr names v a with
              | .ok x => Json.mkObj [("r", ofV x)]
              | .error er => Json.mkObj [("e", errName er)]])
          | _, some a, _ =>
            match toV n (getD o "v") with
            | some x => (setAttr names v a x, out ++ [Json.mkObj [("r", Json.null)]])
            | none => (v, out ++ [err "bad set value"])
          | _, _, some i =>
            (v, out ++ [match subs with
              | none => Json.mkObj [("e", "Other:TypeError")]     -- not subscriptable
              | some vs =>
                match pyIndex vs.length i, combineGetItem vs i with
                | .ok k, .ok w => Json.mkObj [("r", ofNat k), ("vc", ofD w.varCtx)]
                | _, .error er => Json.mkObj [("e", errName er)]
                | .error er, _ => Json.mkObj [("e", errName er)]])
          | _, _, _ =>
            if !(getD o "call").isNull then
              match toValue n (getD o "call") with
              | some x =>
                (v, out ++ [match call names fx v x with
                  | .ok (d, c) => Json.mkObj [("d", ofData d), ("c", ofD c)]
                  | .error er => Json.mkObj [("e", errName er)]])
              | none => (v, out ++ [err "bad call value"])
            else if !(getD o "vcn").isNull then
              -- the var_context `Compose` would have with notes/C14_defect_2.patch (`mkComposeN`), whatever the tree does
              (v, out ++ [match e with
                | .compose args kw =>
                  match evalArgs names fx nk Raw.tuple args with
                  | .ok as =>
                    match mkComposeN names fx as kw with
                    | .ok c => Json.mkObj [("vc", ofD c.varCtx)]
                    | .error er => Json.mkObj [("e", errName er)]
                  | .error er => Json.mkObj [("e", errName er)]
                | _ => Json.mkObj [("vc", ofD v0.varCtx)]])
            else (v, out ++ [Json.mkObj [("vc", ofD v.varCtx)]])
        let (_, out) := ops.toList.foldl step (v0, [])
        Json.mkObj [("r", Json.arr out.toArray)]
    | _, _, _, _ => err "bad attr args"
  | some "tok" =>
    let n := ((arr? (getD j "names")).map Array.size).getD 0
    match (arr? (getD j "names")).bind (fun a => a.toList.mapM str?), bool? (getD j "fx"),
          (arr? (getD j "exprs")).bind (fun a => a.toList.mapM (toExpr n)), toValue n (getD j "val"), nat? (getD j "reps") with
    | some names, some fx, some es, some x, some reps =>
      let nk := (bool? (getD j "nk")).getD false
      match evalArgs names fx nk Raw.tuple es with
      | .error er => Json.mkObj [("e", errName er), ("phase", "init")]
      | .ok as =>
        if !as.all Option.isSome then err "tok: an expression is not a Variable" else
        -- number the objects of the variables in order, then those of the value's context (as the harness does with id())
        let (vars, n1) : List (Nat × TSlots) × Nat :=
          (as.filterMap id).foldl (fun (acc : List (Nat × TSlots) × Nat) v =>
            match labelT acc.2 (.dict v.varCtx) with
            | (.dict vt vc, n) => (acc.1 ++ [(vt, vc)], n)
            | _ => acc) ([], 0)
        let (ctx0, next) : Option (Nat × TSlots) × Nat :=
          match x with
          | .bare _ => (none, n1)
          | .pair _ c =>
            match labelT n1 (.dict c) with
            | (.dict ct cs, n2) => (some (ct, cs), n2)
            | _ => (none, n1)
        -- an aliasing case: key `alias[0]` of the context holds the very object `var_context[alias[2]]` of variable `alias[1]`
        let ctx : Option (Nat × TSlots) :=
          match arr? (getD j "alias"), ctx0 with
          | some a, some (ct, cs) =>
            match a.toList with
            | [ck, vi, vk] =>
              match str? ck, nat? vi, str? vk with
              | some ck, some vi, some vk =>
                match vars[vi]? with
                | some (_, vc) => some (ct, setT cs (key names ck) (getT vc (key names vk)))
                | none => ctx0
              | _, _, _ => ctx0
            | _ => ctx0
          | _, _ => ctx0
        let chain := (List.replicate reps vars).flatten
        -- the steps of `seqT`, each with the hypothesis `sepB` (for every variable) and the spine of the value
        let rec go (vs : List (Nat × TSlots)) (next : Nat) (ctx : Option (Nat × TSlots)) (acc : List Json) : List Json :=
          match vs with
          | [] => acc
          | (vt, vc) :: r =>
            let sep := vars.all (fun w => sepB next w.1 w.2 ctx)
            let spine := spineTokens names ctx
            match callT names fx next vt vc ctx with
            | .error er => acc ++ [Json.mkObj [("e", errName er), ("sep", Json.bool sep)]]
            | .ok res =>
              go r res.next (some (res.ctxTok, res.ctx))
                (acc ++ [Json.mkObj [("c", ofTV (.dict res.ctxTok res.ctx)), ("w", ofList ofNat res.writes), ("next", ofNat res.next),
                                     ("sep", Json.bool sep), ("spine", ofList ofNat spine),
                                     ("ctoks", ofList ofNat (ctxTokens ctx)), ("erased", ofD (eraseS res.ctx))]])
        let steps := go chain next ctx []
        -- the same iteration through `seqT` / `callsT` (the definitions the iteration theorems are about)
        let viaSeq := (seqT names fx chain next ctx).map
          (fun | .ok r => ofNat r.next | .error er => Json.str (errName er))
        let viaCalls : Json :=
          match vars with
          | [(vt, vc)] => Json.arr ((callsT names fx vt vc reps next ctx).map
              (fun | .ok r => ofNat r.next | .error er => Json.str (errName er))).toArray
          | _ => Json.null
        Json.mkObj [("r", Json.arr steps.toArray), ("calls", Json.arr viaSeq.toArray), ("calls1", viaCalls),
                    ("next", ofNat next), ("vcs", ofList (fun w => ofTV (.dict w.1 w.2)) vars)]
    | _, _, _, _, _ => err "bad tok args"
  | some "ctor" =>
    let n := ((arr? (getD j "names")).map Array.size).getD 0
    match (arr? (getD j "names")).bind (fun a => a.toList.mapM str?), bool? (getD j "fx"),
          (arr? (getD j "args")).bind (fun a => a.toList.mapM (toExpr n)) with
    | some names, some fx, some es =>
      let nk := (bool? (getD j "nk")).getD false
      match evalArgs names fx nk Raw.tuple es with
      | .error er => Json.mkObj [("e", errName er), ("phase", "init")]
      | .ok as =>
        if !as.all Option.isSome then err "ctor: an argument is not a Variable" else
        let (vars, next) : List (Nat × TSlots) × Nat :=
          (as.filterMap id).foldl (fun (acc : List (Nat × TSlots) × Nat) v =>
            match labelT acc.2 (.dict v.varCtx) with
            | (.dict vt vc, n) => (acc.1 ++ [(vt, vc)], n)
            | _ => acc) ([], 0)
        if (str? (getD j "k")).getD "compose" == "combine" then
          -- `Combine.__init__`, lines 300-302, on identities (`combineInitT`)
          let (comb, n1) := combineInitT next vars
          let argToks := vars.flatMap (fun w => tokens (.dict w.1 w.2))
          Json.mkObj [("next", ofNat next), ("args", ofList (fun w => ofTV (.dict w.1 w.2)) vars),
                      ("comb", ofTV comb), ("next1", ofNat n1),
                      ("fresh", Json.bool ((tokens comb).all (fun t => !argToks.contains t && next ≤ t)))]
        else
        match composeInitT names fx next vars with
        | none => err "ctor: no arguments"
        | some init =>
          let res := composeInitResult names init
          let argToks := vars.flatMap (fun w => tokens (.dict w.1 w.2))
          let fresh := match res with
            | some r => (tokens r).all (fun t => !argToks.contains t)
            | none => true
          Json.mkObj [("next", ofNat next), ("args", ofList (fun w => ofTV (.dict w.1 w.2)) vars),
                      ("res", ofOpt ofTV res), ("fresh", Json.bool fresh),
                      ("steps", ofList (fun (r : Except Err CallRes) => match r with
                        | .ok r => Json.mkObj [("w", ofList ofNat r.writes), ("next", ofNat r.next)]
                        | .error er => Json.mkObj [("e", errName er)]) init.2)]
    | _, _, _ => err "bad ctor args"
  | _ => err "unknown op"

def main : IO Unit := run handle
