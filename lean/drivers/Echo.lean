import LenaModel.DriverUtil
open Lean Lena.Drv
def main : IO Unit := run fun j =>
  match intList? (getD j "xs") with
  | some xs => ofIntList xs.reverse
  | none => err "bad"
