import LenaModel.DriverUtil
import LenaModel.Model.C12
import LenaModel.Model.C12Ext
import LenaModel.Model.C12Alias
import LenaModel.Model.C12Spec
import LenaModel.Model.C12Call
/-! Model driver for C12.  Numbers are exact rationals written as strings `"n/d"` (or `"n"`, or a JSON integer);
nested bins are nested JSON arrays of such numbers.

  edges  := {"f":[q..]} | {"n":[[q..],..]}
  hist   := {"edges":edges,"bins":nested,"nout":q,"scale":q|null}
  names  := {"s":"x,y"} | {"t":["x","y"]} | null            (null: neither a string nor a tuple)
  graph  := {"coords":[[q..],..],"names":names,"scale":q|null}          (constructor arguments)
  gstate := {"coords":..,"names":[str..],"scale":q|null,"dim":n,"parsed":[[coord,tail,ind],..]}

Requests -> replies (`{"e":name}` stands for a raised exception everywhere):
  {"op":"mk_hist","edges":edges,"bins":nested|null,"init":q}             -> {"h":hist}
  {"op":"integral","bins":nested,"edges":edges}                          -> {"r":q}
  {"op":"hscale","h":hist,"other":q}     (scale(); scale(other); scale(recompute=True); scale())
      -> {"scale0":q|{"e":..},"after":hist,"recomputed":q|{"e":..},"get":q} | {"scale0":..,"e":name,"after":hist}
  {"op":"hist_scale","h":hist,"recompute":bool}                          -> {"h":hist,"r":q} | {"e":name,"h":hist}
  {"op":"add","a":hist,"b":hist,"w":q,"rel":q,"abs":q}                   -> {"h":hist}
  {"op":"nevents","h":hist,"n":q|null,"incl":bool}     (get_nevents(False), get_nevents(True); set_nevents(n, incl); get_nevents(incl))
      -> {"nev_in":q,"nev_all":q[,"after":hist,"nev_after":q | ,"e":name]}
  {"op":"iter","h":hist,"ranges":[[lo|null,up|null],..]|null}
      -> {"bins":[[idx,q],..],"bwe":[[content,[[lo,hi],..]],..]|{"e":..},"cells":[[edges,content,idx],..]|{"e":..}}
  {"op":"hist_to_graph","h":hist,"mv":null|"double"|"pair"|"triple","mode":str,"fields":names,"scale":null|true|q}
      -> {"g":gstate,"rows":[[q..]..],"hscale":q|null}
  {"op":"graph","g":graph,"other":q|null}      -> {"g":gstate,"rows":..,"scaled":gstate|{"e":..}|null}
  {"op":"graph_add","a":graph,"b":graph}       -> {"g":gstate,"rows":..}
  {"op":"csv","h":hist,"to_csv":bool,"ctx_dup":bool|null,"dup":bool}     -> {"unchanged":true} | {"rows":..,"ctx":[dim,nbins,nout,ranges]}
  {"op":"csv_graph","g":graph,"to_csv":bool}                             -> {"unchanged":true} | {"rows":..}
  {"op":"scale_to","target":q|"hist"|"graph","group":[{"hist":hist}|{"graph":graph}|"other",..],"az":bool,"au":bool}
      -> {"group":[{"hist":hist}|{"graph":gstate}|"other",..],"e":name|null}
  {"op":"scale_to_call","item":…,"s":q}                                  -> {"r":item} | {"e":name}
Second part (Model/C12Ext.lean):
  {"op":"iter_coord","h":hist,"ranges_given":bool,"coord_ranges":{"single":[q,q]}|{"many":[[q,q],..]}}
      -> {"cells":[[edges,content,idx],..]}              (the interpolation guess of the bin search is `ind_min`)
  {"op":"bin_edges","index":n|[n..],"edges":edges}      -> {"pair":[q,q]} | {"pairs":[[q,q],..]}
  {"op":"bin_on_index","index":n|[n..],"bins":nested}   -> {"r":nested}
  {"op":"csv_text","h":hist,"to_csv":bool,"ctx_dup":bool|null,"dup":bool,"sep":str,"header":str|null,"row_end":str,
   "last_row_end":str}                                  -> {"unchanged":true} | {"text":str}
  {"op":"fmt","xs":[q..]}                               -> {"r":[str..],"parsed":[[neg,millionths]..]}   ("{:f}" and parseFixed of it)
  {"op":"group_scale","seq":bool, …as scale_to}         -> as scale_to
  {"op":"graph_add_any","a":graph,"b":graph|"other"|{"hist":hist}}   -> as graph_add
  {"op":"hist_to_graph_st","h":hist,"mv":"runsum"|"count"|"feed","mode":str,"fields":names,"scale":..}   (Model/C12Call.lean)
      -> {"g":gstate,"rows":[[q..]..],"hscale":q|null,"calls":[q..],"ncalls":n,"results":[[q..]..]} | {"e":name}
  {"op":"h2g_el","mv":null|"double"|"pair"|"triple"|"notvar","mode":str,"fields":names,"scale":..,"is_hist":bool,
   "h":hist,"to_graph":bool}  -> {"e":name,"phase":"init"|"run"} | {"unchanged":true} | {"g":gstate,"rows":..,"hscale":..}
  {"op":"chain","a":hist,"b":hist|null,"steps":[{"k":"scale_get","o":"a"|"b"|"c","rc":bool} | {"k":"scale_set","o":..,"s":q}
      | {"k":"set_nevents","o":..,"n":q,"incl":bool} | {"k":"nevents","o":..,"incl":bool}
      | {"k":"add","x":..,"y":..,"w":q,"rel":q,"abs":q}   (the sum becomes "c"), ..]}
      -> {"obs":[{"r":q}|{"ok":true}|{"e":name},..],"final":{"a":hist|null,"b":hist|null,"c":hist|null}}
  {"op":"gchain","src":{"g":graph}|{"h2g":{"h":hist,"mv":..,"mode":str,"fields":names,"scale":..}},"g2":graph|null,
   "steps":[{"k":"scale","s":q}|{"k":"get"}|{"k":"rows"}|{"k":"add"},..]}
      -> {"e":name,"phase":"init"} | {"obs":[{"ok":true}|{"e":name}|{"r":q|null}|{"rows":..},..],"final":gstate}
Specification vocabulary (Model/C12Spec.lean), compared by the harness with Python reference computations:
  {"op":"spec_hist","h":hist,"ranges":ranges|null}
      -> {"wf":bool,"valid":bool,"nonempty_axes":bool,"index_prod":[[n..]..],"cells":[{"idx","in_range","edges","row"}..],
          "valid_ranges":bool|null,"selected":[[n..]..]|null}
  {"op":"spec_coord","edges":edges,"values":[[q..]..]}  -> {"increasing":[bool..],"not_above":[[n..]..]}   (per axis)
  {"op":"spec_map","bins":nested,"c":q}                 -> {"map":nested,"values":[q..],"sum":q}
  {"op":"spec_zip","a":nested,"b":nested,"w":q}         -> {"zip":nested,"get":[[idx,q|null]..]}      (x + y*w; get? per cell of a)
  {"op":"spec_points","h":hist,"mode":str,"mv":..}      -> {"points":[[q..]..]}
  {"op":"spec_csv1","xs":[q..],"x_last":q,"vals":[q..],"dup":bool} -> {"rows":..,"bins":nested}
  {"op":"spec_csv2","xs":..,"x_last":q,"ys":..,"y_last":q,"vals":[[q..]..],"dup":bool} -> {"rows":..,"bins":nested}
  {"op":"spec_names","coord":str,"names":[str..]}       -> {"r":[[is_err,error_field_of]..]}

object level (Model/C12Alias.lean): a heap is a list of list objects, an address a position in it
  {"op":"graph_refs","g":graph,"heap":[[q..]..],"cols":[n..],"other":q}     (graph.scale(other) on columns that are the
      objects cols of the heap; g.coords must be what cols read)  -> {"refs":true,"coords":[[q..]..],"scale":q} | {"refs":true,"e":name}
  {"op":"hist_scale_refs","h":hist,"heap":[[q|{"r":n}..]..],"root":n,"other":q}   (md_map of histogram.scale(other) on the
      bins object at root; h.bins must be what root reads)       -> {"refs":true,"bins":nested} | {"refs":true,"e":name}
  {"op":"nevents_refs","h":hist,"heap":..,"root":n,"n":q,"incl":bool}  (md_map of set_nevents)  -> as hist_scale_refs -/
open Lean Lena Lena.Drv Lena.C12

def ratOfString (s : String) : Option Rat :=
  match s.splitOn "/" with
  | [n] => n.toInt?.map (fun (i : Int) => (i : Rat))
  | [n, d] => do
    let n ← n.toInt?
    let d ← d.toNat?
    if d = 0 then none else some (mkRat n d)
  | _ => none

def rat? (j : Json) : Option Rat :=
  match j with
  | .str s => ratOfString s
  | _ => (int? j).map (fun (i : Int) => (i : Rat))

def ratJson (q : Rat) : Json := Json.str s!"{q.num}/{q.den}"

def optRat (j : Json) : Option (Option Rat) :=
  if j.isNull then some none else (rat? j).map some

def ratList? (j : Json) : Option (List Rat) := do
  let a ← arr? j
  a.toList.mapM rat?

def ratLists? (j : Json) : Option (List (List Rat)) := do
  let a ← arr? j
  a.toList.mapM ratList?

partial def parseNArr (j : Json) : Option (NArr Rat) :=
  match j with
  | .arr a => (a.toList.mapM parseNArr).map NArr.node
  | _ => (rat? j).map NArr.leaf

partial def narrJson : NArr Rat → Json
  | .leaf v => ratJson v
  | .node xs => Json.arr (xs.map narrJson).toArray

def parseEdges (j : Json) : Option Edges :=
  match ratList? (getD j "f") with
  | some l => some (.flat l)
  | none => (ratLists? (getD j "n")).map Edges.nested

def edgesJson : Edges → Json
  | .flat e => Json.mkObj [("f", ofList ratJson e)]
  | .nested es => Json.mkObj [("n", ofList (ofList ratJson) es)]

def parseHist (j : Json) : Option Hist := do
  let e ← parseEdges (getD j "edges")
  let b ← parseNArr (getD j "bins")
  let n ← rat? (getD j "nout")
  let s ← optRat (getD j "scale")
  pure { edges := e, bins := b, nOut := n, scale := s }

def histJson (h : Hist) : Json :=
  Json.mkObj [("edges", edgesJson h.edges), ("bins", narrJson h.bins), ("nout", ratJson h.nOut),
              ("scale", ofOpt ratJson h.scale)]

def exc (e : Err) : Json := Json.str e.name
def excObj (e : Err) : Json := Json.mkObj [("e", exc e)]

def parseNames (j : Json) : Option FieldNamesArg :=
  if j.isNull then some .other
  else match str? (getD j "s") with
    | some s => some (.str s.toList)
    | none => do
      let a ← arr? (getD j "t")
      let l ← a.toList.mapM str?
      pure (.tuple (l.map String.toList))

def nameJson (n : C12.Name) : Json := Json.str (String.ofList n)

def gstateJson (g : Graph) : Json :=
  Json.mkObj [("coords", ofList (ofList ratJson) g.coords), ("names", ofList nameJson g.fieldNames),
              ("scale", ofOpt ratJson g.scale), ("dim", ofNat g.dim),
              ("parsed", ofList (fun (p : ParsedErr) => Json.arr #[nameJson p.coord, nameJson p.tail, ofNat p.ind]) g.parsed)]

def parseGraph (j : Json) : Option (Except Err Graph) := do
  let c ← ratLists? (getD j "coords")
  let n ← parseNames (getD j "names")
  let s ← optRat (getD j "scale")
  pure (mkGraph c n s)

def rowsJson (rows : List (List Rat)) : Json := ofList (ofList ratJson) rows

def pairJson (p : Rat × Rat) : Json := Json.arr #[ratJson p.1, ratJson p.2]

def parseRange (j : Json) : Option (Option Int × Option Int) := do
  let a ← arr? j
  match a.toList with
  | [lo, up] => do
    let lo ← optInt lo
    let up ← optInt up
    pure (lo, up)
  | _ => none

def parseRanges (j : Json) : Option (Option (List (Option Int × Option Int))) :=
  if j.isNull then some none
  else do
    let a ← arr? j
    let l ← a.toList.mapM parseRange
    pure (some l)

def makeValueOf (j : Json) : Option (Option (Rat → List Rat)) :=
  if j.isNull then some none
  else match str? j with
    | some "double" => some (some (fun v => [2 * v]))
    | some "pair" => some (some (fun v => [v, v / 2]))
    | some "triple" => some (some (fun v => [v, v / 2, v / 4]))
    | _ => none

/-- the `make_value`s with state (`Model/C12Call.lean`): `"runsum"`, `"count"`, `"feed"` -/
def stMakeValueOf (j : Json) : Option (StMakeValue (Rat × Nat)) :=
  match str? j with
  | some "runsum" => some mvRunSum
  | some "count" => some mvCount
  | some "feed" => some mvFeed
  | _ => none

def modeOf (s : String) : CoordMode :=
  if s == "left" then .left else if s == "right" then .right else if s == "middle" then .middle else .bad

def parseScaleArg (j : Json) : Option ScaleArg :=
  if j.isNull then some .none
  else match bool? j with
    | some true => some .true
    | _ => (rat? j).map ScaleArg.num

def parseStruct (j : Json) : Option Struct :=
  match str? j with
  | some _ => some .other
  | none =>
    let hj := getD j "hist"
    if !hj.isNull then (parseHist hj).map Struct.hist
    else match parseGraph (getD j "graph") with
      | some (.ok g) => some (.graph g)
      | _ => none

def structJson : Struct → Json
  | .hist h => Json.mkObj [("hist", histJson h)]
  | .graph g => Json.mkObj [("graph", gstateJson g)]
  | .other => Json.str "other"

def optNumJson (o : Option Rat) : Json := ofOpt ratJson o

def parseIndex (j : Json) : Option IndexArg :=
  match nat? j with
  | some n => some (.num n)
  | none => ((arr? j).bind (fun a => a.toList.mapM nat?)).map IndexArg.tuple

/-- the registers of a chain of operations: the histograms `a`, `b` and the last sum `c` -/
structure ChainEnv where
  a : Option Hist
  b : Option Hist
  c : Option Hist

def ChainEnv.get (env : ChainEnv) (o : String) : Option Hist :=
  if o == "a" then env.a else if o == "b" then env.b else env.c

def ChainEnv.set (env : ChainEnv) (o : String) (h : Hist) : ChainEnv :=
  if o == "a" then { env with a := some h } else if o == "b" then { env with b := some h } else { env with c := some h }

/-- one step of a chain: the new registers and what was observed (return value / exception) -/
def chainStep (env : ChainEnv) (st : Json) : ChainEnv × Json :=
  let o := (str? (getD st "o")).getD "a"
  match str? (getD st "k") with
  | some "scale_get" =>
    match env.get o, bool? (getD st "rc") with
    | some h, some rc =>
      match getScale h rc with
      | .ok (h1, s) => (env.set o h1, Json.mkObj [("r", ratJson s)])
      | .error er => (env, excObj er)
    | _, _ => (env, err "bad scale_get step")
  | some "scale_set" =>
    match env.get o, rat? (getD st "s") with
    | some h, some s =>
      match setScale h s with
      | .ok h1 => (env.set o h1, Json.mkObj [("ok", Json.bool true)])
      | .error er => (env.set o (cacheScale h), excObj er)
    | _, _ => (env, err "bad scale_set step")
  | some "set_nevents" =>
    match env.get o, rat? (getD st "n"), bool? (getD st "incl") with
    | some h, some n, some incl =>
      match setNevents h n incl with
      | .ok h1 => (env.set o h1, Json.mkObj [("ok", Json.bool true)])
      | .error er => (env, excObj er)
    | _, _, _ => (env, err "bad set_nevents step")
  | some "nevents" =>
    match env.get o, bool? (getD st "incl") with
    | some h, some incl => (env, Json.mkObj [("r", ratJson (getNevents h incl))])
    | _, _ => (env, err "bad nevents step")
  | some "add" =>
    match env.get ((str? (getD st "x")).getD "a"), env.get ((str? (getD st "y")).getD "b"), rat? (getD st "w"),
          rat? (getD st "rel"), rat? (getD st "abs") with
    | some x, some y, some w, some rel, some ab =>
      match addU x y w { rel := rel, abs := ab } with
      | .ok h1 => ({ env with c := some h1 }, Json.mkObj [("ok", Json.bool true)])
      | .error er => (env, excObj er)
    | _, _, _, _, _ => (env, err "bad add step")
  | _ => (env, err "unknown step")

def runChain (env : ChainEnv) : List Json → ChainEnv × List Json
  | [] => (env, [])
  | st :: rest =>
    let (env1, ob) := chainStep env st
    let (env2, obs) := runChain env1 rest
    (env2, ob :: obs)

/-- one step of a chain on a graph: `scale(s)`, `scale()`, `+ g2`, `rows()` -/
def gchainStep (g : Graph) (g2 : Option Graph) (st : Json) : Graph × Json :=
  match str? (getD st "k") with
  | some "scale" =>
    match rat? (getD st "s") with
    | some s =>
      match graphSetScale g s with
      | .ok g1 => (g1, Json.mkObj [("ok", Json.bool true)])
      | .error er => (g, excObj er)
    | none => (g, err "bad scale step")
  | some "get" => (g, Json.mkObj [("r", optNumJson g.scale)])
  | some "rows" => (g, Json.mkObj [("rows", rowsJson g.rows)])
  | some "add" =>
    match g2 with
    | some b =>
      match graphAdd g b with
      | .ok g1 => (g1, Json.mkObj [("ok", Json.bool true)])
      | .error er => (g, excObj er)
    | none => (g, err "no second graph")
  | _ => (g, err "unknown step")

def runGChain (g : Graph) (g2 : Option Graph) : List Json → Graph × List Json
  | [] => (g, [])
  | st :: rest =>
    let (g1, ob) := gchainStep g g2 st
    let (gf, obs) := runGChain g1 g2 rest
    (gf, ob :: obs)

def parseCell (j : Json) : Option Cell :=
  match rat? j with
  | some v => some (.num v)
  | none => (nat? (getD j "r")).map Cell.ref

def parseBinHeap (j : Json) : Option BinHeap := do
  let a ← arr? j
  a.toList.mapM (fun row => do
    let r ← arr? row
    r.toList.mapM parseCell)

/-- depth bound for reading bins objects (histograms have at most a few dimensions) -/
def refsFuel : Nat := 8

def refsObj (fields : List (String × Json)) : Json := Json.mkObj (("refs", Json.bool true) :: fields)

/-- `md_map(f, bins)` on the bins object at `root`, read back -/
def mdMapRefs (f : Rat → Rat) (bins : NArr Rat) (hp : BinHeap) (root : Nat) : Json :=
  match readBins refsFuel hp root with
  | none => err "root does not read as bins"
  | some a =>
    if narrJson a != narrJson bins then err "heap does not read as the bins of h"
    else match mdMapH f refsFuel hp root with
      | none => refsObj [("e", Json.str "unmodelled")]
      | some (hp', r') =>
        match readBins refsFuel hp' r' with
        | some b => refsObj [("bins", narrJson b)]
        | none => err "new object does not read"

def handle (j : Json) : Json :=
  match str? (getD j "op") with
  | some "graph_refs" =>
    match parseGraph (getD j "g"), ratLists? (getD j "heap"), (arr? (getD j "cols")).bind (fun a => a.toList.mapM nat?),
          rat? (getD j "other") with
    | some (.error er), _, _, _ => refsObj [("e", exc er)]
    | some (.ok g), some hp, some cols, some other =>
      if readCols hp cols != some g.coords then err "cols do not read as the coords of g"
      else match graphSetScaleRefs g hp cols other with
        | .error er => refsObj [("e", exc er)]
        | .ok (hp', cols', sc) =>
          match readCols hp' cols' with
          | some cs => refsObj [("coords", rowsJson cs), ("scale", ofOpt ratJson sc)]
          | none => err "new columns do not read"
    | _, _, _, _ => err "bad graph_refs args"
  | some "hist_scale_refs" =>
    match parseHist (getD j "h"), parseBinHeap (getD j "heap"), nat? (getD j "root"), rat? (getD j "other") with
    | some h, some hp, some root, some other =>
      match getScale h false with
      | .error er => refsObj [("e", exc er)]
      | .ok (_, sc) =>
        if sc = 0 then refsObj [("e", exc .lenaValueError)]
        else mdMapRefs (fun binc => binc * other / sc) h.bins hp root
    | _, _, _, _ => err "bad hist_scale_refs args"
  | some "nevents_refs" =>
    match parseHist (getD j "h"), parseBinHeap (getD j "heap"), nat? (getD j "root"), rat? (getD j "n"), bool? (getD j "incl") with
    | some h, some hp, some root, some n, some incl =>
      if getNevents h incl = 0 then refsObj [("e", exc .lenaValueError)]
      else mdMapRefs (fun binc => binc * (n / getNevents h incl)) h.bins hp root
    | _, _, _, _, _ => err "bad nevents_refs args"
  | some "mk_hist" =>
    match parseEdges (getD j "edges"), (if (getD j "bins").isNull then some none else (parseNArr (getD j "bins")).map some),
          rat? (getD j "init") with
    | some e, some b, some i =>
      match mkHistU e b i with
      | .ok h => Json.mkObj [("h", histJson h)]
      | .error er => excObj er
    | _, _, _ => err "bad mk_hist args"
  | some "integral" =>
    match parseNArr (getD j "bins"), parseEdges (getD j "edges") with
    | some b, some e =>
      match integral b e.axes with
      | .ok r => Json.mkObj [("r", ratJson r)]
      | .error er => excObj er
    | _, _ => err "bad integral args"
  | some "hscale" =>
    match parseHist (getD j "h"), rat? (getD j "other") with
    | some h, some o =>
      let scale0 := match getScale h false with
        | .ok (_, s) => ratJson s
        | .error er => excObj er
      match setScale h o with
      | .ok h1 =>
        let rec1 := match getScale h1 true with
          | .ok (_, s) => ratJson s
          | .error er => excObj er
        let get1 := match getScale h1 false with
          | .ok (_, s) => ratJson s
          | .error er => excObj er
        Json.mkObj [("scale0", scale0), ("after", histJson h1), ("recomputed", rec1), ("get", get1)]
      | .error er => Json.mkObj [("scale0", scale0), ("e", exc er), ("after", histJson (cacheScale h))]
    | _, _ => err "bad hscale args"
  | some "hist_scale" =>
    match parseHist (getD j "h"), bool? (getD j "recompute") with
    | some h, some rc =>
      match getScale h rc with
      | .ok (h1, s) => Json.mkObj [("h", histJson h1), ("r", ratJson s)]
      | .error er => Json.mkObj [("e", exc er), ("h", histJson h)]
    | _, _ => err "bad hist_scale args"
  | some "add" =>
    match parseHist (getD j "a"), parseHist (getD j "b"), rat? (getD j "w"), rat? (getD j "rel"), rat? (getD j "abs") with
    | some a, some b, some w, some rel, some ab =>
      match addU a b w { rel := rel, abs := ab } with
      | .ok h => Json.mkObj [("h", histJson h)]
      | .error er => excObj er
    | _, _, _, _, _ => err "bad add args"
  | some "nevents" =>
    match parseHist (getD j "h"), optRat (getD j "n"), bool? (getD j "incl") with
    | some h, some n, some i =>
      let base := [("nev_in", ratJson (getNevents h false)), ("nev_all", ratJson (getNevents h true))]
      match n with
      | none => Json.mkObj base
      | some n =>
        match setNevents h n i with
        | .ok h1 => Json.mkObj (base ++ [("after", histJson h1), ("nev_after", ratJson (getNevents h1 i))])
        | .error er => Json.mkObj (base ++ [("e", exc er)])
    | _, _, _ => err "bad nevents args"
  | some "iter" =>
    match parseHist (getD j "h"), parseRanges (getD j "ranges") with
    | some h, some rg =>
      let binsJ := ofList (fun (p : List Nat × Rat) => Json.arr #[ofList ofNat p.1, ratJson p.2]) (NArr.cells h.bins)
      let bweJ := match iterBinsWithEdges h.bins h.edges with
        | .ok l => ofList (fun (p : NArr Rat × List (Rat × Rat)) => Json.arr #[narrJson p.1, ofList pairJson p.2]) l
        | .error er => excObj er
      let cellsJ := match iterCells h rg with
        | .ok l => ofList (fun (c : HistCell) => Json.arr #[ofList pairJson c.edges, narrJson c.bin, ofList ofNat c.index]) l
        | .error er => excObj er
      Json.mkObj [("bins", binsJ), ("bwe", bweJ), ("cells", cellsJ)]
    | _, _ => err "bad iter args"
  | some "hist_to_graph_st" =>
    match parseHist (getD j "h"), stMakeValueOf (getD j "mv"), str? (getD j "mode"), parseNames (getD j "fields"),
          parseScaleArg (getD j "scale") with
    | some h, some mk, some mode, some fields, some sc =>
      match histToGraphSt h mk (0, 0) (modeOf mode) fields sc with
      | .ok (h1, g, s1, tr) =>
        Json.mkObj [("g", gstateJson g), ("rows", rowsJson g.rows), ("hscale", optNumJson h1.scale),
                    ("calls", ofList ratJson tr), ("ncalls", ofNat s1.2),
                    ("results", rowsJson (callResults mk (0, 0) tr))]
      | .error er => excObj er
    | _, _, _, _, _ => err "bad hist_to_graph_st args"
  | some "hist_to_graph" =>
    match parseHist (getD j "h"), makeValueOf (getD j "mv"), str? (getD j "mode"), parseNames (getD j "fields"),
          parseScaleArg (getD j "scale") with
    | some h, some mv, some mode, some fields, some sc =>
      match histToGraph h mv (modeOf mode) fields sc with
      | .ok (h1, g) => Json.mkObj [("g", gstateJson g), ("rows", rowsJson g.rows), ("hscale", optNumJson h1.scale)]
      | .error er => excObj er
    | _, _, _, _, _ => err "bad hist_to_graph args"
  | some "graph" =>
    match parseGraph (getD j "g"), optRat (getD j "other") with
    | some (.error er), some _ => excObj er
    | some (.ok g), some other =>
      let scaled := match other with
        | none => Json.null
        | some o => match graphSetScale g o with
          | .ok g' => gstateJson g'
          | .error er => excObj er
      Json.mkObj [("g", gstateJson g), ("rows", rowsJson g.rows), ("scaled", scaled)]
    | _, _ => err "bad graph args"
  | some "graph_add" =>
    match parseGraph (getD j "a"), parseGraph (getD j "b") with
    | some (.ok a), some (.ok b) =>
      match graphAdd a b with
      | .ok g => Json.mkObj [("g", gstateJson g), ("rows", rowsJson g.rows)]
      | .error er => excObj er
    | some (.error er), _ => excObj er
    | _, some (.error er) => excObj er
    | _, _ => err "bad graph_add args"
  | some "csv" =>
    match parseHist (getD j "h"), bool? (getD j "to_csv"),
          (if (getD j "ctx_dup").isNull then some none else (bool? (getD j "ctx_dup")).map some), bool? (getD j "dup") with
    | some h, some tc, some cd, some d =>
      match toCsvHistU h tc cd d with
      | .ok .unchanged => Json.mkObj [("unchanged", Json.bool true)]
      | .ok (.table rows) =>
        let (dim, nbins, nout, ranges) := histContext h
        Json.mkObj [("rows", rowsJson rows),
                    ("ctx", Json.arr #[ofNat dim, ofList ofNat nbins, ratJson nout,
                                       ofList (fun (p : Option Rat × Option Rat) => Json.arr #[optNumJson p.1, optNumJson p.2]) ranges])]
      | .error er => excObj er
    | _, _, _, _ => err "bad csv args"
  | some "csv_graph" =>
    match parseGraph (getD j "g"), bool? (getD j "to_csv") with
    | some (.ok g), some tc =>
      match toCsvGraph g tc with
      | .unchanged => Json.mkObj [("unchanged", Json.bool true)]
      | .table rows => Json.mkObj [("rows", rowsJson rows)]
    | some (.error er), _ => excObj er
    | _, _ => err "bad csv_graph args"
  | some "scale_to" =>
    let tj := getD j "target"
    let target : Option ScaleTarget := match str? tj with
      | some "hist" => some .selectHist
      | some "graph" => some .selectGraph
      | _ => (rat? tj).map ScaleTarget.num
    match target, (arr? (getD j "group")).bind (fun a => a.toList.mapM parseStruct), bool? (getD j "az"), bool? (getD j "au") with
    | some t, some group, some az, some au =>
      let (g, e) := scaleTo t group az au
      Json.mkObj [("group", ofList structJson g), ("e", ofOpt exc e)]
    | _, _, _, _ => err "bad scale_to args"
  | some "scale_to_call" =>
    match parseStruct (getD j "item"), rat? (getD j "s") with
    | some d, some s =>
      match scaleToCall d s with
      | .ok r => Json.mkObj [("r", structJson r)]
      | .error (some er) => excObj er
      | .error none => Json.mkObj [("e", Json.str "Other:AttributeError")]
    | _, _ => err "bad scale_to_call args"
  | some "iter_coord" =>
    let crj := getD j "coord_ranges"
    let pairOf (x : Json) : Option (Rat × Rat) := do
      let l ← ratList? x
      match l with
      | [a, b] => some (a, b)
      | _ => none
    let cr : Option CoordRangesArg :=
      match pairOf (getD crj "single") with
      | some p => some (.single p)
      | none => ((arr? (getD crj "many")).bind (fun a => a.toList.mapM pairOf)).map CoordRangesArg.many
    match parseHist (getD j "h"), bool? (getD j "ranges_given"), cr with
    | some h, some rgv, some cr =>
      match iterCellsCoord (fun _ lo _ => (lo : Int)) h rgv cr with
      | .ok l => Json.mkObj [("cells", ofList (fun (c : HistCell) => Json.arr #[ofList pairJson c.edges, narrJson c.bin, ofList ofNat c.index]) l)]
      | .error er => excObj er
    | _, _, _ => err "bad iter_coord args"
  | some "bin_edges" =>
    match parseIndex (getD j "index"), parseEdges (getD j "edges") with
    | some ix, some e =>
      match getBinEdges ix e with
      | .ok (.pair lo hi) => Json.mkObj [("pair", pairJson (lo, hi))]
      | .ok (.pairs l) => Json.mkObj [("pairs", ofList pairJson l)]
      | .error er => excObj er
    | _, _ => err "bad bin_edges args"
  | some "bin_on_index" =>
    match parseIndex (getD j "index"), parseNArr (getD j "bins") with
    | some ix, some b =>
      match getBinOnIndex ix b with
      | .ok r => Json.mkObj [("r", narrJson r)]
      | .error er => excObj er
    | _, _ => err "bad bin_on_index args"
  | some "csv_text" =>
    match parseHist (getD j "h"), bool? (getD j "to_csv"),
          (if (getD j "ctx_dup").isNull then some none else (bool? (getD j "ctx_dup")).map some), bool? (getD j "dup"),
          str? (getD j "sep"), str? (getD j "row_end"), str? (getD j "last_row_end") with
    | some h, some tc, some cd, some d, some sep, some re, some lre =>
      let f : CsvFormat := { separator := sep, header := str? (getD j "header"), rowEnd := re, lastRowEnd := lre }
      match toCsvHistTextU f h tc cd d with
      | .ok .unchanged => Json.mkObj [("unchanged", Json.bool true)]
      | .ok (.text t) => Json.mkObj [("text", Json.str t)]
      | .error er => excObj er
    | _, _, _, _, _, _, _ => err "bad csv_text args"
  | some "fmt" =>
    match ratList? (getD j "xs") with
    | some xs => Json.mkObj [("r", ofList (fun x => Json.str (fmtF x)) xs),
                             ("parsed", ofList (fun x => let p := parseFixed (fmtF x).toList
                                                         Json.arr #[Json.bool p.1, ofNat p.2]) xs)]
    | none => err "bad fmt args"
  | some "group_scale" =>
    let tj := getD j "target"
    let target : Option ScaleTarget := match str? tj with
      | some "hist" => some .selectHist
      | some "graph" => some .selectGraph
      | _ => (rat? tj).map ScaleTarget.num
    match target, bool? (getD j "seq"), (arr? (getD j "group")).bind (fun a => a.toList.mapM parseStruct), bool? (getD j "az"), bool? (getD j "au") with
    | some t, some sq, some group, some az, some au =>
      let (g, e) := groupScaleCall t sq group az au
      Json.mkObj [("group", ofList structJson g), ("e", ofOpt exc e)]
    | _, _, _, _, _ => err "bad group_scale args"
  | some "graph_add_any" =>
    match parseGraph (getD j "a"), parseStruct (getD j "b") with
    | some (.ok a), some b =>
      match graphAddAny a b with
      | .ok g => Json.mkObj [("g", gstateJson g), ("rows", rowsJson g.rows)]
      | .error er => excObj er
    | some (.error er), _ => excObj er
    | _, _ => err "bad graph_add_any args"
  | some "h2g_el" =>
    let mvj := getD j "mv"
    let mv : Option MakeValueArg :=
      if mvj.isNull then some .none
      else match str? mvj with
        | some "notvar" => some .notVariable
        | _ => match makeValueOf mvj with
          | some (some f) => some (.variable f)
          | _ => none
    match mv, str? (getD j "mode"), parseNames (getD j "fields"), parseScaleArg (getD j "scale"), bool? (getD j "is_hist"),
          parseHist (getD j "h"), bool? (getD j "to_graph") with
    | some mv, some mode, some fields, some sc, some ih, some h, some tg =>
      match mkHistToGraph mv (modeOf mode) fields sc with
      | .error er => Json.mkObj [("e", exc er), ("phase", Json.str "init")]
      | .ok el =>
        match histToGraphRun el ih h tg with
        | .error er => Json.mkObj [("e", exc er), ("phase", Json.str "run")]
        | .ok .unchanged => Json.mkObj [("unchanged", Json.bool true)]
        | .ok (.graph h1 g) => Json.mkObj [("g", gstateJson g), ("rows", rowsJson g.rows), ("hscale", optNumJson h1.scale)]
    | _, _, _, _, _, _, _ => err "bad h2g_el args"
  | some "spec_hist" =>
    match parseHist (getD j "h"), parseRanges (getD j "ranges") with
    | some h, some rg =>
      let axes := h.edges.axes
      let cs := NArr.cells h.bins
      let cellJ (p : List Nat × Rat) : Json :=
        Json.mkObj [("idx", ofList ofNat p.1), ("in_range", Json.bool (inRangeB axes p.1)),
                    ("edges", ofList pairJson (cellEdgesRef axes p.1)), ("row", ofList ratJson (cellRow axes p)),
                    ("volume", ratJson (cellVolume (cellEdgesRef axes p.1)))]
      let (vr, sel) := match rg with
        | none => (Json.null, Json.null)
        | some r => (Json.bool (validRangesB axes r),
                     ofList (fun (p : List Nat × Rat) => ofList ofNat p.1) (cs.filter (fun p => selAll (List.zipWith rangePred axes r) p.1)))
      Json.mkObj [("wf", Json.bool (wfB h)), ("valid", Json.bool (validB h)), ("nonempty_axes", Json.bool (nonEmptyAxesB h.edges)),
                  ("index_prod", ofList (ofList ofNat) (NArr.indexProd (h.nbins.map List.range))),
                  ("cells", ofList cellJ cs), ("valid_ranges", vr), ("selected", sel),
                  ("integral_ref", ratJson (integralRef axes h.bins)),
                  ("valid_u", Json.bool (wfB h && (match checkEdgesIncreasing h.edges with | .ok _ => true | .error _ => false)))]
    | _, _ => err "bad spec_hist args"
  | some "gchain" =>
    let src := getD j "src"
    let hj := getD src "h2g"
    let g0 : Option (Except Err Graph) :=
      if !hj.isNull then
        match parseHist (getD hj "h"), makeValueOf (getD hj "mv"), str? (getD hj "mode"), parseNames (getD hj "fields"),
              parseScaleArg (getD hj "scale") with
        | some h, some mv, some mode, some fields, some sc => some ((histToGraph h mv (modeOf mode) fields sc).map (·.2))
        | _, _, _, _, _ => none
      else parseGraph (getD src "g")
    let g2 : Option (Option (Except Err Graph)) :=
      if (getD j "g2").isNull then some none else (parseGraph (getD j "g2")).map some
    match g0, g2, arr? (getD j "steps") with
    | some (.error er), _, _ => Json.mkObj [("e", exc er), ("phase", Json.str "init")]
    | some (.ok g), some none, some steps =>
      let (gf, obs) := runGChain g none steps.toList
      Json.mkObj [("obs", Json.arr obs.toArray), ("final", gstateJson gf)]
    | some (.ok g), some (some (.ok b)), some steps =>
      let (gf, obs) := runGChain g (some b) steps.toList
      Json.mkObj [("obs", Json.arr obs.toArray), ("final", gstateJson gf)]
    | some (.ok _), some (some (.error er)), _ => Json.mkObj [("e", exc er), ("phase", Json.str "init")]
    | _, _, _ => err "bad gchain args"
  | some "chain" =>
    let optHist (x : Json) : Option (Option Hist) := if x.isNull then some none else (parseHist x).map some
    match optHist (getD j "a"), optHist (getD j "b"), arr? (getD j "steps") with
    | some a, some b, some steps =>
      let (env, obs) := runChain { a := a, b := b, c := none } steps.toList
      Json.mkObj [("obs", Json.arr obs.toArray),
                  ("final", Json.mkObj [("a", ofOpt histJson env.a), ("b", ofOpt histJson env.b), ("c", ofOpt histJson env.c)])]
    | _, _, _ => err "bad chain args"
  | some "spec_coord" =>
    match parseEdges (getD j "edges"), ratLists? (getD j "values") with
    | some e, some vals =>
      let axes := e.axes
      Json.mkObj [("increasing", ofList (fun ax => Json.bool (increasingPairs ax)) axes),
                  ("not_above", ofList (fun (p : List Rat × List Rat) => ofList (fun v => ofNat (edgesNotAbove p.1 v)) p.2)
                    (List.zip axes vals))]
    | _, _ => err "bad spec_coord args"
  | some "spec_map" =>
    match parseNArr (getD j "bins"), rat? (getD j "c") with
    | some b, some c =>
      Json.mkObj [("map", narrJson (NArr.map (· * c) b)), ("values", ofList ratJson (NArr.values b)),
                  ("sum", ratJson (sumQ (NArr.values b)))]
    | _, _ => err "bad spec_map args"
  | some "spec_zip" =>
    match parseNArr (getD j "a"), parseNArr (getD j "b"), rat? (getD j "w") with
    | some a, some b, some w =>
      let z := NArr.zipWith (fun x y => x + y * w) a b
      let getJ (p : List Nat × Rat) : Json :=
        Json.arr #[ofList ofNat p.1, match NArr.get? z p.1 with | some (.leaf v) => ratJson v | _ => Json.null]
      Json.mkObj [("zip", narrJson z), ("get", ofList getJ (NArr.cells a))]
    | _, _, _ => err "bad spec_zip args"
  | some "spec_points" =>
    match parseHist (getD j "h"), str? (getD j "mode"), makeValueOf (getD j "mv") with
    | some h, some mode, some mv =>
      Json.mkObj [("points", rowsJson ((NArr.cells h.bins).map (fun p => pointOf (modeOf mode) mv (cellEdgesRef h.edges.axes p.1) p.2)))]
    | _, _, _ => err "bad spec_points args"
  | some "spec_csv1" =>
    match ratList? (getD j "xs"), rat? (getD j "x_last"), ratList? (getD j "vals"), bool? (getD j "dup") with
    | some xs, some xl, some vals, some dup =>
      let rows := List.zipWith (fun x v => [x, v]) xs vals ++
        (if dup then (match vals.getLast? with | some v => [[xl, v]] | none => []) else [])
      Json.mkObj [("rows", rowsJson rows), ("bins", narrJson (bins1d vals))]
    | _, _, _, _ => err "bad spec_csv1 args"
  | some "spec_csv2" =>
    match ratList? (getD j "xs"), rat? (getD j "x_last"), ratList? (getD j "ys"), rat? (getD j "y_last"),
          ratLists? (getD j "vals"), bool? (getD j "dup") with
    | some xs, some xl, some ys, some yl, some vals, some dup =>
      let rows := (List.zipWith (rowsFor ys yl dup) xs vals).flatten ++
        (if dup then (match vals.getLast? with | some r => rowsFor ys yl true xl r | none => []) else [])
      Json.mkObj [("rows", rowsJson rows), ("bins", narrJson (bins2d vals))]
    | _, _, _, _, _, _ => err "bad spec_csv2 args"
  | some "spec_names" =>
    match str? (getD j "coord"), (arr? (getD j "names")).bind (fun a => a.toList.mapM str?) with
    | some c, some names =>
      Json.mkObj [("r", ofList (fun (n : String) => Json.arr #[Json.bool (isErrField n.toList), Json.bool (errorFieldOfB c.toList n.toList)]) names)]
    | _, _ => err "bad spec_names args"
  | _ => err "unknown op"

def main : IO Unit := run handle
