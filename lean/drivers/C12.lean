import LenaModel.DriverUtil
import LenaModel.Model.C12
/-! Model driver for C12.  Numbers are exact rationals written as strings `"n/d"` (or `"n"`, or a JSON integer);
nested bins are nested JSON arrays of such numbers.

  edges  := {"f":[q..]} | {"n":[[q..],..]}
  hist   := {"edges":edges,"bins":nested,"nout":q,"scale":q|null}
  names  := {"s":"x,y"} | {"t":["x","y"]} | null            (null: neither a string nor a tuple)
  graph  := {"coords":[[q..],..],"names":names,"scale":q|null}          (constructor arguments)
  gstate := {"coords":..,"names":[str..],"scale":q|null,"dim":n,"parsed":[[coord,tail,ind],..]}

Requests -> replies (`{"e":name}` stands for a raised exception everywhere):
  {"op":"mk_hist","edges":edges,"bins":nested|null,"init":q}             -> {"h":hist}
  {"op":"integral","bins":nested,"edges":edges}                          -> {"r":q}
  {"op":"hscale","h":hist,"other":q}     (scale(); scale(other); scale(recompute=True); scale())
      -> {"scale0":q|{"e":..},"after":hist,"recomputed":q|{"e":..},"get":q} | {"scale0":..,"e":name,"after":hist}
  {"op":"hist_scale","h":hist,"recompute":bool}                          -> {"h":hist,"r":q} | {"e":name,"h":hist}
  {"op":"add","a":hist,"b":hist,"w":q,"rel":q,"abs":q}                   -> {"h":hist}
  {"op":"nevents","h":hist,"n":q|null,"incl":bool}     (get_nevents(False), get_nevents(True); set_nevents(n, incl); get_nevents(incl))
      -> {"nev_in":q,"nev_all":q[,"after":hist,"nev_after":q | ,"e":name]}
  {"op":"iter","h":hist,"ranges":[[lo|null,up|null],..]|null}
      -> {"bins":[[idx,q],..],"bwe":[[content,[[lo,hi],..]],..]|{"e":..},"cells":[[edges,content,idx],..]|{"e":..}}
  {"op":"hist_to_graph","h":hist,"mv":null|"double"|"pair"|"triple","mode":str,"fields":names,"scale":null|true|q}
      -> {"g":gstate,"rows":[[q..]..],"hscale":q|null}
  {"op":"graph","g":graph,"other":q|null}      -> {"g":gstate,"rows":..,"scaled":gstate|{"e":..}|null}
  {"op":"graph_add","a":graph,"b":graph}       -> {"g":gstate,"rows":..}
  {"op":"csv","h":hist,"to_csv":bool,"ctx_dup":bool|null,"dup":bool}     -> {"unchanged":true} | {"rows":..,"ctx":[dim,nbins,nout,ranges]}
  {"op":"csv_graph","g":graph,"to_csv":bool}                             -> {"unchanged":true} | {"rows":..}
  {"op":"scale_to","target":q|"hist"|"graph","group":[{"hist":hist}|{"graph":graph}|"other",..],"az":bool,"au":bool}
      -> {"group":[{"hist":hist}|{"graph":gstate}|"other",..],"e":name|null}
  {"op":"scale_to_call","item":…,"s":q}                                  -> {"r":item} | {"e":name} -/
open Lean Lena Lena.Drv Lena.C12

def ratOfString (s : String) : Option Rat :=
  match s.splitOn "/" with
  | [n] => n.toInt?.map (fun (i : Int) => (i : Rat))
  | [n, d] => do
    let n ← n.toInt?
    let d ← d.toNat?
    if d = 0 then none else some (mkRat n d)
  | _ => none

def rat? (j : Json) : Option Rat :=
  match j with
  | .str s => ratOfString s
  | _ => (int? j).map (fun (i : Int) => (i : Rat))

def ratJson (q : Rat) : Json := Json.str s!"{q.num}/{q.den}"

def optRat (j : Json) : Option (Option Rat) :=
  if j.isNull then some none else (rat? j).map some

def ratList? (j : Json) : Option (List Rat) := do
  let a ← arr? j
  a.toList.mapM rat?

def ratLists? (j : Json) : Option (List (List Rat)) := do
  let a ← arr? j
  a.toList.mapM ratList?

partial def parseNArr (j : Json) : Option (NArr Rat) :=
  match j with
  | .arr a => (a.toList.mapM parseNArr).map NArr.node
  | _ => (rat? j).map NArr.leaf

partial def narrJson : NArr Rat → Json
  | .leaf v => ratJson v
  | .node xs => Json.arr (xs.map narrJson).toArray

def parseEdges (j : Json) : Option Edges :=
  match ratList? (getD j "f") with
  | some l => some (.flat l)
  | none => (ratLists? (getD j "n")).map Edges.nested

def edgesJson : Edges → Json
  | .flat e => Json.mkObj [("f", ofList ratJson e)]
  | .nested es => Json.mkObj [("n", ofList (ofList ratJson) es)]

def parseHist (j : Json) : Option Hist := do
  let e ← parseEdges (getD j "edges")
  let b ← parseNArr (getD j "bins")
  let n ← rat? (getD j "nout")
  let s ← optRat (getD j "scale")
  pure { edges := e, bins := b, nOut := n, scale := s }

def histJson (h : Hist) : Json :=
  Json.mkObj [("edges", edgesJson h.edges), ("bins", narrJson h.bins), ("nout", ratJson h.nOut),
              ("scale", ofOpt ratJson h.scale)]

def exc (e : Err) : Json := Json.str e.name
def excObj (e : Err) : Json := Json.mkObj [("e", exc e)]

def parseNames (j : Json) : Option FieldNamesArg :=
  if j.isNull then some .other
  else match str? (getD j "s") with
    | some s => some (.str s.toList)
    | none => do
      let a ← arr? (getD j "t")
      let l ← a.toList.mapM str?
      pure (.tuple (l.map String.toList))

def nameJson (n : C12.Name) : Json := Json.str (String.ofList n)

def gstateJson (g : Graph) : Json :=
  Json.mkObj [("coords", ofList (ofList ratJson) g.coords), ("names", ofList nameJson g.fieldNames),
              ("scale", ofOpt ratJson g.scale), ("dim", ofNat g.dim),
              ("parsed", ofList (fun (p : ParsedErr) => Json.arr #[nameJson p.coord, nameJson p.tail, ofNat p.ind]) g.parsed)]

def parseGraph (j : Json) : Option (Except Err Graph) := do
  let c ← ratLists? (getD j "coords")
  let n ← parseNames (getD j "names")
  let s ← optRat (getD j "scale")
  pure (mkGraph c n s)

def rowsJson (rows : List (List Rat)) : Json := ofList (ofList ratJson) rows

def pairJson (p : Rat × Rat) : Json := Json.arr #[ratJson p.1, ratJson p.2]

def parseRange (j : Json) : Option (Option Int × Option Int) := do
  let a ← arr? j
  match a.toList with
  | [lo, up] => do
    let lo ← optInt lo
    let up ← optInt up
    pure (lo, up)
  | _ => none

def parseRanges (j : Json) : Option (Option (List (Option Int × Option Int))) :=
  if j.isNull then some none
  else do
    let a ← arr? j
    let l ← a.toList.mapM parseRange
    pure (some l)

def makeValueOf (j : Json) : Option (Option (Rat → List Rat)) :=
  if j.isNull then some none
  else match str? j with
    | some "double" => some (some (fun v => [2 * v]))
    | some "pair" => some (some (fun v => [v, v / 2]))
    | some "triple" => some (some (fun v => [v, v / 2, v / 4]))
    | _ => none

def modeOf (s : String) : CoordMode :=
  if s == "left" then .left else if s == "right" then .right else if s == "middle" then .middle else .bad

def parseScaleArg (j : Json) : Option ScaleArg :=
  if j.isNull then some .none
  else match bool? j with
    | some true => some .true
    | _ => (rat? j).map ScaleArg.num

def parseStruct (j : Json) : Option Struct :=
  match str? j with
  | some _ => some .other
  | none =>
    let hj := getD j "hist"
    if !hj.isNull then (parseHist hj).map Struct.hist
    else match parseGraph (getD j "graph") with
      | some (.ok g) => some (.graph g)
      | _ => none

def structJson : Struct → Json
  | .hist h => Json.mkObj [("hist", histJson h)]
  | .graph g => Json.mkObj [("graph", gstateJson g)]
  | .other => Json.str "other"

def optNumJson (o : Option Rat) : Json := ofOpt ratJson o

def handle (j : Json) : Json :=
  match str? (getD j "op") with
  | some "mk_hist" =>
    match parseEdges (getD j "edges"), (if (getD j "bins").isNull then some none else (parseNArr (getD j "bins")).map some),
          rat? (getD j "init") with
    | some e, some b, some i =>
      match mkHist e b i with
      | .ok h => Json.mkObj [("h", histJson h)]
      | .error er => excObj er
    | _, _, _ => err "bad mk_hist args"
  | some "integral" =>
    match parseNArr (getD j "bins"), parseEdges (getD j "edges") with
    | some b, some e =>
      match integral b e.axes with
      | .ok r => Json.mkObj [("r", ratJson r)]
      | .error er => excObj er
    | _, _ => err "bad integral args"
  | some "hscale" =>
    match parseHist (getD j "h"), rat? (getD j "other") with
    | some h, some o =>
      let scale0 := match getScale h false with
        | .ok (_, s) => ratJson s
        | .error er => excObj er
      match setScale h o with
      | .ok h1 =>
        let rec1 := match getScale h1 true with
          | .ok (_, s) => ratJson s
          | .error er => excObj er
        let get1 := match getScale h1 false with
          | .ok (_, s) => ratJson s
          | .error er => excObj er
        Json.mkObj [("scale0", scale0), ("after", histJson h1), ("recomputed", rec1), ("get", get1)]
      | .error er => Json.mkObj [("scale0", scale0), ("e", exc er), ("after", histJson (cacheScale h))]
    | _, _ => err "bad hscale args"
  | some "hist_scale" =>
    match parseHist (getD j "h"), bool? (getD j "recompute") with
    | some h, some rc =>
      match getScale h rc with
      | .ok (h1, s) => Json.mkObj [("h", histJson h1), ("r", ratJson s)]
      | .error er => Json.mkObj [("e", exc er), ("h", histJson h)]
    | _, _ => err "bad hist_scale args"
  | some "add" =>
    match parseHist (getD j "a"), parseHist (getD j "b"), rat? (getD j "w"), rat? (getD j "rel"), rat? (getD j "abs") with
    | some a, some b, some w, some rel, some ab =>
      match add a b w { rel := rel, abs := ab } with
      | .ok h => Json.mkObj [("h", histJson h)]
      | .error er => excObj er
    | _, _, _, _, _ => err "bad add args"
  | some "nevents" =>
    match parseHist (getD j "h"), optRat (getD j "n"), bool? (getD j "incl") with
    | some h, some n, some i =>
      let base := [("nev_in", ratJson (getNevents h false)), ("nev_all", ratJson (getNevents h true))]
      match n with
      | none => Json.mkObj base
      | some n =>
        match setNevents h n i with
        | .ok h1 => Json.mkObj (base ++ [("after", histJson h1), ("nev_after", ratJson (getNevents h1 i))])
        | .error er => Json.mkObj (base ++ [("e", exc er)])
    | _, _, _ => err "bad nevents args"
  | some "iter" =>
    match parseHist (getD j "h"), parseRanges (getD j "ranges") with
    | some h, some rg =>
      let binsJ := ofList (fun (p : List Nat × Rat) => Json.arr #[ofList ofNat p.1, ratJson p.2]) (NArr.cells h.bins)
      let bweJ := match iterBinsWithEdges h.bins h.edges with
        | .ok l => ofList (fun (p : NArr Rat × List (Rat × Rat)) => Json.arr #[narrJson p.1, ofList pairJson p.2]) l
        | .error er => excObj er
      let cellsJ := match iterCells h rg with
        | .ok l => ofList (fun (c : HistCell) => Json.arr #[ofList pairJson c.edges, narrJson c.bin, ofList ofNat c.index]) l
        | .error er => excObj er
      Json.mkObj [("bins", binsJ), ("bwe", bweJ), ("cells", cellsJ)]
    | _, _ => err "bad iter args"
  | some "hist_to_graph" =>
    match parseHist (getD j "h"), makeValueOf (getD j "mv"), str? (getD j "mode"), parseNames (getD j "fields"),
          parseScaleArg (getD j "scale") with
    | some h, some mv, some mode, some fields, some sc =>
      match histToGraph h mv (modeOf mode) fields sc with
      | .ok (h1, g) => Json.mkObj [("g", gstateJson g), ("rows", rowsJson g.rows), ("hscale", optNumJson h1.scale)]
      | .error er => excObj er
    | _, _, _, _, _ => err "bad hist_to_graph args"
  | some "graph" =>
    match parseGraph (getD j "g"), optRat (getD j "other") with
    | some (.error er), some _ => excObj er
    | some (.ok g), some other =>
      let scaled := match other with
        | none => Json.null
        | some o => match graphSetScale g o with
          | .ok g' => gstateJson g'
          | .error er => excObj er
      Json.mkObj [("g", gstateJson g), ("rows", rowsJson g.rows), ("scaled", scaled)]
    | _, _ => err "bad graph args"
  | some "graph_add" =>
    match parseGraph (getD j "a"), parseGraph (getD j "b") with
    | some (.ok a), some (.ok b) =>
      match graphAdd a b with
      | .ok g => Json.mkObj [("g", gstateJson g), ("rows", rowsJson g.rows)]
      | .error er => excObj er
    | some (.error er), _ => excObj er
    | _, some (.error er) => excObj er
    | _, _ => err "bad graph_add args"
  | some "csv" =>
    match parseHist (getD j "h"), bool? (getD j "to_csv"),
          (if (getD j "ctx_dup").isNull then some none else (bool? (getD j "ctx_dup")).map some), bool? (getD j "dup") with
    | some h, some tc, some cd, some d =>
      match toCsvHist h tc cd d with
      | .ok .unchanged => Json.mkObj [("unchanged", Json.bool true)]
      | .ok (.table rows) =>
        let (dim, nbins, nout, ranges) := histContext h
        Json.mkObj [("rows", rowsJson rows),
                    ("ctx", Json.arr #[ofNat dim, ofList ofNat nbins, ratJson nout,
                                       ofList (fun (p : Option Rat × Option Rat) => Json.arr #[optNumJson p.1, optNumJson p.2]) ranges])]
      | .error er => excObj er
    | _, _, _, _ => err "bad csv args"
  | some "csv_graph" =>
    match parseGraph (getD j "g"), bool? (getD j "to_csv") with
    | some (.ok g), some tc =>
      match toCsvGraph g tc with
      | .unchanged => Json.mkObj [("unchanged", Json.bool true)]
      | .table rows => Json.mkObj [("rows", rowsJson rows)]
    | some (.error er), _ => excObj er
    | _, _ => err "bad csv_graph args"
  | some "scale_to" =>
    let tj := getD j "target"
    let target : Option ScaleTarget := match str? tj with
      | some "hist" => some .selectHist
      | some "graph" => some .selectGraph
      | _ => (rat? tj).map ScaleTarget.num
    match target, (arr? (getD j "group")).bind (fun a => a.toList.mapM parseStruct), bool? (getD j "az"), bool? (getD j "au") with
    | some t, some group, some az, some au =>
      let (g, e) := scaleTo t group az au
      Json.mkObj [("group", ofList structJson g), ("e", ofOpt exc e)]
    | _, _, _, _ => err "bad scale_to args"
  | some "scale_to_call" =>
    match parseStruct (getD j "item"), rat? (getD j "s") with
    | some d, some s =>
      match scaleToCall d s with
      | .ok r => Json.mkObj [("r", structJson r)]
      | .error (some er) => excObj er
      | .error none => Json.mkObj [("e", Json.str "Other:AttributeError")]
    | _, _ => err "bad scale_to_call args"
  | _ => err "unknown op"

def main : IO Unit := run handle
