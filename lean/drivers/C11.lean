import LenaModel.DriverUtil
import LenaModel.Model.C11Conc
/-! Model driver for C11.

Values `V` (as in drivers/C14.lean): a number is an integer, a string a string, `{"l":[..]}` a list,
`{"t":[..]}` a tuple, an array a dictionary = its slots over the request's key alphabet `names`
(`null` = key absent).  Flow values: `{"d":V}` (bare) or `{"d":V,"c":D}`.
Steps: {"k":"scale","x":i} {"k":"proj","i":n} {"k":"setkey","key":n,"v":V} {"k":"var","proj":n|null,"vc":D}
       {"k":"dup"} {"k":"dropodd"} {"k":"failon","x":i} {"k":"count","key":n} {"k":"acc","kind":<acc>}
       (count/acc: stateful, only after the accumulator; acc only in the MapBins sequence)
Request:
  {"op":"case","names":[..],"edges":[i..] | [[i..]..],"seq_ok":b,"argvar_ok":b,
   "getter":{"k":"id"}|{"k":"proj","i":n}|{"k":"comb","is":[n..]},"vc":D,
   "spec":{"pre":[Step..],"acc":"sum|count|store|sumcount|each|failempty|sumfail","post":[Step..]},
   "flow":[value..],
   "iter":{"sel":"all|int|none","bare":b,"pre":[value..],"post":[value..]},
   "map":{"steps":[Step..],"sel":..,"drop":b,"bare":b,"pre":[value..],"post":[value..]}}
Reply:
  {"init":exc} | {"fill":{"at":k,"e":exc}}
  | {"cells":[[index, {"sum":i,"count":n,"stored":[value..],"last":D}]..],"cur":D,
     "compute":{"out":[{"edges":E,"bins":B,"c":D}..],"fin":exc|null},
     "iter":{"out":[fval..],"fin":..},"map":{"out":[fval..],"fin":..}}
  fval = {"v":value} | {"h":{"edges":E,"bins":B},"c":D|null};  B = nested arrays of values. -/
open Lean Lena Lena.Drv Lena.C11 Lena.C11.Conc
open Lena.C14 (V Slots Value)
open Lena.C06 (Edges)

partial def toV (j : Json) : Option V :=
  match j with
  | .arr a => (a.toList.mapM toSlot).map V.dict
  | .str s => some (.str s)
  | .obj _ =>
    match (j.getObjVal? "l").toOption, (j.getObjVal? "t").toOption with
    | some (.arr a), _ => (a.toList.mapM toV).map (V.seq false)
    | _, some (.arr a) => (a.toList.mapM toV).map (V.seq true)
    | _, _ => none
  | _ => (int? j).map V.int
where toSlot (j : Json) : Option (Option V) :=
  if j.isNull then some none else (toV j).map some

def toD (j : Json) : Option Slots :=
  match toV j with
  | some (.dict l) => some l
  | _ => none

partial def ofV : V → Json
  | .int i => ofInt i
  | .str s => Json.str s
  | .seq false l => Json.mkObj [("l", Json.arr (l.map ofV).toArray)]
  | .seq true l => Json.mkObj [("t", Json.arr (l.map ofV).toArray)]
  | .dict l => Json.arr (l.map (fun | none => Json.null | some v => ofV v)).toArray

def ofD (l : Slots) : Json := ofV (.dict l)

def toValue (j : Json) : Option Val := do
  let d ← toV (getD j "d")
  let c := getD j "c"
  if c.isNull then pure (.bare d) else (toD c).map (Value.pair d)

def ofValue : Val → Json
  | .bare d => Json.mkObj [("d", ofV d)]
  | .pair d c => Json.mkObj [("d", ofV d), ("c", ofD c)]

def toValues (j : Json) : Option (List Val) := do
  let a ← arr? j
  a.toList.mapM toValue

def toAcc (j : Json) : Option AccKind :=
  match str? j with
  | some "sum" => some .sum
  | some "count" => some .count
  | some "store" => some .store
  | some "sumcount" => some .sumCount
  | some "each" => some .each
  | some "failempty" => some .failEmpty
  | some "sumfail" => some .sumFail
  | _ => none

def accNum : AccKind → Nat
  | .sum => 0 | .count => 1 | .store => 2 | .sumCount => 3 | .each => 4 | .failEmpty => 5 | .sumFail => 6

def toStep (j : Json) : Option Step :=
  match str? (getD j "k") with
  | some "scale" => (int? (getD j "x")).map Step.scale
  | some "proj" => (nat? (getD j "i")).map Step.proj
  | some "setkey" => do
    let k ← nat? (getD j "key")
    let v ← toV (getD j "v")
    pure (.setKey k v)
  | some "var" => do
    let vc ← toD (getD j "vc")
    let p := getD j "proj"
    if p.isNull then pure (.var none vc) else (nat? p).map (fun i => Step.var (some i) vc)
  | some "dup" => some .dup
  | some "dropodd" => some .dropOdd
  | some "failon" => (int? (getD j "x")).map Step.failOn
  | some "count" => (nat? (getD j "key")).map Step.count
  | some "acc" => (toAcc (getD j "kind")).map (fun a => Step.acc (accNum a))
  | _ => none

def toSteps (j : Json) : Option (List Step) := do
  let a ← arr? j
  a.toList.mapM toStep

def isStateful : Step → Bool
  | .count _ => true
  | .acc _ => true
  | _ => false

def isAcc : Step → Bool
  | .acc _ => true
  | _ => false

/-- the stateful elements are modelled on whole flows only: not among the pre-elements; an accumulator
(whose `run` raises at once) not among the post-elements of the split analysis -/
def toSpec (j : Json) : Option Spec := do
  let pre ← toSteps (getD j "pre")
  let acc ← toAcc (getD j "acc")
  let post ← toSteps (getD j "post")
  if pre.any isStateful || post.any isAcc then none else pure ⟨pre, acc, post⟩

def toGetter (j : Json) : Option Getter :=
  match str? (getD j "k") with
  | some "id" => some .ident
  | some "proj" => (nat? (getD j "i")).map Getter.proj
  | some "comb" => do
    let a ← arr? (getD j "is")
    let is ← a.toList.mapM nat?
    pure (.comb is)
  | _ => none

def toSel (j : Json) : Option Sel :=
  match str? j with
  | some "all" => some .all
  | some "int" => some .isInt
  | some "none" => some .none
  | _ => none

def toEdges (j : Json) : Option (Edges Int) := do
  let a ← arr? j
  match a.toList with
  | (.arr _) :: _ => (a.toList.mapM intList?).map Edges.nested
  | _ => (intList? j).map Edges.flat

def ofEdges : Edges Int → Json
  | .flat arr => ofIntList arr
  | .nested axes => ofList ofIntList axes

partial def ofBins {β : Type} (f : β → Json) : NArr β → Json
  | .leaf v => f v
  | .node xs => Json.arr (xs.map (ofBins f)).toArray

def ofExc : Option (Exc IErr) → Json
  | none => Json.null
  | some e => Json.str (excName e)

def ofHist (h : Hist Int Val) : List (String × Json) :=
  [("edges", ofEdges h.edges), ("bins", ofBins ofValue h.bins)]

def ofFVal : FVal Int V → Json
  | .plain v => Json.mkObj [("v", ofValue v)]
  | .hist h c => Json.mkObj [("h", Json.mkObj (ofHist h)), ("c", ofOpt ofD c)]

def ofTrace {ρ : Type} (f : ρ → Json) (t : Trace ρ (Exc IErr)) : Json :=
  Json.mkObj [("out", ofList f t.out), ("fin", ofExc t.fin)]

def ofAcc (s : AccState) : Json :=
  Json.mkObj [("sum", ofInt s.sum), ("count", ofNat s.count), ("stored", ofList ofValue s.stored),
    ("last", ofD s.lastCtx)]

/-- the flow that the second stage sees: extra values, the histograms of the first stage (with or
without their context), extra values -/
def stageFlow (j : Json) (hists : List (Hist Int Val × Slots)) : Option (List (FVal Int V)) := do
  let pre ← toValues (getD j "pre")
  let post ← toValues (getD j "post")
  let bare := (bool? (getD j "bare")).getD false
  pure (pre.map FVal.plain ++ hists.map (fun p => FVal.hist p.1 (if bare then none else some p.2))
    ++ post.map FVal.plain)

def handleCase (j : Json) : Option Json := do
  let namesA ← arr? (getD j "names")
  let names ← namesA.toList.mapM str?
  let edges ← toEdges (getD j "edges")
  let seqOk ← bool? (getD j "seq_ok")
  let argOk ← bool? (getD j "argvar_ok")
  let getter ← toGetter (getD j "getter")
  let vc ← toD (getD j "vc")
  let spec ← toSpec (getD j "spec")
  let flow ← toValues (getD j "flow")
  let an := spec.analysis names
  let av := argVar getter vc
  let seq : Option AccState := if seqOk then some (accInit names) else none
  match (SIB.new names seq argOk edges : Except (Exc IErr) (SIB Int AccState)) with
  | .error e => pure (Json.mkObj [("init", Json.str (excName e))])
  | .ok s0 =>
    match SIB.fillAll names an av guessLo s0 flow with
    | .error (k, e) => pure (Json.mkObj [("fill", Json.mkObj [("at", ofNat k), ("e", Json.str (excName e))])])
    | .ok s =>
      let comp := SIB.compute names an av s
      let cells := ofList (fun (p : List Nat × AccState) => Json.arr #[ofList ofNat p.1, ofAcc p.2]) (NArr.cells s.bins)
      let compJ := ofTrace (fun (p : Hist Int Val × Slots) => Json.mkObj (ofHist p.1 ++ [("c", ofD p.2)])) comp
      let ij := getD j "iter"
      let iterJ ← if ij.isNull then pure Json.null else do
        let sel ← toSel (getD ij "sel")
        let fl ← stageFlow ij comp.out
        pure (ofTrace ofFVal (iterateBinsRun names sel.onData (cellToString names fmtInt) (encEdges V.int) fl))
      let mj := getD j "map"
      let mapJ ← if mj.isNull then pure Json.null else do
        let sel ← toSel (getD mj "sel")
        let steps ← toSteps (getD mj "steps")
        let drop ← bool? (getD mj "drop")
        let fl ← stageFlow mj comp.out
        pure (ofTrace ofFVal (mapBinsRun names (seqStart names steps) (sel.onValue names) drop fl))
      pure (Json.mkObj [("cells", cells), ("cur", ofD s.curContext), ("compute", compJ),
        ("iter", iterJ), ("map", mapJ)])

def handle (j : Json) : Json :=
  match str? (getD j "op") with
  | some "case" => (handleCase j).getD (err "bad case")
  | _ => err "unknown op"

def main : IO Unit := run handle
