import LenaModel.DriverUtil
import LenaModel.Model.C11Conc
/-! Model driver for C11.

Values `V` (as in drivers/C14.lean): a number is an integer, a string a string, `{"l":[..]}` a list,
`{"t":[..]}` a tuple, an array a dictionary = its slots over the request's key alphabet `names`
(`null` = key absent).  Flow values: `{"d":V}` (bare) or `{"d":V,"c":D}`.
Steps: {"k":"scale","x":i} {"k":"proj","i":n} {"k":"setkey","key":n,"v":V} {"k":"var","proj":n|null,"vc":D}
       {"k":"dup"} {"k":"dropodd"} {"k":"failon","x":i} {"k":"count","key":n} {"k":"acc","kind":<acc>}
       (count/acc: stateful, only after the accumulator; acc only in the MapBins sequence)
Request:
  {"op":"case","names":[..],"edges":[i..] | [[i..]..],"seq_ok":b,"argvar_ok":b,
   "getter":{"k":"id"}|{"k":"proj","i":n}|{"k":"comb","is":[n..]},"vc":D,
   "spec":{"pre":[Step..],"acc":"sum|count|store|sumcount|each|failempty|sumfail","post":[Step..]},
   "flow":[value..],
   "iter":{"sel":"all|int|none","bare":b,"pre":[value..],"post":[value..]},
   "map":{"steps":[Step..],"sel":..,"drop":b,"bare":b,"pre":[value..],"post":[value..]}}
   optional: "inner":{"edges","getter","vc","spec","sel"} (two-level split: the analysis of a cell is
   `FillComputeSeq(SplitIntoBins(spec, getter/vc, edges), IterateBins(sel))`), "twice":b (compute() twice),
   iter: "ces":{"k":"default"|"bad"|"opts","names":[s..]|null,"pre","mid1","mid2","post","join","reverse"},
   "sel" also "default"|"bad"; map: "seq_ok":b; values of pre/post may be histograms {"h":{"edges","bins"},"c":D|null}
   "sel" may also be a Selector form: {"k":"type","t":"int|str|tuple|list|hist"} | {"k":"ctx","s":"a.b.c"}
     | {"k":"any"|"all","of":[name | type | ctx ..]};  map: "geb":"default|first|last" (get_example_bin)
Reply:
  {"init":exc} | {"fill":{"at":k,"e":exc}}
  | {"cells":[[index, {"sum":i,"count":n,"stored":[value..],"last":D}]..],"cur":D,
     "compute":{"out":[{"edges":E,"bins":B,"c":D}..],"fin":exc|null},
     "iter":{"out":[fval..],"fin":..},"map":{"out":[fval..],"fin":..}}
  fval = {"v":value} | {"h":{"edges":E,"bins":B},"c":D|null};  B = nested arrays of values. -/
open Lean Lena Lena.Drv Lena.C11 Lena.C11.Conc
open Lena.C14 (V Slots Value)
open Lena.C06 (Edges)

partial def toV (j : Json) : Option V :=
  match j with
  | .arr a => (a.toList.mapM toSlot).map V.dict
  | .str s => some (.str s)
  | .obj _ =>
    match (j.getObjVal? "l").toOption, (j.getObjVal? "t").toOption with
    | some (.arr a), _ => (a.toList.mapM toV).map (V.seq false)
    | _, some (.arr a) => (a.toList.mapM toV).map (V.seq true)
    | _, _ => none
  | _ => (int? j).map V.int
where toSlot (j : Json) : Option (Option V) :=
  if j.isNull then some none else (toV j).map some

def toD (j : Json) : Option Slots :=
  match toV j with
  | some (.dict l) => some l
  | _ => none

partial def ofV : V → Json
  | .int i => ofInt i
  | .str s => Json.str s
  | .seq false l => Json.mkObj [("l", Json.arr (l.map ofV).toArray)]
  | .seq true l => Json.mkObj [("t", Json.arr (l.map ofV).toArray)]
  | .dict l => Json.arr (l.map (fun | none => Json.null | some v => ofV v)).toArray

def ofD (l : Slots) : Json := ofV (.dict l)

def toValue (j : Json) : Option Val := do
  let d ← toV (getD j "d")
  let c := getD j "c"
  if c.isNull then pure (.bare d) else (toD c).map (Value.pair d)

def ofValue : Val → Json
  | .bare d => Json.mkObj [("d", ofV d)]
  | .pair d c => Json.mkObj [("d", ofV d), ("c", ofD c)]

def toValues (j : Json) : Option (List Val) := do
  let a ← arr? j
  a.toList.mapM toValue

def toAcc (j : Json) : Option AccKind :=
  match str? j with
  | some "sum" => some .sum
  | some "count" => some .count
  | some "store" => some .store
  | some "sumcount" => some .sumCount
  | some "each" => some .each
  | some "failempty" => some .failEmpty
  | some "sumfail" => some .sumFail
  | _ => none

def accNum : AccKind → Nat
  | .sum => 0 | .count => 1 | .store => 2 | .sumCount => 3 | .each => 4 | .failEmpty => 5 | .sumFail => 6

def toStep (j : Json) : Option Step :=
  match str? (getD j "k") with
  | some "scale" => (int? (getD j "x")).map Step.scale
  | some "proj" => (nat? (getD j "i")).map Step.proj
  | some "setkey" => do
    let k ← nat? (getD j "key")
    let v ← toV (getD j "v")
    pure (.setKey k v)
  | some "var" => do
    let vc ← toD (getD j "vc")
    let p := getD j "proj"
    if p.isNull then pure (.var none vc) else (nat? p).map (fun i => Step.var (some i) vc)
  | some "dup" => some .dup
  | some "dropodd" => some .dropOdd
  | some "failon" => (int? (getD j "x")).map Step.failOn
  | some "count" => (nat? (getD j "key")).map Step.count
  | some "acc" => (toAcc (getD j "kind")).map (fun a => Step.acc (accNum a))
  | _ => none

def toSteps (j : Json) : Option (List Step) := do
  let a ← arr? j
  a.toList.mapM toStep

def isStateful : Step → Bool
  | .count _ => true
  | .acc _ => true
  | _ => false

def isAcc : Step → Bool
  | .acc _ => true
  | _ => false

/-- the stateful elements are modelled on whole flows only: not among the pre-elements -/
def toSpec (j : Json) : Option Spec := do
  let pre ← toSteps (getD j "pre")
  let acc ← toAcc (getD j "acc")
  let post ← toSteps (getD j "post")
  if pre.any isStateful then none else pure ⟨pre, acc, post⟩

def toGetter (j : Json) : Option Getter :=
  match str? (getD j "k") with
  | some "id" => some .ident
  | some "proj" => (nat? (getD j "i")).map Getter.proj
  | some "comb" => do
    let a ← arr? (getD j "is")
    let is ← a.toList.mapM nat?
    pure (.comb is)
  | _ => none

def toSel (j : Json) : Option Sel :=
  match str? j with
  | some "all" => some .all
  | some "int" => some .isInt
  | some "none" => some .none
  | _ => none

def toEdges (j : Json) : Option (Edges Int) := do
  let a ← arr? j
  match a.toList with
  | (.arr _) :: _ => (a.toList.mapM intList?).map Edges.nested
  | _ => (intList? j).map Edges.flat

def ofEdges : Edges Int → Json
  | .flat arr => ofIntList arr
  | .nested axes => ofList ofIntList axes

partial def ofBins {β : Type} (f : β → Json) : NArr β → Json
  | .leaf v => f v
  | .node xs => Json.arr (xs.map (ofBins f)).toArray

def ofExcW {E : Type} (f : E → String) : Option (Exc E) → Json
  | none => Json.null
  | some e => Json.str (excNameWith f e)

def ofHist {β : Type} (f : β → Json) (h : Hist Int β) : List (String × Json) :=
  [("edges", ofEdges h.edges), ("bins", ofBins f h.bins)]

def ofFVal : FVal Int V → Json
  | .plain v => Json.mkObj [("v", ofValue v)]
  | .hist h c => Json.mkObj [("h", Json.mkObj (ofHist ofValue h)), ("c", ofOpt ofD c)]

def ofTraceW {ρ E : Type} (fe : E → String) (f : ρ → Json) (t : Trace ρ (Exc E)) : Json :=
  Json.mkObj [("out", ofList f t.out), ("fin", ofExcW fe t.fin)]

def ofAcc (s : AccState) : Json :=
  Json.mkObj [("sum", ofInt s.sum), ("count", ofNat s.count), ("stored", ofList ofValue s.stored),
    ("last", ofD s.lastCtx)]

def ofCells {σ : Type} (f : σ → Json) (bins : NArr σ) : Json :=
  ofList (fun (p : List Nat × σ) => Json.arr #[ofList ofNat p.1, f p.2]) (NArr.cells bins)

def ofInnerSIB (s : SIB Int AccState) : Json :=
  Json.mkObj [("cells", ofCells ofAcc s.bins), ("cur", ofD s.curContext)]

partial def toBins (j : Json) : Option (NArr Val) :=
  match j with
  | .arr a => (a.toList.mapM toBins).map NArr.node
  | _ => (toValue j).map NArr.leaf

/-- a value of a stage's flow: a plain value or a histogram `{"h":{"edges":E,"bins":B},"c":D|null}` -/
def toFVal (j : Json) : Option (FVal Int V) :=
  let hj := getD j "h"
  if hj.isNull then (toValue j).map FVal.plain
  else do
    let e ← toEdges (getD hj "edges")
    let b ← toBins (getD hj "bins")
    let c := getD j "c"
    if c.isNull then pure (.hist ⟨e, b⟩ none) else (toD c).map (fun d => FVal.hist ⟨e, b⟩ (some d))

def toFVals (j : Json) : Option (List (FVal Int V)) := do
  let a ← arr? j
  a.toList.mapM toFVal

/-- the flow that the second stage sees: extra values, the histograms of the first stage (with or
without their context), extra values -/
def stageFlow (j : Json) (hists : List (Hist Int Val × Slots)) : Option (List (FVal Int V)) := do
  let pre ← toFVals (getD j "pre")
  let post ← toFVals (getD j "post")
  let bare := (bool? (getD j "bare")).getD false
  pure (pre ++ hists.map (fun p => FVal.hist p.1 (if bare then none else some p.2)) ++ post)

/-- `create_edges_str`: the default `cell_to_string`, or `functools.partial(cell_to_string, **opts)` -/
def toCes (names : List String) (j : Json) : Option (List (Int × Int) → Option V → Except (Exc IErr) V) :=
  match str? (getD j "k") with
  | some "default" => some (cellToString names fmtInt)
  | some "const" => (str? (getD j "s")).map (fun c => fun _ _ => .ok (.str c))
  | some "opts" => do
    let cn := getD j "names"
    let cn ← if cn.isNull then pure none else do
      let a ← arr? cn
      let l ← a.toList.mapM str?
      pure (some l)
    let o : CtsOpts := {
      coordNames := cn
      fmtPre := (str? (getD j "pre")).getD ""
      fmtMid1 := (str? (getD j "mid1")).getD "_lte_"
      fmtMid2 := (str? (getD j "mid2")).getD "_lt_"
      fmtPost := (str? (getD j "post")).getD ""
      join := (str? (getD j "join")).getD "_"
      reverse := (bool? (getD j "reverse")).getD false }
    pure (cellToStringOpts names fmtInt o)
  | _ => none

/-- everything the generic part of the driver needs to know about the analysis that is split -/
def ofValueH : Value DataH → Json
  | .bare (.v d) => Json.mkObj [("d", ofV d)]
  | .pair (.v d) c => Json.mkObj [("d", ofV d), ("c", ofD c)]
  | .bare (.h h) => Json.mkObj [("h", Json.mkObj (ofHist ofValue h)), ("c", Json.null)]
  | .pair (.h h) c => Json.mkObj [("h", Json.mkObj (ofHist ofValue h)), ("c", ofD c)]

/-- a value yielded by a stage over cells that may hold histograms -/
def ofFValH : FVal Int DataH → Json
  | .plain (.bare (.h h)) => Json.mkObj [("h", Json.mkObj (ofHist ofValue h)), ("c", Json.null)]
  | .plain (.pair (.h h) c) => Json.mkObj [("h", Json.mkObj (ofHist ofValue h)), ("c", ofD c)]
  | .plain v => Json.mkObj [("v", ofValueH v)]
  | .hist h c => Json.mkObj [("h", Json.mkObj (ofHist ofValueH h)), ("c", ofOpt ofD c)]

def fvalInH : FVal Int V → FVal Int DataH
  | .plain v => .plain (valToH v)
  | .hist h c => .hist ⟨h.edges, NArr.map valToH h.bins⟩ c

/-- a selector on the data part, whatever it was made from -/
structure SelFn where
  onData : DataH → Bool

def toSelH (s : String) : Option SelH :=
  match s with
  | "all" => some .all
  | "int" => some .isInt
  | "none" => some .none
  | "default" => some .dflt
  | _ => none

def toTypeTag (j : Json) : Option TypeTag :=
  match str? j with
  | some "int" => some .int
  | some "str" => some .str
  | some "tuple" => some .tuple
  | some "list" => some .list
  | some "hist" => some .hist
  | _ => none

/-- `"a.b.c".split(".")`; the empty string is the context itself -/
def levelsOf (s : String) : List String := if s == "" then [] else s.splitOn "."

/-- an item of a selector: a name of a harness function, {"k":"type","t":..} (a class), {"k":"ctx","s":..} (a string) -/
def toAtomH (names : List String) (j : Json) : Option (SelAtom DataH) :=
  match j with
  | .str s => (toSelH s).map (SelH.atom names)
  | _ =>
    match str? (getD j "k") with
    | some "type" => (toTypeTag (getD j "t")).map (fun t => SelAtom.cls t.onH)
    | some "ctx" => (str? (getD j "s")).map (fun s => SelAtom.ctx (levelsOf s))
    | _ => none

def toAtomV (names : List String) (j : Json) : Option (SelAtom V) :=
  match j with
  | .str _ => (toSel j).map (Sel.atom names)
  | _ =>
    match str? (getD j "k") with
    | some "type" => (toTypeTag (getD j "t")).map (fun t => SelAtom.cls t.onV)
    | some "ctx" => (str? (getD j "s")).map (fun s => SelAtom.ctx (levelsOf s))
    | _ => none

/-- the `select_bins` argument in the forms a `Selector` is made from: an item, {"k":"any","of":[..]} (a list),
{"k":"all","of":[..]} (a tuple) -/
def toForm {D : Type} (toAtom : Json → Option (SelAtom D)) (j : Json) : Option (SelForm D) :=
  match str? (getD j "k") with
  | some "any" => do
    let a ← arr? (getD j "of")
    (a.toList.mapM toAtom).map SelForm.any
  | some "all" => do
    let a ← arr? (getD j "of")
    (a.toList.mapM toAtom).map SelForm.all
  | _ => (toAtom j).map SelForm.atom

structure Kit (σ ρ E : Type) where
  an : AnalysisE σ V ρ E
  init : Option σ
  ofCell : σ → Json
  ofRes : ρ → Json
  errName : E → String
  toVal : ρ → Option Val
  toValH : ρ → Value DataH

def binsToVals {ρ : Type} (f : ρ → Option Val) (b : NArr ρ) : Option (NArr Val) :=
  match mdMapE (fun r => match f r with | some v => Except.ok v | none => Except.error ()) () () b with
  | .ok r => some r
  | .error _ => none

def ofRoute {E : Type} (fe : E → String) : Except (Exc E) (Option (List Nat)) → Json
  | .error e => Json.mkObj [("e", Json.str (excNameWith fe e))]
  | .ok none => Json.mkObj [("p", Json.null)]
  | .ok (some p) => Json.mkObj [("p", ofList ofNat p)]

def allPairs (l : List (List Nat)) : Bool :=
  match l with
  | a :: b :: r => lexLtB a b && allPairs (b :: r)
  | _ => true

def coordsOf : Lena.C06.Coord Int → List Int
  | .scalar x => [x]
  | .tuple xs => xs

/-- the specification vocabulary of `Props/C11.lean` evaluated on the case -/
def specJson {σ ρ E : Type} (names : List String) (k : Kit σ ρ E) (av : ArgVar Int V E) (edges : Edges Int)
    (s0 s : SIB Int σ) (flow : List Val) : Json :=
  let dims := edges.axes.map (fun a => a.length - 1)
  let paths := binIndices edges
  let rt := fun v => route names av guessLo edges dims v
  Json.mkObj [
    ("route", ofList (fun v => ofRoute k.errName (rt v)) flow),
    ("sub", ofList (fun p => ofList ofValue (subflow names av guessLo edges dims p flow)) paths),
    ("inside", ofList ofValue (insideFlow names av guessLo edges dims flow)),
    ("ctxafter", ofD (ctxAfter names av guessLo edges dims s0.curContext flow)),
    ("paths", ofList (ofList ofNat) paths),
    ("lex", Json.bool (allPairs paths)),
    ("pathin", Json.bool (paths.all (fun p => pathInB p dims) && !(pathInB dims dims) &&
       paths.all (fun p => (pathOf dims (p.map Int.ofNat)) == some p))),
    ("incell", ofList (fun v =>
        match av.getter (Lena.C14.getDataContext names v).1 with
        | .error _ => Json.null
        | .ok x => ofList (ofList ofNat) (paths.filter (fun p => inCellB edges.axes (coordsOf x) p))) flow),
    ("celledges", ofList (fun p =>
        match (cellEdges edges.axes p : Except (Exc E) (List (Int × Int))) with
        | .error _ => Json.null
        | .ok ce => Json.mkObj [("ok", Json.bool (isCellEdgesB edges.axes p ce)),
            ("ce", ofList (fun (e : Int × Int) => Json.arr #[ofInt e.1, ofInt e.2]) ce)]) paths),
    ("cellat", Json.bool (paths.all (fun p =>
        match cellAt s.bins p, (NArr.cells s.bins).find? (fun q => q.1 == p) with
        | some c, some q => (k.ofCell c).compress == (k.ofCell q.2).compress
        | _, _ => false)))]

def runKit {σ ρ E : Type} (names : List String) (j : Json) (k : Kit σ ρ E) (av : ArgVar Int V E)
    (argOk : Bool) (edges : Edges Int) (flow : List Val) : Option Json := do
  match (SIB.new names k.init argOk edges : Except (Exc E) (SIB Int σ)) with
  | .error e => pure (Json.mkObj [("init", Json.str (excNameWith k.errName e))])
  | .ok s0 =>
    match SIB.fillAll names k.an.toLazy av guessLo s0 flow with
    | .error (i, e) =>
      pure (Json.mkObj [("fill", Json.mkObj [("at", ofNat i), ("e", Json.str (excNameWith k.errName e))])])
    | .ok s =>
      let comp := SIB.computeE names k.an av s
      let ofH := fun (p : Hist Int ρ × Slots) => Json.mkObj (ofHist k.ofRes p.1 ++ [("c", ofD p.2)])
      let compJ := ofTraceW k.errName ofH comp
      let comp2J := if (bool? (getD j "twice")).getD false then
          ofTraceW k.errName ofH (SIB.computeE names k.an av (SIB.afterCompute names av s)) else Json.null
      -- the histograms for the second stage: cells must be plain values
      let hists : List (Hist Int Val × Slots) := comp.out.filterMap (fun p =>
        (binsToVals k.toVal p.1.bins).map (fun b => (⟨p.1.edges, b⟩, p.2)))
      let histsH : List (Hist Int (Value DataH) × Slots) :=
        comp.out.map (fun p => (⟨p.1.edges, NArr.map k.toValH p.1.bins⟩, p.2))
      let ij := getD j "iter"
      let iterJ ← if ij.isNull then pure Json.null else do
        let cesJ := getD ij "ces"
        let cesBad := str? (getD cesJ "k") == some "bad"
        let selJ := getD ij "sel"
        let selS := (str? selJ).getD "form"
        match (iterateBinsInit (!cesBad) (selS != "bad") : Except (Exc IErr) Unit) with
        | .error e => pure (Json.mkObj [("init", Json.str (excName e))])
        | .ok () =>
          -- a name: the harness's function on the data (as before); otherwise a `Selector` form, applied to
          -- the data part of the example bin
          let sel : SelH ← if selS == "form" then pure SelH.all else toSelH selS
          let selData : DataH → Bool ← if selS == "form" then
              (toForm (toAtomH names) selJ).map (fun f => f.evalData names) else pure sel.onData
          let sel : SelFn := ⟨selData⟩
          let ces ← toCes names cesJ
          let pre ← toFVals (getD ij "pre")
          let post ← toFVals (getD ij "post")
          let bare := (bool? (getD ij "bare")).getD false
          let fl := pre.map fvalInH ++ histsH.map (fun p => FVal.hist p.1 (if bare then none else some p.2))
            ++ post.map fvalInH
          let t := iterateBinsRun names sel.onData ces (encEdges V.int) fl
          -- `iterate_bins_once`: the same through `cellOutput` for the first histogram
          let once := match histsH with
            | [] => true
            | (h, c) :: _ =>
              let hctx := if bare then none else some c
              let a := iterateBinsOne names sel.onData ces (encEdges V.int) (FVal.hist h hctx)
              let b := traceMapM (cellOutput names ces (encEdges V.int) (hctx.getD (Lena.C14.emptyD names.length)) h.edges.axes)
                (NArr.cells h.bins)
              !(sel.onData (Lena.C14.getDataContext names ((NArr.values h.bins).headD (.bare (.v (.int 0))))).1) ||
                (ofTraceW id ofFValH a).compress == (ofTraceW id ofFValH b).compress
          pure (Json.mkObj [("out", ofList ofFValH t.out), ("fin", ofExcW id t.fin), ("once", Json.bool once)])
      -- a downstream element applied to every value `compute()` yields (only the contexts are reported)
      let pj := getD j "pipe"
      let pipeJ ← if pj.isNull then pure Json.null else do
        let st ← toStep pj
        let t : Trace Slots IErr := traceMapM (fun (p : Hist Int ρ × Slots) =>
          match (st.run names (.pair (.int 0) p.2)) with
          | ⟨[v], none⟩ => Except.ok (Lena.C14.getDataContext names v).2
          | ⟨_, some e⟩ => Except.error e
          | _ => Except.error "unmodelled") comp.out
        pure (Json.mkObj [("out", ofList ofD t.out), ("fin", ofOpt Json.str t.fin)])
      let mj := getD j "map"
      let mapJ ← if mj.isNull then pure Json.null else do
        let selJ := getD mj "sel"
        let selS := (str? selJ).getD "form"
        let seqOk := (bool? (getD mj "seq_ok")).getD true
        match (mapBinsInit seqOk (selS != "bad") : Except (Exc IErr) Unit) with
        | .error e => pure (Json.mkObj [("init", Json.str (excName e))])
        | .ok () =>
          let selV : Val → Bool ← if selS == "form" then
              (toForm (toAtomV names) selJ).map (fun f => f.eval names)
            else (toSel selJ).map (fun s => s.onValue names)
          let steps ← toSteps (getD mj "steps")
          let drop ← bool? (getD mj "drop")
          let fl ← stageFlow mj hists
          -- `get_example_bin`: the default, or a caller's function that takes the first / the last cell
          match (str? (getD mj "geb")).getD "default" with
          | "first" =>
            pure (ofTraceW id ofFVal (mapBinsRunG names (fun h => exampleOfArray h.bins) exampleOfArray
              (seqStart names steps) selV drop fl))
          | "last" =>
            pure (ofTraceW id ofFVal (mapBinsRunG names (fun h => lastOfArray h.bins) lastOfArray
              (seqStart names steps) selV drop fl))
          | _ =>
            let t := mapBinsRun names (seqStart names steps) selV drop fl
            -- `mapBinsOneG_default`: the general definition with the default `get_example_bin`
            let tG := mapBinsRunG names exampleBin exampleOfArray (seqStart names steps) selV drop fl
            if (ofTraceW id ofFVal t).compress == (ofTraceW id ofFVal tG).compress then pure (ofTraceW id ofFVal t)
            else pure (Json.mkObj [("out", Json.arr #[]), ("fin", Json.str "mapBinsRunG differs from mapBinsRun")])
      pure (Json.mkObj [("cells", ofCells k.ofCell s.bins), ("cur", ofD s.curContext), ("compute", compJ),
        ("compute2", comp2J), ("iter", iterJ), ("map", mapJ), ("pipe", pipeJ),
        ("spec", specJson names k av edges s0 s flow)])

def toInner (j : Json) : Option Inner := do
  let edges ← toEdges (getD j "edges")
  let getter ← toGetter (getD j "getter")
  let vc ← toD (getD j "vc")
  let spec ← toSpec (getD j "spec")
  let sel ← toSel (getD j "sel")
  pure ⟨edges, getter, vc, spec, sel⟩

def handleCase (j : Json) : Option Json := do
  let namesA ← arr? (getD j "names")
  let names ← namesA.toList.mapM str?
  let edges ← toEdges (getD j "edges")
  let seqOk ← bool? (getD j "seq_ok")
  let argOk ← bool? (getD j "argvar_ok")
  let getter ← toGetter (getD j "getter")
  let vc ← toD (getD j "vc")
  let flow ← toValues (getD j "flow")
  let innJ := getD j "inner"
  if innJ.isNull then do
    let spec ← toSpec (getD j "spec")
    let k : Kit AccState Val IErr := {
      an := spec.analysisE names
      init := if seqOk then some (accInit names) else none
      ofCell := ofAcc, ofRes := ofValue, errName := id, toVal := some, toValH := valToH }
    runKit names j k (argVar getter vc) argOk edges flow
  else do
    let inn ← toInner innJ
    match inn.init names with
    | .error e => pure (Json.mkObj [("init", Json.str (excName e))])
    | .ok s0 =>
      let k : Kit (SIB Int AccState) (FVal Int V) (Exc IErr) := {
        an := (inn.analysis names).toE
        init := if seqOk then some s0 else none
        ofCell := ofInnerSIB
        ofRes := fun fv => ofValueH (fvalToH fv)
        errName := excName
        toVal := fun fv => match fv with | .plain v => some v | .hist _ _ => none
        toValH := fvalToH }
      let av : ArgVar Int V (Exc IErr) :=
        ⟨fun d => match getter.run d with | .ok x => .ok x | .error e => .error (.inner e), vc⟩
      runKit names j k av argOk edges flow

def handle (j : Json) : Json :=
  match str? (getD j "op") with
  | some "case" => (handleCase j).getD (err "bad case")
  | _ => err "unknown op"

def main : IO Unit := run handle
