import LenaModel.DriverUtil
import LenaModel.Bridge.Context
/-! Model driver of the bridge `LenaModel/Bridge/Context.lean`: every request is evaluated by ALL the independent
transcriptions of the same function of `lena/context/functions.py` (C07 on slot vectors, C08 on association lists,
C13 on slot vectors over ints/strings, C15 on its own slot type, C11/C14 on C14's value type, the flow vocabulary of
C01/C05), on the input translated with the maps *of the bridge file itself* (`absV`/`absE`, `abs15E`, `idx`, `toVL`,
`absFE`, `Tpl8.to13`, …); the harness (`harness/props/bridge_context.py`) demands that all of them equal the result of
the real lena code.

Values V (as `drivers/C08.lean`): a scalar is the JSON scalar, a dictionary `{"d":[[key,V],…]}` in insertion order,
a list `{"L":[…]}`, a float `{"f":repr}`, a foreign object `{"o":str|null}`.  A slot vector is printed as a dictionary
in the order of the key table `names`.  R := `{"r":V}` | `{"e":exception name}`; `null` = this transcription does not
apply to the request (outside its domain).

  {"op":"upd","names":N,"d":V,"o":V,"is":bool}          -> {"c08":R,"c07":R,"c13":R|null}      (`is`: ints and strings only)
  {"op":"inter","names":N,"ds":[V,…],"lv":int}          -> {"c07":R,"c13":R|null}
  {"op":"get","names":N,"d":V,"key":{"s":str}|{"l":[str,…]},"p":[str,…]} -> {"c08":R,"c13":R,"c15":R,"path":R}
  {"op":"contains","names":N,"d":V,"s":str}             -> {"c08":bool,"c15":bool}
  {"op":"s2d","names":N,"s":str,"p":[str,…],"value":V?} -> {"c08":R,"c07":R,"c13":R|null}
  {"op":"fmt","names":N,"t":T,"d":V}                    -> {"str":str,"init":"ok"|exc,"c08":R,"c13":R}   T = {"head":str,"parts":[[[str,…],str],…]}
  {"op":"fuw","names":N,"p":[str,…],"v":{"c":V}|{"t":T},"d":V} -> {"c08":R,"c13":R}
  {"op":"nested","names":N,"k":str,"d":V,"o":V}         -> {"c07":R,"c11":R}
  {"op":"var","names":N,"ctx":V,"name":str}             -> {"c14t":R,"c14f":R,"flow":R} -/
open Lean Lena Lena.Drv Lena.Bridge.Context

namespace BridgeContext

/-! ## wire ↔ C08 values (as in drivers/C08.lean) -/

partial def toVal (j : Json) : Option C08.Val :=
  match j with
  | .null => some (.leaf .none)
  | .bool b => some (.leaf (.bool b))
  | .str s => some (.leaf (.str s))
  | .num _ => (int? j).map (fun i => .leaf (.int i))
  | .obj _ =>
    match arr? (getD j "d"), arr? (getD j "L"), str? (getD j "f"), j.getObjVal? "o" with
    | some a, _, _, _ => (a.toList.mapM toEntry).map C08.Val.dict
    | _, some a, _, _ => (a.toList.mapM toVal).map C08.Val.list
    | _, _, some r, _ => some (.leaf (.float r))
    | _, _, _, .ok o => some (.leaf (.obj (str? o)))
    | _, _, _, _ => none
  | _ => none
where toEntry (j : Json) : Option (String × C08.Val) :=
  match arr? j with
  | some #[k, v] =>
    match str? k, toVal v with
    | some k, some v => some (k, v)
    | _, _ => none
  | _ => none

partial def ofVal : C08.Val → Json
  | .leaf .none => Json.null
  | .leaf (.bool b) => Json.bool b
  | .leaf (.int i) => ofInt i
  | .leaf (.str s) => Json.str s
  | .leaf (.float r) => Json.mkObj [("f", Json.str r)]
  | .leaf (.obj o) => Json.mkObj [("o", match o with | some s => Json.str s | none => Json.null)]
  | .list xs => Json.mkObj [("L", Json.arr (xs.map ofVal).toArray)]
  | .dict es => Json.mkObj [("d", Json.arr (es.map (fun (k, v) => Json.arr #[Json.str k, ofVal v])).toArray)]

def strList? (j : Json) : Option (List String) := do
  let a ← arr? j
  a.toList.mapM str?

def exc (s : String) : Json := Json.mkObj [("e", Json.str s)]
def res (j : Json) : Json := Json.mkObj [("r", j)]

def exc08 : C08.Exc → String
  | .lenaTypeError => "LenaTypeError"
  | .lenaValueError => "LenaValueError"
  | .lenaKeyError => "LenaKeyError"
  | .valueError => "Other:ValueError"
  | .indexError => "Other:IndexError"
  | .lenaAttributeError => "LenaAttributeError"
  | .attributeError => "Other:AttributeError"
  | .unmodelled => "unmodelled"

def r08 : Except C08.Exc C08.Val → Json
  | .ok v => res (ofVal v)
  | .error e => exc (exc08 e)

/-! ## printing slot vectors: a dictionary in the order of the key table -/

def dictJson (pairs : List (String × Json)) : Json :=
  Json.mkObj [("d", Json.arr (pairs.map (fun (k, v) => Json.arr #[Json.str k, v])).toArray)]

/-- the present slots with their keys (a slot beyond the table gets the key `#i`) -/
def slotPairs {α : Type} (names : List String) (f : α → Json) (l : List (Option α)) : List (String × Json) :=
  (l.zipIdx).filterMap (fun (x, i) => x.map (fun v => (names.getD i s!"#{i}", f v)))

partial def ofSlotVal {β : Type} (names : List String) (leaf : β → Json) : Val β → Json
  | .leaf a => leaf a
  | .dict l => dictJson (slotPairs names (ofSlotVal names leaf) l)

def ofSlots {β : Type} (names : List String) (leaf : β → Json) (l : Slots β) : Json :=
  ofSlotVal names leaf (.dict l)

def leaf13Json : C13.Leaf → Json
  | .int i => ofInt i
  | .str s => Json.str s
  | .bad => Json.mkObj [("bad", ofNat 1)]

def leaf15Json : C15.Leaf → Json
  | .none => Json.null
  | .bool b => Json.bool b
  | .int i => ofInt i
  | .str s => Json.str s
  | .obj s => Json.mkObj [("o", Json.str s)]

partial def ofV14 (names : List String) : C14.V → Json
  | .int i => ofInt i
  | .str s => Json.str s
  | .seq t l => Json.mkObj [(if t then "T" else "L", Json.arr (l.map (ofV14 names)).toArray)]
  | .dict l => dictJson (slotPairs names (ofV14 names) l)

/-! ## the leaf abstractions the driver uses -/

/-- generic view: a leaf of the slot view is the C08 scalar / list itself (so that it can be printed back) -/
abbrev lf8 : C08.Leaf → C08.Val := fun a => .leaf a
abbrev ls8 : List C08.Val → C08.Val := fun xs => .list xs
abbrev bad13 : List C08.Val → C13.Leaf := fun _ => .bad

def abs8 (names : List String) (v : C08.Val) : Val C08.Val := absV lf8 ls8 names v
def abs8E (names : List String) (es : C08.Entries) : Slots C08.Val := absE lf8 ls8 names es
def abs13 (names : List String) (v : C08.Val) : C13.V := absV leaf13 bad13 names v
def abs13E (names : List String) (es : C08.Entries) : C13.Ctx := absE leaf13 bad13 names es

def rOut {β : Type} (names : List String) (leaf : β → Json) : C07.Out (Slots β) → Json
  | .ok l => res (ofSlots names leaf l)
  | .lenaTypeError => exc "LenaTypeError"
  | .typeError => exc "Other:TypeError"

def rOutX {β : Type} (names : List String) (leaf : β → Json) : C07.OutX (Slots β) → Json
  | .ok l => res (ofSlots names leaf l)
  | .lenaTypeError => exc "LenaTypeError"
  | .lenaValueError => exc "LenaValueError"
  | .typeError => exc "Other:TypeError"

def asDict? : C08.Val → Option C08.Entries
  | .dict es => some es
  | _ => none

/-! ## upd -/

def opUpd (j : Json) : Json :=
  match strList? (getD j "names"), toVal (getD j "d"), toVal (getD j "o") with
  | some names, some d, some o =>
    let c08 := r08 (C08.updateRecursively d (.val o) none)
    let c07 := rOut names ofVal (C07.updateRecursively (abs8 names d) (abs8 names o))
    let c13 : Json :=
      match bool? (getD j "is"), d, o with
      | some true, .dict de, .dict oe => res (ofSlots names leaf13Json (C13.updL (abs13E names de) (abs13E names oe)))
      | _, _, _ => Json.null
    Json.mkObj [("c08", c08), ("c07", c07), ("c13", c13)]
  | _, _, _ => err "upd: bad arguments"

/-! ## inter -/

def opInter (j : Json) : Json :=
  match strList? (getD j "names"), (arr? (getD j "ds")).bind (fun a => a.toList.mapM toVal), int? (getD j "lv") with
  | some names, some ds, some lv =>
    let n := names.length
    let c07 := rOut names leaf13Json (C07.intersection n lv (ds.map (abs13 names)))
    let c13 : Json :=
      match ds.mapM asDict? with
      | some es => if lv < 0 then res (ofSlots names leaf13Json (C13.interN n (es.map (abs13E names)))) else Json.null
      | none => Json.null
    Json.mkObj [("c07", c07), ("c13", c13)]
  | _, _, _ => err "inter: bad arguments"

/-! ## get -/

def keyError : Json := exc "LenaKeyError"

def opGet (j : Json) : Json :=
  let key : Option C08.KeyArg :=
    match str? (getD (getD j "key") "s"), strList? (getD (getD j "key") "l") with
    | some s, _ => some (.str s)
    | _, some l => some (.list (l.map (fun k => C08.Val.leaf (.str k))))
    | _, _ => none
  match strList? (getD j "names"), toVal (getD j "d"), key, strList? (getD j "p") with
  | some names, some d, some key, some p =>
    let c08 := r08 (C08.getRec d key none)
    match d with
    | .dict es =>
      let c13 : Json :=
        match C13.getRec (abs13E names es) (idx names p) with
        | .ok v => res (ofSlotVal names leaf13Json v)
        | .error _ => keyError
      let c15 : Json :=
        match C15.getRecGo names (abs15E names es) p with
        | some v => res (ofSlotVal names leaf15Json (of15 v))
        | none => keyError
      let path : Json :=
        match Val.getPath (.dict (abs8E names es)) (idx names p) with
        | some v => res (ofSlotVal names ofVal v)
        | none => keyError
      Json.mkObj [("c08", c08), ("c13", c13), ("c15", c15), ("path", path)]
    | _ => Json.mkObj [("c08", c08), ("c13", Json.null), ("c15", Json.null), ("path", Json.null)]
  | _, _, _, _ => err "get: bad arguments"

/-! ## contains -/

def opContains (j : Json) : Json :=
  match strList? (getD j "names"), toVal (getD j "d"), str? (getD j "s") with
  | some names, some (.dict es), some s =>
    Json.mkObj [("c08", Json.bool (C08.contains es s)), ("c15", Json.bool (C15.contains names (abs15E names es) s))]
  | _, _, _ => err "contains: bad arguments"

/-! ## str_to_dict -/

def optVal (j : Json) (k : String) : Option (Option C08.Val) :=
  match j.getObjVal? k with
  | .ok v => (toVal v).map some
  | .error _ => some none

def opS2d (j : Json) : Json :=
  match strList? (getD j "names"), str? (getD j "s"), strList? (getD j "p"), optVal j "value" with
  | some names, some s, some p, some value =>
    let n := names.length
    let c08 := r08 (C08.strToDict s value)
    let last : C08.Val := .leaf (.str (p.getLastD ""))
    let c07 := rOutX names ofVal (C07.strToDict n (s == "") (idx names p) last (value.map (abs8 names)))
    let c13 : Json :=
      match p, value with
      | k :: ks, some (.leaf a) => res (ofSlots names leaf13Json (C13.single n (names.idxOf k) (idx names ks) (leaf13 a)))
      | _, _ => Json.null
    Json.mkObj [("c08", c08), ("c07", c07), ("c13", c13)]
  | _, _, _, _ => err "s2d: bad arguments"

/-! ## format_context, format_update_with -/

def toTpl8 (j : Json) : Option Tpl8 := do
  let head ← str? (getD j "head")
  let parts ← arr? (getD j "parts")
  let ps ← parts.toList.mapM (fun e =>
    match arr? e with
    | some #[p, lit] =>
      match strList? p, str? lit with
      | some p, some lit => some (p, lit)
      | _, _ => none
    | _ => none)
  some ⟨head, ps⟩

def r13Leaf : Except Nat C13.Leaf → Json
  | .ok l => res (leaf13Json l)
  | .error _ => keyError

def opFmt (j : Json) : Json :=
  match strList? (getD j "names"), toTpl8 (getD j "t"), toVal (getD j "d") with
  | some names, some t, some (.dict es) =>
    let (init, c08) : Json × Json :=
      match C08.formatInit (some t.str) with
      | .error e => (Json.str (exc08 e), Json.null)
      | .ok f =>
        (Json.str "ok", match C08.formatCall f (.dict es) with
          | .ok s => res (Json.str s)
          | .error e => exc (exc08 e))
    let c13 := r13Leaf (C13.fmt (t.to13 names) (abs13E names es))
    Json.mkObj [("str", Json.str t.str), ("init", init), ("c08", c08), ("c13", c13)]
  | _, _, _ => err "fmt: bad arguments"

def toSVal8 (j : Json) : Option SVal8 :=
  match j.getObjVal? "c", j.getObjVal? "t" with
  | .ok c, _ =>
    match toVal c with
    | some (.leaf a) => some (.const a)
    | _ => none
  | _, .ok t => (toTpl8 t).map SVal8.tpl
  | _, _ => none

def opFuw (j : Json) : Json :=
  match strList? (getD j "names"), strList? (getD j "p"), toSVal8 (getD j "v"), toVal (getD j "d") with
  | some names, some (k :: ks), some v, some (.dict es) =>
    let c08 := r08 (C08.formatUpdateWith (some (C08.joinDots (k :: ks))) v.to08 (.dict es))
    let c13 : Json :=
      match C13.fmtUpdate names.length (names.idxOf k) (idx names ks) (v.to13 names) (abs13E names es) with
      | .ok c => res (ofSlots names leaf13Json c)
      | .error _ => keyError
    Json.mkObj [("c08", c08), ("c13", c13), ("v08", ofVal v.to08)]
  | _, _, _, _ => err "fuw: bad arguments"

/-! ## update_nested -/

def rErr (names : List String) : Except Lena.Err C14.Slots → Json
  | .ok l => res (ofV14 names (.dict l))
  | .error e => exc e.name

def opNested (j : Json) : Json :=
  match strList? (getD j "names"), str? (getD j "k"), toVal (getD j "d"), toVal (getD j "o") with
  | some names, some k, some (.dict de), some (.dict oe) =>
    let d := abs13E names de
    let o := abs13E names oe
    let i := names.idxOf k
    Json.mkObj [("c07", rOut names leaf13Json (C07.updateNested i d o)),
      ("c11", rErr names (C11.updateNested i (toVL lv13 d) (toVL lv13 o)))]
  | _, _, _, _ => err "nested: bad arguments"

/-! ## Variable._update_context -/

partial def toFlow (j : Json) : Option Flow.Value :=
  match j with
  | .str s => some (.str s)
  | .num _ => (int? j).map Flow.Value.int
  | .obj _ =>
    match arr? (getD j "d"), arr? (getD j "L") with
    | some a, _ => (a.toList.mapM (fun e =>
        match arr? e with
        | some #[k, v] =>
          match str? k, toFlow v with
          | some k, some v => some (k, v)
          | _, _ => none
        | _ => none)).map Flow.Value.dict
    | _, some a => (a.toList.mapM toFlow).map Flow.Value.list
    | _, _ => none
  | _ => none

partial def ofFlow : Flow.Value → Json
  | .int i => ofInt i
  | .str s => Json.str s
  | .quot n d => Json.mkObj [("q", Json.arr #[ofInt n, ofInt d])]
  | .list xs => Json.mkObj [("L", Json.arr (xs.map ofFlow).toArray)]
  | .tup xs => Json.mkObj [("T", Json.arr (xs.map ofFlow).toArray)]
  | .dict kvs => dictJson (kvs.map (fun (k, v) => (k, ofFlow v)))

def exc14 : C14.Err → String
  | .lenaTypeError => "LenaTypeError"
  | .lenaAttributeError => "LenaAttributeError"
  | .typeError => "Other:TypeError"
  | .assertionError => "Other:AssertionError"
  | .unmodelled => "unmodelled"
  | .attributeError => "Other:AttributeError"
  | .indexError => "Other:IndexError"

def r14 (names : List String) : Except C14.Err C14.Slots → Json
  | .ok l => res (ofV14 names (.dict l))
  | .error e => exc (exc14 e)

def opVar (j : Json) : Json :=
  match strList? (getD j "names"), toFlow (getD j "ctx"), str? (getD j "name") with
  | some names, some (.dict c), some name =>
    let vc : Flow.Ctx := [("name", .str name)]
    let flow : Json :=
      match Flow.variableCall name .ident (.tup [.int 0, .dict c]) with
      | .ok r => res (ofFlow (.dict (Flow.getContext r)))
      | .error e => exc e.name
    Json.mkObj [("c14t", r14 names (C14.updateContext names true (absFE names c) (absFE names vc))),
      ("c14f", r14 names (C14.updateContext names false (absFE names c) (absFE names vc))),
      ("flow", flow)]
  | _, _, _ => err "var: bad arguments"

def handle (j : Json) : Json :=
  match str? (getD j "op") with
  | some "upd" => opUpd j
  | some "inter" => opInter j
  | some "get" => opGet j
  | some "contains" => opContains j
  | some "s2d" => opS2d j
  | some "fmt" => opFmt j
  | some "fuw" => opFuw j
  | some "nested" => opNested j
  | some "var" => opVar j
  | _ => err "unknown op"

end BridgeContext

def main : IO Unit := Lena.Drv.run BridgeContext.handle
