#!/bin/bash
# Build the Lean library from the files on disk (offline). Run once after a fresh restore.
set -e
cd "$(dirname "$0")/lean"
lake build 2>&1 | tail -5
