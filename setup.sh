#!/bin/bash
# Build every Lean module of the library from the files on disk (offline). Run once after a fresh restore.
set -e
cd "$(dirname "$0")/lean"
mods=$(find LenaModel -name '*.lean' | sed 's/\.lean$//; s|/|.|g' | sort)
./lb $mods 2>&1 | tail -15 || true   # a module that fails is reported by its own property check
